package main

import (
	"go/token"
	"go/types"
	"sort"

	"golang.org/x/tools/go/ssa"
)

// E2 (part 1) — roles: every `go` target is a role root, plus the client role
// (exported API). A function belongs to each role from whose root it is reachable
// in the call graph without crossing a `go` edge.

type roleInfo struct {
	Order   []string
	Roots   map[string][]*ssa.Function
	Reach   map[string]map[*ssa.Function]bool
	GoSites []*ssa.Go
	byFn    map[*ssa.Function][]string
}

const clientRole = "client"

func (w *World) Roles() *roleInfo {
	if w.roles != nil {
		return w.roles
	}
	ri := &roleInfo{Roots: map[string][]*ssa.Function{}, Reach: map[string]map[*ssa.Function]bool{}, byFn: map[*ssa.Function][]string{}}
	for _, fn := range w.ModFns {
		for _, b := range fn.Blocks {
			for _, in := range b.Instrs {
				if g, ok := in.(*ssa.Go); ok {
					ri.GoSites = append(ri.GoSites, g)
					for _, t := range w.goTargets(g) {
						name := "go:" + fnShort(t)
						ri.Roots[name] = appendUniqueFn(ri.Roots[name], t)
					}
				}
			}
		}
	}
	// client role
	for _, fn := range w.ModFns {
		if fn.Parent() != nil {
			continue
		}
		if w.isClientEntry(fn) {
			ri.Roots[clientRole] = append(ri.Roots[clientRole], fn)
		}
	}
	for name := range ri.Roots {
		ri.Order = append(ri.Order, name)
	}
	sort.Strings(ri.Order)
	for _, name := range ri.Order {
		ri.Reach[name] = w.reachNoGo(ri.Roots[name])
	}
	for _, name := range ri.Order {
		for fn := range ri.Reach[name] {
			ri.byFn[fn] = append(ri.byFn[fn], name)
		}
	}
	for fn := range ri.byFn {
		sort.Strings(ri.byFn[fn])
	}
	w.roles = ri
	return ri
}

func appendUniqueFn(s []*ssa.Function, f *ssa.Function) []*ssa.Function {
	for _, x := range s {
		if x == f {
			return s
		}
	}
	return append(s, f)
}

func (ri *roleInfo) RolesOf(fn *ssa.Function) []string { return ri.byFn[fn] }

func (ri *roleInfo) InRole(fn *ssa.Function, role string) bool { return ri.Reach[role][fn] }

// isClientEntry: exported package-level functions, exported methods of exported types,
// and the io-facing methods of the unexported proxy types handed to the client.
func (w *World) isClientEntry(fn *ssa.Function) bool {
	obj, _ := fn.Object().(*types.Func)
	if obj == nil || !obj.Exported() {
		return false
	}
	sig := obj.Type().(*types.Signature)
	if sig.Recv() == nil {
		return true
	}
	rt := sig.Recv().Type()
	if p, ok := rt.(*types.Pointer); ok {
		rt = p.Elem()
	}
	n, ok := types.Unalias(rt).(*types.Named)
	if !ok {
		return false
	}
	if n.Obj().Exported() {
		return true
	}
	// unexported types whose values are handed to the client as io.* or composer interfaces
	switch obj.Name() {
	case "Read", "Write", "Close", "WriteTo", "ReadFrom":
		return true
	}
	// style composers (value receivers; build-time only)
	ms := types.NewMethodSet(rt)
	if ms.Lookup(n.Obj().Pkg(), "Build") != nil {
		return true
	}
	return false
}

// reachNoGo: functions reachable from roots through Call and Defer sites (not Go).
func (w *World) reachNoGo(roots []*ssa.Function) map[*ssa.Function]bool {
	seen := map[*ssa.Function]bool{}
	var stack []*ssa.Function
	stack = append(stack, roots...)
	for len(stack) > 0 {
		fn := stack[len(stack)-1]
		stack = stack[:len(stack)-1]
		if fn == nil || seen[fn] || fn.Blocks == nil {
			continue
		}
		seen[fn] = true
		for _, b := range fn.Blocks {
			for _, in := range b.Instrs {
				site, ok := in.(ssa.CallInstruction)
				if !ok {
					continue
				}
				if _, isGo := in.(*ssa.Go); isGo {
					continue
				}
				for _, c := range w.Callees(site) {
					if !seen[c] {
						stack = append(stack, c)
					}
				}
			}
		}
	}
	return seen
}

// behavioural anchors -------------------------------------------------------

// fnRecvsFromClass: does fn contain a receive (plain or select alternative) from class cls?
func (w *World) fnRecvsFrom(fn *ssa.Function, cls string) bool {
	for _, op := range w.Comm().byFn[fn] {
		switch op.Kind {
		case "recv":
			if op.Class.has(cls) {
				return true
			}
		case "select":
			for _, s := range op.States {
				if s.Dir == types.RecvOnly && s.Class.has(cls) {
					return true
				}
			}
		}
	}
	return false
}

func (w *World) fnSendsOn(fn *ssa.Function, cls string) bool {
	for _, op := range w.Comm().byFn[fn] {
		switch op.Kind {
		case "send":
			if op.Class.has(cls) {
				return true
			}
		case "select":
			for _, s := range op.States {
				if s.Dir == types.SendOnly && s.Class.has(cls) {
					return true
				}
			}
		}
	}
	return false
}

// goTargetWhere returns the go targets (anywhere in the module) satisfying pred.
func (w *World) goTargetsWhere(pred func(*ssa.Function) bool) []*ssa.Function {
	var out []*ssa.Function
	for _, g := range w.Roles().GoSites {
		for _, t := range w.goTargets(g) {
			if pred(t) {
				out = appendUniqueFn(out, t)
			}
		}
	}
	return out
}

// containerLoop = the go target that receives from Progress.operateState.
func (w *World) containerLoop() *ssa.Function {
	fs := w.goTargetsWhere(func(f *ssa.Function) bool { return w.fnRecvsFrom(f, "Progress.operateState") })
	if len(fs) == 1 {
		return fs[0]
	}
	return nil
}

// barLoop = the go target that receives from Bar.operateState.
func (w *World) barLoop() *ssa.Function {
	fs := w.goTargetsWhere(func(f *ssa.Function) bool { return w.fnRecvsFrom(f, "Bar.operateState") })
	if len(fs) == 1 {
		return fs[0]
	}
	return nil
}

// heapLoop = the go target that is a method of a named channel type and receives from its receiver.
func (w *World) heapLoop() *ssa.Function {
	fs := w.goTargetsWhere(func(f *ssa.Function) bool {
		if f.Signature.Recv() == nil {
			return false
		}
		nc := namedChan(f.Signature.Recv().Type())
		return nc != "" && w.fnRecvsFrom(f, nc)
	})
	if len(fs) == 1 {
		return fs[0]
	}
	return nil
}

// flushFn = the function that receives from Bar.frameCh.
func (w *World) flushFn() *ssa.Function {
	var out []*ssa.Function
	for _, fn := range w.ModFns {
		if w.fnRecvsFrom(fn, "Bar.frameCh") {
			out = append(out, fn)
		}
	}
	if len(out) == 1 {
		return out[0]
	}
	return nil
}

// renderClosure = the closure that sends on Bar.frameCh.
func (w *World) renderClosure() *ssa.Function {
	var out []*ssa.Function
	for _, fn := range w.ModFns {
		if w.fnSendsOn(fn, "Bar.frameCh") {
			out = append(out, fn)
		}
	}
	if len(out) == 1 {
		return out[0]
	}
	return nil
}

// renderFn = the function (method of pState) that calls flushFn.
func (w *World) renderFn() *ssa.Function {
	fl := w.flushFn()
	if fl == nil {
		return nil
	}
	var out []*ssa.Function
	for _, site := range w.callers[fl] {
		out = appendUniqueFn(out, site.Parent())
	}
	if len(out) == 1 {
		return out[0]
	}
	return nil
}

// completionPredicate = the bState method returning bool that reads triggerComplete.
func (w *World) completionPredicate() *ssa.Function {
	var out []*ssa.Function
	for _, fn := range w.ModFns {
		if fn.Parent() != nil || fn.Signature.Recv() == nil {
			continue
		}
		if typeName(fn.Signature.Recv().Type()) != "mpb.bState" {
			continue
		}
		res := fn.Signature.Results()
		if res.Len() != 1 || !types.Identical(res.At(0).Type(), types.Typ[types.Bool]) {
			continue
		}
		if fn.Signature.Params().Len() != 0 {
			continue
		}
		reads := false
		for _, b := range fn.Blocks {
			for _, in := range b.Instrs {
				if u, ok := in.(*ssa.UnOp); ok && u.Op == token.MUL {
					if f, ok := fieldOf(u.X); ok && f.Owner == "mpb.bState" && f.Name == "triggerComplete" {
						reads = true
					}
				}
				if f, ok := in.(*ssa.Field); ok {
					if fr, ok := fieldOf(f); ok && fr.Owner == "mpb.bState" && fr.Name == "triggerComplete" {
						reads = true
					}
				}
			}
		}
		if reads {
			out = append(out, fn)
		}
	}
	if len(out) == 1 {
		return out[0]
	}
	return nil
}

// distributor = the go target that receives from and sends on WC.wsync column entries.
func (w *World) distributor() *ssa.Function {
	fs := w.goTargetsWhere(func(f *ssa.Function) bool {
		// in the function itself or in the private helpers it calls (collect / distribute split)
		recvs, sends := false, false
		for _, g := range w.staticHelpers(f, 2) {
			recvs = recvs || w.fnRecvsFrom(g, "WC.wsync")
			sends = sends || w.fnSendsOn(g, "WC.wsync")
		}
		return recvs && sends
	})
	if len(fs) == 1 {
		return fs[0]
	}
	return nil
}

// staticHelpers: f and the same-package, non-exported functions without a go statement that it
// reaches by static calls (depth <= d). Unlike unit() this does not consult the anchors (it is
// used to find them).
func (w *World) staticHelpers(f *ssa.Function, d int) []*ssa.Function {
	seen := map[*ssa.Function]bool{f: true}
	out := []*ssa.Function{f}
	var rec func(g *ssa.Function, depth int)
	rec = func(g *ssa.Function, depth int) {
		if depth >= d {
			return
		}
		for _, b := range g.Blocks {
			for _, in := range b.Instrs {
				c, ok := in.(*ssa.Call)
				if !ok {
					continue
				}
				h := c.Call.StaticCallee()
				if h == nil || h.Blocks == nil || seen[h] || h.Pkg != f.Pkg || h.Parent() != nil || token.IsExported(h.Name()) || h.Signature.Recv() != nil {
					continue
				}
				seen[h] = true
				out = append(out, h)
				rec(h, depth+1)
			}
		}
	}
	rec(f, 0)
	return out
}
