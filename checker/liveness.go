package main

import (
	"fmt"
	"go/token"
	"go/types"
	"sort"
	"strings"

	"golang.org/x/tools/go/ssa"
)

// Liveness skeleton (E1 rule schemas): every blocking operation of the module must fall
// under a schema that guarantees it cannot block forever once its peers follow theirs.
// Shared by C01 (Wait returns), C02 (no hang), C15 (error shutdown), C16 (no leaked goroutine).

// fieldOrigins: classes of the values stored into struct field "T.f" anywhere in the module.
func (w *World) fieldOrigins(field string) classSet {
	cs := classSet{}
	cr := &classResolver{w: w, memo: map[ssa.Value]classSet{}}
	for _, fn := range w.ModFns {
		for _, b := range fn.Blocks {
			for _, in := range b.Instrs {
				if st, ok := in.(*ssa.Store); ok {
					if f, ok := fieldOf(st.Addr); ok && f.String() == field {
						cs.union(cr.classOf(st.Val))
					}
				}
			}
		}
	}
	return cs
}

// isSignalClass: never sent on, and either a context's Done or closed somewhere (directly or
// through one of the field's origins).
func (w *World) isSignalClass(cls string) bool {
	ct := w.Comm()
	for _, op := range ct.Ops {
		if op.Kind == "send" && op.Class.has(cls) {
			return false
		}
		if op.Kind == "select" {
			for _, s := range op.States {
				if s.Dir == types.SendOnly && s.Class.has(cls) {
					return false
				}
			}
		}
	}
	if strings.HasPrefix(cls, "Done(") {
		return true
	}
	names := classSet{cls: true}
	names.union(w.fieldOrigins(cls))
	for _, op := range ct.Ops {
		if op.Kind == "close" && sameClass(op.Class, names) {
			return true
		}
	}
	for k := range names {
		if strings.HasPrefix(k, "Done(") {
			return true
		}
	}
	return false
}

// armLeaves: from the first block of the arm, the select instruction is not reachable again
// and some return is reachable.
func armLeaves(sel *ssa.Select, arm *ssa.BasicBlock) bool {
	if arm == nil {
		return false
	}
	reach := reachableFrom(arm, true)
	if reach[sel.Block()] {
		return false
	}
	for b := range reach {
		if _, ok := b.Instrs[len(b.Instrs)-1].(*ssa.Return); ok {
			return true
		}
	}
	return false
}

func selArm(sel *ssa.Select, i int) *ssa.BasicBlock {
	arms := selectArms(sel)
	if b, ok := arms[i]; ok {
		return b
	}
	return nil
}

func inLoop(in ssa.Instruction) bool {
	return instrReaches(in, in)
}

type liveCtx struct {
	w    *World
	r    *Report
	pfx  string
	only func(op *commOp) bool // restrict to ops (nil = all)
}

// checkLiveness classifies every blocking operation.
func checkLiveness(w *World, r *Report, pfx string, only func(op *commOp) bool) {
	lc := &liveCtx{w: w, r: r, pfx: pfx, only: only}
	ct := w.Comm()
	n := 0
	for _, op := range ct.Ops {
		if only != nil && !only(op) {
			continue
		}
		switch op.Kind {
		case "select":
			if !op.Blocking {
				continue
			}
			n++
			lc.classifySelect(op)
		case "send":
			n++
			lc.classifySend(op)
		case "recv":
			n++
			lc.classifyRecv(op)
		case "wg.Wait":
			n++
			lc.classifyWait(op)
		}
	}
	r.Inv[pfx+".blocking_ops_classified"] = n
}

func (lc *liveCtx) key(op *commOp, what string) string {
	return what + " in " + fnShort(op.Fn)
}

func (lc *liveCtx) classifySelect(op *commOp) {
	w, r := lc.w, lc.r
	sel := op.Instr.(*ssa.Select)
	// offers on an inbox
	for _, s := range op.States {
		if s.Dir == types.SendOnly {
			if ib, ok := isInbox(s.Class); ok {
				r.Check(escapeOK(ib, op.States), lc.pfx+".L-ESC", lc.key(op, "offer on "+ib), w.instrPos(op.Instr),
					"blocking select with the actor's liveness alternative", "offer without the actor's done/ctx/ready alternative: hangs once the actor is gone")
				return
			}
		}
	}
	// sends with an escape (heap loop iteration, early refresh)
	for _, s := range op.States {
		if s.Dir != types.SendOnly {
			continue
		}
		okEsc := false
		for i, t := range op.States {
			if t.Dir == types.RecvOnly && allSignal(w, t.Class) {
				// the escape arm must leave the enclosing loop (or the function)
				if arm := selArm(sel, i); arm != nil && armLeavesLoop(sel, arm) {
					okEsc = true
				}
			}
		}
		r.Check(okEsc, lc.pfx+".L-SENDESC", lc.key(op, "select-send on "+s.Class.String()), w.instrPos(op.Instr),
			"send has a signal alternative whose arm leaves the loop", "a select-send in a goroutine has no alternative on a termination signal that leaves the loop: the goroutine can block forever when the receiver abandons the cycle")
		return
	}
	// receive-only selects: owner loops, listeners, drain, distributor
	var sig []int
	for i, t := range op.States {
		if t.Dir == types.RecvOnly && allSignal(w, t.Class) && !t.Class.has("nil") {
			sig = append(sig, i)
		}
	}
	okLeave := false
	for _, i := range sig {
		if arm := selArm(sel, i); arm != nil && armLeavesLoop(sel, arm) {
			okLeave = true
		}
	}
	var cls []string
	for _, t := range op.States {
		cls = append(cls, t.Class.String())
	}
	r.Check(okLeave, lc.pfx+".L-LOOPESC", lc.key(op, "select-recv ["+strings.Join(cls, ";")+"]"), w.instrPos(op.Instr),
		"has an alternative on a termination signal whose arm leaves the loop", "a blocking receive-select has no alternative on a close-only termination signal that leaves its loop: the goroutine outlives the container")
}

func allSignal(w *World, cs classSet) bool {
	if len(cs) == 0 {
		return false
	}
	for k := range cs {
		if k == "nil" {
			continue
		}
		if !w.isSignalClass(k) {
			return false
		}
	}
	return true
}

// armLeavesLoop: from the arm's first block control leaves the innermost loop containing the
// select without executing the select again (or the select is not in a loop at all).
func armLeavesLoop(sel *ssa.Select, arm *ssa.BasicBlock) bool {
	loops := naturalLoops(sel.Parent())
	l := innermostLoop(loops, sel.Block())
	if l == nil {
		return true
	}
	if !l.Blocks[arm] {
		return true
	}
	seen := map[*ssa.BasicBlock]bool{}
	stack := []*ssa.BasicBlock{arm}
	for len(stack) > 0 {
		b := stack[len(stack)-1]
		stack = stack[:len(stack)-1]
		if seen[b] || !l.Blocks[b] {
			continue
		}
		if b == l.Header || b == sel.Block() {
			return false
		}
		seen[b] = true
		stack = append(stack, b.Succs...)
	}
	return true
}

func (lc *liveCtx) classifySend(op *commOp) {
	w, r := lc.w, lc.r
	pos := w.instrPos(op.Instr)
	switch {
	case op.Class.has("heapManager"):
		// QUEUE: discipline checked by L-HEAPQ (role, FIFO, no request while iterating)
		r.HoldsTrivial(lc.pfx+".L-QUEUE", lc.key(op, "request send"), pos, "receiver is the heap loop, alive until the end request (see L-HEAPQ, L-NOREQ)")
	case op.Class.only("Bar.frameCh"):
		r.HoldsTrivial(lc.pfx+".L-FRAME", lc.key(op, "frame send"), pos, "buffered frame channel, one frame per render (see L-ONEFRAME)")
	case op.Class.only("pState.renderReq") || op.Class.only("bState.renderReq"):
		lc.checkListenerForward(op)
	case op.Class.only("WC.wsync"):
		r.HoldsTrivial(lc.pfx+".L-WSYNC", lc.key(op, "width send"), pos, "width exchange (see L-EXCHANGE)")
	case op.Class.has("pState.shutdownNotifier"):
		// single send in a spawned closure on the user-owned channel
		isGoTarget := false
		for _, g := range w.Roles().GoSites {
			for _, t := range w.goTargets(g) {
				if t == op.Fn {
					isGoTarget = true
				}
			}
		}
		r.Check(isGoTarget && !inLoop(op.Instr), lc.pfx+".L-NOTIFY", lc.key(op, "notifier send"), pos,
			"one send on the user-owned channel from a detached goroutine (the statement makes reading it the user's duty)", "the shutdown notification is sent synchronously or repeatedly: the heap loop / container would block on the user's channel")
	default:
		// reply legs: local unbuffered channel made in the requesting function
		if isLocalMake(op.Class) {
			r.HoldsTrivial(lc.pfx+".L-REPLYLEG", lc.key(op, "reply send on "+op.Class.String()), pos, "reply leg (see L-REPLY)")
			return
		}
		r.Undecided(lc.pfx+".L-SEND", lc.key(op, "bare send on "+op.Class.String()), pos, "a bare send that fits no schema (inbox, queue, reply, frame, listener forward, width exchange, notifier)")
	}
}

func isLocalMake(cs classSet) bool {
	if len(cs) == 0 {
		return false
	}
	for k := range cs {
		if !strings.HasPrefix(k, "make(") {
			return false
		}
	}
	return true
}

func (lc *liveCtx) classifyRecv(op *commOp) {
	w, r := lc.w, lc.r
	pos := w.instrPos(op.Instr)
	switch {
	case op.Class.only("Bar.bsOk"):
		// API-WAIT: closed on the bar loop's only exit (C11.d / L-BARDONE)
		r.HoldsTrivial(lc.pfx+".L-APIWAIT", lc.key(op, "wait on ready channel"), pos, "the ready channel is closed on the bar loop's exit (L-BAREXIT)")
	case op.Class.only("Bar.frameCh"):
		r.HoldsTrivial(lc.pfx+".L-FRAME", lc.key(op, "frame receive"), pos, "one frame per render request (see L-ONEFRAME)")
	case op.Class.only("WC.wsync"):
		r.HoldsTrivial(lc.pfx+".L-WSYNC", lc.key(op, "width receive"), pos, "width exchange (see L-EXCHANGE)")
	case op.Class.has("heapManager") && op.CommaOk:
		r.HoldsTrivial(lc.pfx+".L-RANGE", lc.key(op, "range over request channel"), pos, "closed by the end request (see L-END)")
	case op.CommaOk && isLocalMake(op.Class):
		r.HoldsTrivial(lc.pfx+".L-RANGE", lc.key(op, "range over iterator "+op.Class.String()), pos, "closed by the heap loop on every path (see L-PRODCLOSE)")
	case isLocalMake(op.Class):
		r.HoldsTrivial(lc.pfx+".L-REPLYLEG", lc.key(op, "reply receive on "+op.Class.String()), pos, "reply leg (see L-REPLY)")
	default:
		r.Undecided(lc.pfx+".L-RECV", lc.key(op, "bare receive on "+op.Class.String()), pos, "a bare receive that fits no schema")
	}
}

func (lc *liveCtx) classifyWait(op *commOp) {
	lc.r.HoldsTrivial(lc.pfx+".L-WGWAIT", lc.key(op, "Wait on "+op.Class.String()), lc.w.instrPos(op.Instr), "paired by L-WG")
}

// checkListenerForward: a bare send on the render-request channel is justified when the
// sender closes the container's done signal after its last send and returns, and every
// receiver of the render-request channel leaves only on that signal.
func (lc *liveCtx) checkListenerForward(op *commOp) {
	w, r := lc.w, lc.r
	fn := op.Fn
	doneOrigins := w.fieldOrigins("Progress.done")
	var closes []*commOp
	for _, o := range w.Comm().byFn[fn] {
		if o.Kind == "close" && sameClass(o.Class, doneOrigins) {
			closes = append(closes, o)
		}
	}
	ok := len(closes) > 0
	bad := ""
	for _, c := range closes {
		if instrReaches(c.Instr, op.Instr) {
			ok = false
			bad = "the forward send is reachable after the listener closed done"
		}
	}
	if len(closes) == 0 {
		bad = "the sender never closes the container's done signal: receivers cannot know when it stopped sending"
	}
	r.Check(ok, lc.pfx+".L-FORWARD", lc.key(op, "bare forward on render-request channel"), w.instrPos(op.Instr),
		"sender closes done after its last send; receivers leave only on done (L-RRECV)", bad)
}

// checkRenderReqReceivers: every loop that receives from the render-request channel leaves
// only through an arm on Progress.done (the signal the forwarding listener closes after its
// last send); when the container loop disables its render-request inbox, a drain loop has
// been spawned before.
func checkRenderReqReceivers(w *World, r *Report, pfx string) {
	ct := w.Comm()
	n := 0
	for _, op := range ct.Ops {
		if op.Kind != "select" {
			continue
		}
		recvs := false
		for _, s := range op.States {
			if s.Dir == types.RecvOnly && s.Class.has("pState.renderReq") {
				recvs = true
			}
		}
		if !recvs {
			continue
		}
		n++
		sel := op.Instr.(*ssa.Select)
		// every arm that leaves the loop must be on Progress.done exactly
		bad := ""
		leavesOnDone := false
		for i, s := range op.States {
			arm := selArm(sel, i)
			if arm == nil {
				continue
			}
			if armLeavesLoop(sel, arm) && inLoop(sel) {
				if s.Dir == types.RecvOnly && s.Class.only("Progress.done") {
					leavesOnDone = true
				} else {
					bad = "the loop receiving render requests can be left on " + s.Class.String() + ", which is not the signal the refresh listener closes after its last send: the listener may block forever on its forward send"
				}
			}
		}
		if !leavesOnDone && bad == "" {
			bad = "the loop receiving render requests has no exit on the container's done signal"
		}
		r.Check(bad == "", pfx+".L-RRECV", "receiver of render requests in "+fnShort(op.Fn), w.instrPos(op.Instr), "left only on Progress.done", bad)
	}
	r.Floor(pfx+".L-RRECV", 2, "container loop and drain loop")

	// container loop: the phi feeding the render-request state: every nil edge is dominated by a go of a drain loop
	cont := w.containerLoop()
	if cont == nil {
		return
	}
	for _, op := range ct.byFn[cont] {
		if op.Kind != "select" {
			continue
		}
		for _, s := range op.States {
			if s.Dir != types.RecvOnly || !s.Class.has("pState.renderReq") {
				continue
			}
			phi, ok := s.Chan.(*ssa.Phi)
			if !ok {
				continue
			}
			for i, e := range phi.Edges {
				if !isNilConst(e) {
					continue
				}
				pred := phi.Block().Preds[i]
				okDrain := false
				for _, b := range cont.Blocks {
					for _, in := range b.Instrs {
						g, isGo := in.(*ssa.Go)
						if !isGo {
							continue
						}
						for _, t := range w.goTargets(g) {
							if w.fnRecvsFrom(t, "pState.renderReq") && (b == pred || b.Dominates(pred)) {
								okDrain = true
							}
						}
					}
				}
				r.Check(okDrain, pfx+".L-DRAIN", "container loop disables its render-request inbox", w.instrPos(pred.Instrs[len(pred.Instrs)-1]),
					"a drain loop is spawned before the inbox is disabled", "the render-request inbox is set to nil without a drain goroutine: the refresh listener blocks forever on its next tick and never closes done")
			}
		}
	}
}

// checkReplyProtocol: REPLY(F, ch) for every API method that offers a closure capturing a
// local unbuffered channel.
func checkReplyProtocol(w *World, r *Report, pfx string) {
	n := 0
	for _, fn := range w.ModFns {
		for _, off := range w.offersIn(fn) {
			if off.Closure == nil {
				continue
			}
			// channels made in fn and captured by the closure
			var chans []*ssa.MakeChan
			for _, b := range off.MC.Bindings {
				if mc := makeChanOf(w, b); mc != nil && mc.Parent() == fn {
					chans = append(chans, mc)
				}
				// a request object bound as the receiver of an offered method value: the channels stored in its fields
				if al, ok := b.(*ssa.Alloc); ok && w.messageStructs()[typeName(al.Type())] && al.Referrers() != nil {
					for _, ref := range *al.Referrers() {
						fa, ok := ref.(*ssa.FieldAddr)
						if !ok || fa.Referrers() == nil {
							continue
						}
						for _, r2 := range *fa.Referrers() {
							if st, ok := r2.(*ssa.Store); ok && st.Addr == ssa.Value(fa) {
								if mc, ok := st.Val.(*ssa.MakeChan); ok && mc.Parent() == fn {
									chans = append(chans, mc)
								}
							}
						}
					}
				}
			}
			for _, mc := range chans {
				cls := (&classResolver{w: w, memo: map[ssa.Value]classSet{}}).classOf(mc).String()
				// is it a reply channel (closure sends on it)?
				sends := false
				for _, o := range w.Comm().byFn[off.Closure] {
					if o.Kind == "send" && o.Class.has(cls) {
						sends = true
					}
				}
				if !sends {
					continue
				}
				n++
				construct := "reply channel of " + fnShort(fn)
				if k, ok := constInt(mc.Size); !ok || k != 0 {
					r.Undecided(pfx+".L-REPLY", construct, w.instrPos(mc), "reply channel is not unbuffered with constant capacity")
					continue
				}
				bad := ""
				// closure: exactly one send per returning path
				_, over := w.enumPaths(off.Closure, pathOpts{InlineDepth: 0}, func(p *Path) {
					if p.Exit != "return" {
						return
					}
					c := 0
					for _, ev := range p.Events {
						if o := w.Comm().byIn[ev.In]; o != nil && o.Kind == "send" && o.Class.has(cls) {
							c++
						}
					}
					if c != 1 {
						bad = fmt.Sprintf("the closure replies %d times on a path (requester blocks forever / closure blocks the actor)", c)
					}
				})
				if over {
					r.Undecided(pfx+".L-REPLY", construct, w.instrPos(mc), "path cap")
					continue
				}
				// requester: exactly one receive on the offer arm, none elsewhere
				w.enumPaths(fn, off.opts(w), func(p *Path) {
					k := p.armTaken(off.Sel)
					if k < 0 {
						return
					}
					c := 0
					for _, ev := range p.Events {
						if o := w.Comm().byIn[ev.In]; o != nil && o.Kind == "recv" && o.Class.has(cls) {
							c++
						}
					}
					if k == off.State && c != 1 {
						bad = fmt.Sprintf("after a successful offer the requester receives %d replies", c)
					}
					if k != off.State && c != 0 {
						bad = "the requester waits for a reply on an arm where the request was not accepted"
					}
				})
				r.Check(bad == "", pfx+".L-REPLY", construct, w.instrPos(mc), "one reply per accepted request, received once on the accepting arm", bad)
			}
		}
	}
	r.Floor(pfx+".L-REPLY", 9, "ProxyReader ProxyWriter ID Current Aborted Completed wSyncTable Add Write")
}

func makeChanOf(w *World, binding ssa.Value) *ssa.MakeChan {
	switch x := binding.(type) {
	case *ssa.MakeChan:
		return x
	case *ssa.Alloc:
		st := w.cellStores(x)
		if len(st) == 1 {
			if mc, ok := st[0].(*ssa.MakeChan); ok {
				return mc
			}
		}
	}
	return nil
}

// checkStateReply: the state request carries the reply channel as payload: the handler arm
// sends exactly once; the requester receives right after the request.
func checkStateReply(w *World, r *Report, pfx string) {
	loop, arms, _ := w.heapArms()
	cont := w.containerLoop()
	if loop == nil || cont == nil {
		return
	}
	// which command carries a channel payload that the handler sends on
	for _, op := range w.Comm().byFn[loop] {
		if op.Kind != "send" || op.Class.has("heapManager") {
			continue
		}
		// a bare send inside the heap loop proper
		var cmd int64 = -1
		for k, ab := range arms {
			if armContains(loop, arms, k, ab, op.Instr.Block()) {
				cmd = k
			}
		}
		if cmd < 0 {
			r.Undecided(pfx+".L-STATE", "bare send in heap loop", w.instrPos(op.Instr), "not inside a command arm")
			continue
		}
		// exactly one send on every path of the arm
		bad := ""
		loops := naturalLoops(loop)
		var outer *loopInfo
		for _, l := range loops {
			if l.Blocks[arms[cmd]] && (outer == nil || len(l.Blocks) > len(outer.Blocks)) {
				outer = l
			}
		}
		w.enumPaths(loop, pathOpts{Start: arms[cmd], StopAt: func(b *ssa.BasicBlock) bool { return outer != nil && b == outer.Header }}, func(p *Path) {
			c := 0
			for _, ev := range p.Events {
				if ev.In == op.Instr {
					c++
				}
			}
			if c != 1 {
				bad = fmt.Sprintf("the handler replies %d times on a path", c)
			}
		})
		// requester side: the function that sends this command is called in the container loop and followed by a receive
		var reqFn *ssa.Function
		for fn, c := range w.heapSenders() {
			if c == cmd {
				reqFn = fn
			}
		}
		if reqFn == nil {
			bad = orStr(bad, "no request constructor for the command")
		} else {
			nCalls := 0
			for _, site := range w.callers[reqFn] {
				if site.Parent().Synthetic != "" {
					continue
				}
				nCalls++
				call, ok := site.(*ssa.Call)
				if !ok {
					bad = "state request issued by go/defer"
					continue
				}
				// the reply channel argument
				arg := call.Call.Args[len(call.Call.Args)-1]
				// next communication event on every path after the call: a receive on that channel
				fn := site.Parent()
				started := false
				var walk func(pred, b *ssa.BasicBlock, idx int, seen map[*ssa.BasicBlock]bool) bool
				walk = func(pred, b *ssa.BasicBlock, idx int, seen map[*ssa.BasicBlock]bool) bool {
					for i := idx; i < len(b.Instrs); i++ {
						in := b.Instrs[i]
						if u, ok := in.(*ssa.UnOp); ok && u.Op == token.ARROW {
							return stripConv(u.X) == stripConv(arg)
						}
						if o := w.Comm().byIn[in]; o != nil && o.Kind != "go" && in != ssa.Instruction(call) {
							return false
						}
						if c, ok := in.(*ssa.Call); ok && in != ssa.Instruction(call) {
							for _, cal := range w.Callees(c) {
								if w.modSet[cal] && w.fnHasBlockingOp(cal) {
									return false
								}
							}
						}
						if _, ok := in.(*ssa.Return); ok {
							return false
						}
					}
					if seen[b] && started {
						return true
					}
					seen[b] = true
					started = true
					succs := b.Succs
					if ifi, ok := b.Instrs[len(b.Instrs)-1].(*ssa.If); ok && pred != nil {
						if firstIterFlagFalseFrom(ifi, pred) {
							succs = b.Succs[1:]
						}
					}
					for _, s := range succs {
						if !walk(b, s, 0, seen) {
							return false
						}
					}
					return true
				}
				_ = fn
				if !walk(nil, call.Block(), instrIndex(call)+1, map[*ssa.BasicBlock]bool{}) {
					bad = orStr(bad, "after the state request some path does not receive the reply next (the heap loop would block on its reply send)")
				}
			}
			if nCalls == 0 {
				bad = orStr(bad, "state request never issued")
			}
		}
		r.Check(bad == "", pfx+".L-STATE", "state request/reply", w.instrPos(op.Instr), "handler replies once; requester receives the reply next", bad)
	}
	r.Floor(pfx+".L-STATE", 1, "state/update pair")
}

func (w *World) fnHasBlockingOp(fn *ssa.Function) bool {
	for f := range w.reachNoGo([]*ssa.Function{fn}) {
		for _, op := range w.Comm().byFn[f] {
			switch op.Kind {
			case "send", "recv", "wg.Wait":
				return true
			case "select":
				if op.Blocking {
					return true
				}
			}
		}
	}
	return false
}

// checkProducerClose: the heap loop's iterate arm closes the unordered iterator on every path
// and the ordered one on every path where it is not nil; sends are escapable (classified by
// L-SENDESC); consumers only range over iterators that will be closed.
func checkProducerClose(w *World, r *Report, pfx string) {
	loop, arms, _ := w.heapArms()
	if loop == nil {
		r.Unresolved("anchor", "heap loop", "not found")
		return
	}
	// the arm that (through its helpers) closes the unordered iterator
	var iterCmd int64 = -1
	unit := w.unit(loop)
	armFns := func(k int64) map[*ssa.Function]bool {
		out := map[*ssa.Function]bool{}
		for _, b := range loop.Blocks {
			if !armContains(loop, arms, k, arms[k], b) {
				continue
			}
			for _, in := range b.Instrs {
				if c, ok := in.(*ssa.Call); ok {
					if sc := c.Call.StaticCallee(); sc != nil && unit[sc] {
						for f := range w.unit(sc) {
							out[f] = true
						}
					}
				}
			}
		}
		return out
	}
	for k, ab := range arms {
		fns := armFns(k)
		for _, op := range w.Comm().Ops {
			if op.Kind != "close" || !op.Class.has("iterData.iter") {
				continue
			}
			if (op.Fn == loop && armContains(loop, arms, k, ab, op.Instr.Block())) || fns[op.Fn] {
				iterCmd = k
			}
		}
	}
	if iterCmd < 0 {
		r.Violated(pfx+".L-PRODCLOSE", "heap loop iterate arm", w.pos(loop.Pos()), "no arm of the heap loop closes the iterator channel: consumers ranging over it never terminate")
		return
	}
	loops := naturalLoops(loop)
	var outer *loopInfo
	for _, l := range loops {
		if l.Blocks[arms[iterCmd]] && (outer == nil || len(l.Blocks) > len(outer.Blocks)) {
			outer = l
		}
	}
	bad := ""
	var wit []string
	nP, over := w.enumPaths(loop, pathOpts{Start: arms[iterCmd], InlineDepth: 3, Inline: w.helperInline(loop), StopAt: func(b *ssa.BasicBlock) bool { return outer != nil && b == outer.Header }}, func(p *Path) {
		if bad != "" || p.Exit == "panic" {
			return
		}
		cIter, cPop := 0, 0
		dropped := false
		for _, ev := range p.Events {
			o := w.Comm().byIn[ev.In]
			if o == nil {
				continue
			}
			if o.Kind == "close" {
				if o.Class.has("iterData.iter") {
					cIter++
				}
				if o.Class.has("iterData.iterPop") {
					cPop++
				}
			}
			if o.Kind == "select" {
				k := p.armTakenIn(ev.In.(*ssa.Select), ev.F)
				if k >= 0 && k < len(o.States) && o.States[k].Dir == types.RecvOnly && o.States[k].Class.has("iterData.drop") {
					dropped = true
				}
			}
		}
		if cIter != 1 {
			bad = fmt.Sprintf("the unordered iterator is closed %d times on a path of the iterate arm", cIter)
			wit = p.describe()
			return
		}
		if cPop > 1 {
			bad = "the ordered iterator is closed twice on a path"
			wit = p.describe()
			return
		}
		if cPop == 0 && !dropped {
			// allowed only when the path knows iterPop == nil
			if !p.hasCmp(-1, token.EQL, loadOf("mpb.iterData", "iterPop"), isNilVal) {
				bad = "the ordered iterator is left open on a path on which the consumer did not drop the cycle and that does not carry iterPop == nil: flush would range over it forever"
				wit = p.describe()
			}
		}
	})
	if over {
		r.Undecided(pfx+".L-PRODCLOSE", "heap loop iterate arm", w.pos(loop.Pos()), "path cap")
	} else {
		r.Check(bad == "" && nP > 0, pfx+".L-PRODCLOSE", "heap loop iterate arm", w.instrPos(arms[iterCmd].Instrs[0]),
			fmt.Sprintf("%d paths: iter closed once; iterPop closed once, or the consumer dropped, or known nil", nP), bad, wit...)
	}
	// the nil store to iterPop happens only on the drop arm of a select
	for _, b := range loop.Blocks {
		for _, in := range b.Instrs {
			st, ok := in.(*ssa.Store)
			if !ok {
				continue
			}
			f, ok := fieldOf(st.Addr)
			if !ok || f.Owner != "mpb.iterData" || f.Name != "iterPop" || !isNilConst(st.Val) {
				continue
			}
			okDrop := false
			for _, op := range w.Comm().byFn[loop] {
				if op.Kind != "select" {
					continue
				}
				sel := op.Instr.(*ssa.Select)
				for i, s := range op.States {
					if s.Dir == types.RecvOnly && s.Class.has("iterData.drop") {
						if arm := selArm(sel, i); arm != nil && (arm == b || arm.Dominates(b)) {
							okDrop = true
						}
					}
				}
			}
			r.Check(okDrop, pfx+".L-PRODCLOSE", "ordered iterator dropped", w.instrPos(in), "only after the consumer signalled drop", "the ordered iterator is discarded although the consumer did not abandon the cycle: flush would range over a channel that is never closed")
		}
	}
	// consumers: in the render function no path from a close of the drop signal reaches the call of flush;
	// in flush the close of the drop signal is not followed by the range receive
	render, flush := w.renderFn(), w.flushFn()
	if render != nil && flush != nil {
		bad := ""
		for _, op := range w.Comm().byFn[render] {
			if op.Kind == "close" && op.Class.has("pState.iterDrop") {
				for _, site := range w.callers[flush] {
					if site.Parent() == render && instrReaches(op.Instr, site) {
						bad = "flush is reachable after the cycle was abandoned: it ranges over an iterator the heap loop may never close"
					}
				}
			}
		}
		r.Check(bad == "", pfx+".L-ABANDON", "render abandons the cycle", w.pos(render.Pos()), "no consumer after close(drop)", bad)
		bad = ""
		for _, op := range w.Comm().byFn[flush] {
			if op.Kind == "close" && op.Class.has("pState.iterDrop") {
				for _, o2 := range w.Comm().byFn[flush] {
					if o2.Kind == "recv" && o2.CommaOk && instrReaches(op.Instr, o2.Instr) {
						bad = "flush keeps ranging over the iterator after abandoning the cycle"
					}
				}
			}
		}
		r.Check(bad == "", pfx+".L-ABANDON", "flush abandons the cycle", w.pos(flush.Pos()), "close(drop) only after its range loop", bad)
	}
}

// checkIteratorConsumers: (L-EARLYEXIT) a consumer that leaves its range over an iterator before the
// iterator is exhausted closes the request's drop signal first (the heap loop is blocked offering
// the next bar and has no other way out); (H-ITERUSE) the ordered iterator - which removes the bars
// from the heap while it hands them out - is only ever requested for flush, the one consumer that
// pushes them back.
func checkIteratorConsumers(w *World, r *Report, pfx string) {
	dropOrigins := w.fieldOrigins("iterData.drop")
	n := 0
	for _, fn := range w.ModFns {
		for _, op := range w.Comm().byFn[fn] {
			if op.Kind != "recv" || !op.CommaOk {
				continue
			}
			// is it an iterator of the heap protocol?
			isIter := false
			for k := range w.fieldOrigins("iterData.iter") {
				if op.Class.has(k) {
					isIter = true
				}
			}
			for k := range w.fieldOrigins("iterData.iterPop") {
				if op.Class.has(k) {
					isIter = true
				}
			}
			if !isIter && !(op.Class.has("iterData.iter") || op.Class.has("iterData.iterPop")) {
				// a parameter fed from such a field / argument
				continue
			}
			var loop *loopInfo
			for _, l := range naturalLoops(fn) {
				if l.Header == op.Instr.Block() {
					loop = l
				}
			}
			if loop == nil {
				continue
			}
			n++
			var body *ssa.BasicBlock
			for _, sc := range loop.Header.Succs {
				if loop.Blocks[sc] && sc != loop.Header {
					body = sc
				}
			}
			bad := ""
			if body != nil {
				hdr := loop.Header
				w.enumPaths(fn, pathOpts{Start: body, StopAt: func(b *ssa.BasicBlock) bool { return b == hdr }}, func(p *Path) {
					// "stop": back at the header for the next element; "return": the path left the loop
					// from inside its body (break / return) and ran on to the function's end
					if p.Exit != "return" {
						return
					}
					closed := false
					for _, ev := range p.Events {
						if o := w.Comm().byIn[ev.In]; o != nil && o.Kind == "close" {
							for k := range dropOrigins {
								if o.Class.has(k) {
									closed = true
								}
							}
							if o.Class.has("iterData.drop") || o.Class.has("pState.iterDrop") {
								closed = true
							}
						}
					}
					if !closed {
						bad = "the consumer leaves its loop over the iterator without closing the drop signal: the heap loop stays blocked offering the next bar, and with it every later request of the container"
					}
				})
			}
			r.Check(bad == "", pfx+".L-EARLYEXIT", "iterator consumer in "+fnShort(fn), w.instrPos(op.Instr), "an early exit closes the drop signal first", bad)
		}
	}
	r.Floor(pfx+".L-EARLYEXIT", 2, "the consumers of the heap's iterators (render / flush, traverse)")
	// H-ITERUSE
	var iterFn *ssa.Function
	for fn := range w.heapSenders() {
		if fn.Signature.Params().Len() == 3 {
			all := true
			for i := 0; i < 3; i++ {
				if _, ok := fn.Signature.Params().At(i).Type().Underlying().(*types.Chan); !ok {
					all = false
				}
			}
			if all {
				iterFn = fn
			}
		}
	}
	if iterFn == nil {
		r.Undecided(pfx+".H-ITERUSE", "iterator request", "", "request constructor taking (drop, iter, iterPop) not found")
		return
	}
	flush := w.flushFn()
	// L-REQUESTED: a consumer ranges only over an iterator that was handed to the heap loop in an
	// iteration request (an iterator left out of the request is never closed: the range blocks forever)
	{
		var chOrigins func(v ssa.Value, d int) map[*ssa.MakeChan]bool
		chOrigins = func(v ssa.Value, d int) map[*ssa.MakeChan]bool {
			out := map[*ssa.MakeChan]bool{}
			if d > 4 {
				return out
			}
			switch x := w.origin(v).(type) {
			case *ssa.MakeChan:
				out[x] = true
			case *ssa.Phi:
				for _, e := range x.Edges {
					for k := range chOrigins(e, d+1) {
						out[k] = true
					}
				}
			case *ssa.Parameter:
				fn := x.Parent()
				for i, q := range fn.Params {
					if q != x {
						continue
					}
					for _, s2 := range w.callers[fn] {
						if s2.Common().StaticCallee() == fn && i < len(s2.Common().Args) {
							for k := range chOrigins(s2.Common().Args[i], d+1) {
								out[k] = true
							}
						}
					}
				}
			}
			return out
		}
		requested := map[*ssa.MakeChan]bool{}
		for _, site := range w.callers[iterFn] {
			if site.Common().StaticCallee() != iterFn {
				continue
			}
			for _, a := range site.Common().Args {
				for k := range chOrigins(a, 0) {
					requested[k] = true
				}
			}
		}
		nCons := 0
		for _, fn := range w.ModFns {
			if fn.Pkg != w.Mpb {
				continue
			}
			for _, op := range w.Comm().byFn[fn] {
				if op.Kind != "recv" || !op.CommaOk {
					continue
				}
				u, ok := op.Instr.(*ssa.UnOp)
				if !ok {
					continue
				}
				ct, ok := u.X.Type().Underlying().(*types.Chan)
				if !ok || typeName(ct.Elem()) != tBar {
					continue
				}
				nCons++
				bad := ""
				os := chOrigins(u.X, 0)
				if len(os) == 0 {
					bad = "the iterator's origin is not a channel made by the requester"
				}
				for mk := range os {
					if !requested[mk] {
						bad = "the loop ranges over an iterator (made at " + w.instrPos(mk) + ") that is never handed to the heap loop in an iteration request: nobody closes it and the consumer blocks forever"
					}
				}
				r.Check(bad == "", pfx+".L-REQUESTED", "iterator consumed in "+fnShort(fn), w.instrPos(op.Instr), "requested from the heap loop", bad)
			}
		}
		r.Floor(pfx+".L-REQUESTED", 3, "render's spawn loop, flush's collection loop, traverse")
	}
	// R-ORDER: in one render cycle the width-sync request precedes the iteration request (the heap
	// loop serves them in order: distributors must run before the bars it hands out start rendering)
	if render := w.renderFn(); render != nil {
		var syncFn *ssa.Function
		for fn := range w.heapSenders() {
			if fn.Signature.Params().Len() == 1 {
				if c, ok := fn.Signature.Params().At(0).Type().Underlying().(*types.Chan); ok && c.Dir() == types.RecvOnly {
					syncFn = fn
				}
			}
		}
		if syncFn != nil {
			bad := ""
			nP := 0
			w.enumPaths(render, pathOpts{InlineDepth: 2, Inline: w.helperInline(render)}, func(p *Path) {
				iS, iI := -1, -1
				for _, ev := range p.Events {
					if c, ok := ev.In.(*ssa.Call); ok {
						if c.Call.StaticCallee() == syncFn && iS < 0 {
							iS = ev.Idx
						}
						if c.Call.StaticCallee() == iterFn && iI < 0 {
							iI = ev.Idx
						}
					}
				}
				if iI < 0 {
					return
				}
				nP++
				if iS < 0 || iS > iI {
					bad = "the iteration request is sent before (or without) the width-sync request of the cycle: the bars start rendering before their columns' distributors exist and block in their first synchronised decorator while the heap loop waits for flush"
				}
			})
			r.Check(bad == "" && nP > 0, pfx+".R-ORDER", "render cycle requests", w.pos(render.Pos()), "sync request, then iteration request", orStr(bad, "render sends no iteration request"))
		}
	}
	for _, site := range w.callers[iterFn] {
		if site.Parent().Synthetic != "" || site.Common().StaticCallee() != iterFn {
			continue
		}
		args := site.Common().Args
		ord := args[len(args)-1]
		construct := "ordered iterator requested in " + fnShort(site.Parent())
		if isNilConst(ord) {
			r.HoldsTrivial(pfx+".H-ITERUSE", construct, w.instrPos(site), "unordered only")
			continue
		}
		// the channel handed as ordered iterator (by identity of its make) is received from only in flush
		mk, _ := w.origin(ord).(*ssa.MakeChan)
		if mk == nil {
			r.Undecided(pfx+".H-ITERUSE", construct, w.instrPos(site), "the ordered iterator is not a channel made by the requester")
			continue
		}
		var origins func(v ssa.Value, d int) map[*ssa.MakeChan]bool
		origins = func(v ssa.Value, d int) map[*ssa.MakeChan]bool {
			out := map[*ssa.MakeChan]bool{}
			if d > 4 {
				return out
			}
			switch x := w.origin(v).(type) {
			case *ssa.MakeChan:
				out[x] = true
			case *ssa.Phi:
				for _, e := range x.Edges {
					for k := range origins(e, d+1) {
						out[k] = true
					}
				}
			case *ssa.Parameter:
				fn := x.Parent()
				for i, q := range fn.Params {
					if q != x {
						continue
					}
					for _, s2 := range w.callers[fn] {
						if s2.Common().StaticCallee() == fn && i < len(s2.Common().Args) {
							for k := range origins(s2.Common().Args[i], d+1) {
								out[k] = true
							}
						}
					}
				}
			}
			return out
		}
		bad := ""
		nRecv := 0
		for _, op := range w.Comm().Ops {
			if op.Kind != "recv" {
				continue
			}
			u, ok := op.Instr.(*ssa.UnOp)
			if !ok || !origins(u.X, 0)[mk] {
				continue
			}
			nRecv++
			if flush == nil || !w.unit(flush)[op.Fn] {
				bad = "the ordered iterator (which takes the bars out of the heap) is consumed in " + fnShort(op.Fn) + ", which does not push them back: the bars vanish from the container"
			}
		}
		if nRecv == 0 {
			bad = "the ordered iterator is requested but never consumed"
		}
		r.Check(bad == "", pfx+".H-ITERUSE", construct, w.instrPos(site), "consumed by flush only", bad)
	}
}

// checkEndOnExit: the container loop sends the end request exactly once on every path to its return.
func checkEndOnExit(w *World, r *Report, pfx string) {
	cont := w.containerLoop()
	if cont == nil {
		return
	}
	_, _, endCmd := w.heapArms()
	var endFn *ssa.Function
	for fn, cmd := range w.heapSenders() {
		if cmd == endCmd && endCmd >= 0 {
			endFn = fn
		}
	}
	if endFn == nil {
		r.Undecided(pfx+".L-END", "end request", "", "cannot identify the end request")
		return
	}
	// every Return of the container loop is dominated by the end request (sent directly or by a
	// private helper that sends it exactly once on all of its paths), and no end request can reach another
	bad := endOnce(w, cont, endFn, w.unit(cont), 0)
	if bad == "" && !endMay(cont, endFn, w.unit(cont), 0) {
		bad = "the container loop never sends the end request"
	}
	r.Check(bad == "", pfx+".L-END", "container loop exit", w.pos(cont.Pos()), "end request sent exactly once before every return", bad)
}

// checkOneFrame: frame channel buffered with constant capacity >= 1; the render closure sends
// exactly one frame on every path; flush receives exactly one frame per bar it takes from the
// ordered iterator; render spawns one renderer per bar of the unordered iterator.
func checkOneFrame(w *World, r *Report, pfx string) {
	rule := pfx + ".L-ONEFRAME"
	// capacity
	nStore := 0
	for _, fn := range w.ModFns {
		for _, b := range fn.Blocks {
			for _, in := range b.Instrs {
				st, ok := in.(*ssa.Store)
				if !ok {
					continue
				}
				if f, ok := fieldOf(st.Addr); ok && f.Owner == tBar && f.Name == "frameCh" {
					nStore++
					mc, ok := st.Val.(*ssa.MakeChan)
					okCap := false
					if ok {
						if k, ok := constInt(mc.Size); ok && k >= 1 {
							okCap = true
						}
					}
					r.Check(okCap, rule, "frame channel capacity", w.instrPos(in), "buffered (>=1): the renderer never blocks on its single frame", "the frame channel is unbuffered: an exited bar's render, run by a goroutine nobody waits for, or an abandoned cycle blocks forever")
				}
			}
		}
	}
	if nStore == 0 {
		r.Unresolved("anchor", "Bar.frameCh store", "not found")
	}
	rc := w.renderClosure()
	if rc == nil {
		r.Unresolved("anchor", "render closure", "no unique closure sending on Bar.frameCh")
	} else {
		bad := ""
		n, over := w.enumPaths(rc, pathOpts{InlineDepth: 0}, func(p *Path) {
			if p.Exit != "return" {
				return
			}
			c := 0
			for _, ev := range p.Events {
				if o := w.Comm().byIn[ev.In]; o != nil && o.Kind == "send" && o.Class.has("Bar.frameCh") {
					c++
					continue
				}
				// the frame is complete when it is handed over: flush reads its error, rows and shutdown
				// counter from another goroutine as soon as it has received it
				if st, ok := ev.In.(*ssa.Store); ok && c > 0 {
					if f, ok := fieldOf(st.Addr); ok && f.Owner == "mpb.renderFrame" {
						bad = "the frame's field " + f.Name + " is written (" + w.instrPos(st) + ") after the frame was sent: flush may read the frame without it (a lost error / shutdown step) and races with the write"
					}
				}
			}
			if c != 1 {
				bad = fmt.Sprintf("the render closure sends %d frames on a path (flush blocks forever / the second send blocks the bar)", c)
			}
		})
		if over {
			r.Undecided(rule, "render closure", w.pos(rc.Pos()), "path cap")
		} else {
			r.Check(bad == "" && n > 0, rule, "render closure", w.pos(rc.Pos()), fmt.Sprintf("%d paths, one frame each", n), bad)
		}
	}
	// the renderer of an exited bar: when the bar's goroutine is gone (ready channel closed) the
	// render request is served by calling the same closure on the published state - still one frame
	if rc != nil {
		for _, fn := range w.ModFns {
			for _, off := range w.offersIn(fn) {
				if off.Closure != rc || off.Fn != fn {
					continue
				}
				bad := ""
				nOther := 0
				w.enumPaths(fn, off.opts(w), func(p *Path) {
					k := p.armTaken(off.Sel)
					if k < 0 || k == off.State || p.Exit != "return" {
						return
					}
					nOther++
					calls := 0
					for _, ev := range p.Events {
						c, ok := ev.In.(*ssa.Call)
						if !ok {
							continue
						}
						direct := c.Call.StaticCallee() != nil && boundTarget(c.Call.StaticCallee()) == rc
						if !direct && c.Call.StaticCallee() == nil && !c.Call.IsInvoke() {
							if mc, ok := p.stripR(p.val(ev, c.Call.Value)).V.(*ssa.MakeClosure); ok && boundTarget(mc.Fn.(*ssa.Function)) == rc {
								direct = true
							}
						}
						if direct {
							calls++
							if len(c.Call.Args) == 0 || !isLoad(Val{V: stripConv(p.val(ev, c.Call.Args[len(c.Call.Args)-1]).V)}, tBar, "bs") {
								bad = "the exited bar is rendered from something other than its published state"
							}
						}
					}
					if calls != 1 {
						bad = fmt.Sprintf("on the arm taken after the bar's goroutine has exited the render closure is run %d times (must be once): flush waits forever for the frame of a finished bar that is still displayed", calls)
					}
				})
				r.Check(bad == "" && nOther > 0, rule, "render of an exited bar", w.pos(fn.Pos()), "closure run once on the published state", orStr(bad, "no arm for the exited bar"))
			}
		}
	}
	// flush: loop body receives exactly one frame
	fl := w.flushFn()
	if fl != nil {
		var rangeRecv *commOp
		var il iterLoopInfo
		for _, x := range w.iterLoops(fl) {
			if x.Loop != nil && x.Body != nil {
				rangeRecv, il = x.Op, x
			}
		}
		if rangeRecv == nil {
			r.Undecided(rule, "flush collection loop", w.pos(fl.Pos()), "no range over the ordered iterator")
		} else {
			hdr := rangeRecv.Instr.Block()
			body := il.Body
			bad := ""
			n, over := w.enumPaths(il.Fn, pathOpts{InlineDepth: 1, Start: body, StopAt: func(b *ssa.BasicBlock) bool { return b == hdr }}, func(p *Path) {
				if p.Exit != "stop" {
					// leaving the function from inside the collection loop
					bad = "flush can return from inside its collection loop: the remaining bars' frames are never received"
					return
				}
				c := 0
				for _, ev := range p.Events {
					if o := w.Comm().byIn[ev.In]; o != nil && o.Kind == "recv" && o.Class.has("Bar.frameCh") {
						c++
					}
				}
				if c != 1 {
					bad = fmt.Sprintf("flush receives %d frames for one bar on a path", c)
				}
			})
			if over {
				r.Undecided(rule, "flush collection loop", w.instrPos(rangeRecv.Instr), "path cap")
			} else {
				r.Check(bad == "" && n > 0, rule, "flush collection loop", w.instrPos(rangeRecv.Instr), fmt.Sprintf("%d body paths, one frame received each, none leaves the loop early", n), bad)
			}
		}
	}
	// render: one go per received bar
	rf := w.renderFn()
	if rf != nil {
		var rangeRecv *commOp
		var il iterLoopInfo
		for _, x := range w.iterLoops(rf) {
			if x.Loop != nil && x.Body != nil {
				rangeRecv, il = x.Op, x
			}
		}
		if rangeRecv != nil {
			hdr := rangeRecv.Instr.Block()
			body := il.Body
			bad := ""
			n, _ := w.enumPaths(il.Fn, pathOpts{Start: body, StopAt: func(b *ssa.BasicBlock) bool { return b == hdr }}, func(p *Path) {
				if p.Exit != "stop" {
					bad = "render leaves its spawn loop early"
					return
				}
				c := 0
				for _, ev := range p.Events {
					if g, ok := ev.In.(*ssa.Go); ok {
						for _, t := range w.goTargets(g) {
							if len(w.offersIn(t)) > 0 {
								c++
							}
						}
					}
				}
				if c != 1 {
					bad = fmt.Sprintf("render spawns %d renderers for one bar", c)
				}
			})
			r.Check(bad == "" && n > 0, rule, "render spawn loop", w.instrPos(rangeRecv.Instr), "one renderer per bar of the cycle", bad)
		} else {
			r.Undecided(rule, "render spawn loop", w.pos(rf.Pos()), "no range over the unordered iterator")
		}
	}
}

// checkNoRequestWhileIterating (R11): inside a loop that consumes an iterator requested from
// the heap loop, the container role must not send a heap request (the heap loop is not
// receiving while it hands out bars).
func checkNoRequestWhileIterating(w *World, r *Report, pfx string) {
	rule := pfx + ".L-NOREQ"
	senders := w.heapSenders()
	reaches := func(c ssa.CallInstruction) bool {
		for _, callee := range w.Callees(c) {
			for f := range w.reachNoGo([]*ssa.Function{callee}) {
				if _, ok := senders[f]; ok {
					return true
				}
			}
		}
		return false
	}
	for _, root := range []*ssa.Function{w.renderFn(), w.flushFn()} {
		if root == nil {
			continue
		}
		for _, il := range w.iterLoops(root) {
			fn, op, loop := il.Fn, il.Op, il.Loop
			if loop == nil {
				r.Undecided(rule, "iterator loop in "+fnShort(root), w.instrPos(op.Instr), "range receive is not a loop header")
				continue
			}
			_ = fn
			bad := ""
			for b := range loop.Blocks {
				for _, in := range b.Instrs {
					if c, ok := in.(ssa.CallInstruction); ok {
						if _, isGo := in.(*ssa.Go); isGo {
							continue
						}
						if reaches(c) {
							bad = "a heap request (" + w.instrPos(in) + ") is sent while the heap loop is iterating for this loop: with a full (or zero-length) queue both block forever"
						}
					}
				}
			}
			r.Check(bad == "", rule, "iterator loop in "+fnShort(root), w.instrPos(op.Instr), "no heap request inside the loop", bad)
		}
	}
	r.Floor(rule, 2, "render's spawn loop and flush's collection loop")
}

// checkWaitGroups: WG-PAIR.
func checkWaitGroups(w *World, r *Report, pfx string) {
	rule := pfx + ".L-WG"
	ct := w.Comm()
	byClass := map[string][]*commOp{}
	for _, op := range ct.Ops {
		if strings.HasPrefix(op.Kind, "wg.") {
			// an operation in a helper that takes the group by pointer belongs to every caller's group
			for k := range op.Class {
				byClass[k] = append(byClass[k], op)
			}
		}
	}
	var keys []string
	for k := range byClass {
		keys = append(keys, k)
	}
	sort.Strings(keys)
	for _, k := range keys {
		ops := byClass[k]
		var adds, dones, waits []*commOp
		for _, o := range ops {
			switch o.Kind {
			case "wg.Add":
				adds = append(adds, o)
			case "wg.Done":
				dones = append(dones, o)
			case "wg.Wait":
				waits = append(waits, o)
			}
		}
		if k == "wg:Progress.uwg" {
			continue // user-owned
		}
		construct := "wait group " + k
		bad := ""
		// each Add is followed (in the same function, on every path) by a go whose target performs exactly one Done on every path,
		// or by a go whose target's single exit performs it; or (bar listeners) the Add is inside a function whose caller Done follows.
		for _, a := range adds {
			if !lcAddMatched(w, a, dones) {
				bad = "Add at " + w.instrPos(a.Instr) + " is not matched by exactly one Done in the goroutine it accounts for"
			}
		}
		for _, d := range dones {
			if !lcDoneOnce(w, d) {
				bad = "Done at " + w.instrPos(d.Instr) + " is not executed exactly once on every terminating path of its goroutine, or is not the last thing it does"
			}
		}
		if len(adds) == 0 || len(dones) == 0 || len(waits) == 0 {
			bad = "wait group lacks Add, Done or Wait"
		}
		r.Check(bad == "", rule, construct, w.instrPos(ops[0].Instr), fmt.Sprintf("%d Add, %d Done, %d Wait paired", len(adds), len(dones), len(waits)), bad)
	}
	r.Floor(rule, 3, "bwg, pwg, and the local group(s) the estimator goroutines are joined with")
}

// lcAddMatched: after the Add, on every path of its function, a go follows whose target
// (transitively, without crossing go) contains a Done of the same class; Add(len(x)) must be
// followed by a range over the same x spawning one goroutine per element.
func lcAddMatched(w *World, a *commOp, dones []*commOp) bool {
	fn := a.Fn
	call := a.Instr.(*ssa.Call)
	arg := call.Call.Args[1]
	doneFns := map[*ssa.Function]bool{}
	for _, d := range dones {
		doneFns[d.Fn] = true
	}
	targetHasDone := func(g *ssa.Go) bool {
		for _, t := range w.goTargets(g) {
			for f := range w.reachNoGo([]*ssa.Function{t}) {
				if doneFns[f] {
					return true
				}
			}
		}
		return false
	}
	if k, ok := constInt(arg); ok && k == 1 {
		// every path from the Add to a return passes a matching go
		ok := true
		seen := map[*ssa.BasicBlock]bool{}
		var walk func(b *ssa.BasicBlock, idx int) bool
		walk = func(b *ssa.BasicBlock, idx int) bool {
			for i := idx; i < len(b.Instrs); i++ {
				if g, isGo := b.Instrs[i].(*ssa.Go); isGo && targetHasDone(g) {
					return true
				}
				if _, isRet := b.Instrs[i].(*ssa.Return); isRet {
					return false
				}
			}
			if seen[b] {
				return true
			}
			seen[b] = true
			for _, s := range b.Succs {
				if !walk(s, 0) {
					return false
				}
			}
			return true
		}
		ok = walk(call.Block(), instrIndex(call)+1)
		return ok
	}
	// Add(len(x)): a loop ranging over the same x with one matching go per iteration
	if lc, ok := stripConv(arg).(*ssa.Call); ok && isBuiltinCall(&lc.Call, "len") {
		x := lc.Call.Args[0]
		for _, l := range naturalLoops(fn) {
			// range loop over x: header compares index with len(x')
			rangesX := false
			for b := range l.Blocks {
				for _, in := range b.Instrs {
					if c2, ok := in.(*ssa.Call); ok && isBuiltinCall(&c2.Call, "len") && w.sameSource(c2.Call.Args[0], x) {
						rangesX = true
					}
				}
			}
			// some builds hoist len(x) before the loop
			if !rangesX {
				for _, in := range l.Header.Instrs {
					if bin, ok := in.(*ssa.BinOp); ok && bin.Op == token.LSS {
						if c2, ok := stripConv(bin.Y).(*ssa.Call); ok && isBuiltinCall(&c2.Call, "len") && w.sameSource(c2.Call.Args[0], x) {
							rangesX = true
						}
					}
				}
			}
			if !rangesX {
				continue
			}
			// every path through the body passes exactly one matching go
			body := (*ssa.BasicBlock)(nil)
			for _, s := range l.Header.Succs {
				if l.Blocks[s] {
					body = s
				}
			}
			if body == nil {
				continue
			}
			good := true
			n, _ := w.enumPaths(fn, pathOpts{Start: body, StopAt: func(b *ssa.BasicBlock) bool { return b == l.Header }}, func(p *Path) {
				c := 0
				for _, ev := range p.Events {
					if g, ok := ev.In.(*ssa.Go); ok && targetHasDone(g) {
						c++
					}
				}
				if c != 1 || p.Exit != "stop" {
					good = false
				}
			})
			// ... and the Add comes first: a goroutine that is started before its Add can reach Done with the
			// counter still at zero (negative counter panic, or the Wait returns before the goroutines ran)
			if good && n > 0 && (call.Block() == l.Header || call.Block().Dominates(l.Header)) && !l.Blocks[call.Block()] {
				return true
			}
		}
	}
	return false
}

// lcDoneOnce: the Done executes exactly once on every returning path of its function (deferred
// Done: registered on every path before any return), and the function is a go target or is
// reached only from one (the bar loop's exit arm is checked separately by L-BAREXIT).
func lcDoneOnce(w *World, d *commOp) bool {
	fn := d.Fn
	if d.Deferred {
		// the defer must dominate every return
		for _, b := range fn.Blocks {
			if ret, ok := b.Instrs[len(b.Instrs)-1].(*ssa.Return); ok && b != fn.Recover {
				if !instrDominates(d.Instr, ret) {
					return false
				}
			}
		}
		return !inLoop(d.Instr)
	}
	good := true
	n, over := w.enumPaths(fn, pathOpts{}, func(p *Path) {
		if p.Exit != "return" {
			return
		}
		c := 0
		for _, ev := range p.Events {
			if ev.In == d.Instr {
				c++
				continue
			}
			if c == 0 {
				continue
			}
			// a plain (not deferred) Done is the last thing its goroutine does: whoever waits takes
			// the goroutine's work for finished (the final frame written, the state published)
			switch x := ev.In.(type) {
			case *ssa.Send, *ssa.Select, *ssa.Go, *ssa.MapUpdate:
				good = false
			case *ssa.Store:
				if _, local := x.Addr.(*ssa.Alloc); !local {
					good = false
				}
			case *ssa.Call:
				if _, isBuiltin := x.Call.Value.(*ssa.Builtin); !isBuiltin || isBuiltinCall(&x.Call, "close") {
					good = false
				}
			case *ssa.UnOp:
				if x.Op == token.ARROW {
					good = false
				}
			}
		}
		if c != 1 {
			good = false
		}
	})
	return good && n > 0 && !over
}

// checkBarExit: the bar loop has exactly one way out (the ctx arm), which closes the ready
// channel and releases the wait group exactly once, after accounting every shutdown listener.
func checkBarExit(w *World, r *Report, pfx string) {
	loop, sel, arm := w.barExitArm(r)
	if loop == nil || sel == nil || arm == nil {
		return
	}
	rule := pfx + ".L-BAREXIT"
	bad := ""
	n, over := w.enumPaths(loop, pathOpts{InlineDepth: 3, Inline: w.helperInline(loop), Start: arm}, func(p *Path) {
		if bad != "" {
			return
		}
		if p.Exit != "return" {
			bad = "the exit arm does not return"
			return
		}
		cClose, cDone := 0, 0
		iDone := -1
		lastAdd := -1
		for _, ev := range p.Events {
			o := w.Comm().byIn[ev.In]
			if o == nil {
				continue
			}
			if o.Kind == "close" && o.Class.has("Bar.bsOk") {
				cClose++
			}
			if o.Kind == "wg.Done" && o.Class.has("wg:Progress.bwg") {
				cDone++
				iDone = ev.Idx
			}
			if o.Kind == "wg.Add" && o.Class.has("wg:Progress.bwg") {
				lastAdd = ev.Idx
			}
		}
		if cClose != 1 || cDone != 1 {
			bad = fmt.Sprintf("exit path closes the ready channel %d times and releases the wait group %d times", cClose, cDone)
			return
		}
		if lastAdd > iDone {
			bad = "a shutdown listener is accounted in the wait group after the bar released it (Wait may return early, or WaitGroup misuse panics)"
		}
	})
	if over {
		r.Undecided(rule, "bar loop exit", w.pos(loop.Pos()), "path cap")
		return
	}
	// no other return in the bar loop
	nRet := 0
	for _, b := range loop.Blocks {
		if _, ok := b.Instrs[len(b.Instrs)-1].(*ssa.Return); ok && b != loop.Recover {
			nRet++
			if !arm.Dominates(b) && arm != b {
				bad = orStr(bad, "the bar loop can return outside its ctx arm without closing the ready channel / releasing the wait group")
			}
		}
	}
	r.Check(bad == "" && n > 0, rule, "bar loop exit", w.pos(loop.Pos()), fmt.Sprintf("%d exit paths: close(bsOk) once, bwg.Done once, listeners accounted before", n), bad)
}

// firstIterFlagFalseFrom: the If tests `i == 0` where i is a phi in the If's block with edges
// {0 from outside, i + k (k > 0) from the latch}; entering from the latch the test is false
// (i counts iterations from 0 upwards).
func firstIterFlagFalseFrom(ifi *ssa.If, pred *ssa.BasicBlock) bool {
	bin, ok := ifi.Cond.(*ssa.BinOp)
	if !ok || bin.Op != token.EQL {
		return false
	}
	phi, ok := bin.X.(*ssa.Phi)
	if !ok || phi.Block() != ifi.Block() || len(phi.Edges) != 2 {
		return false
	}
	if k, ok := constInt(bin.Y); !ok || k != 0 {
		return false
	}
	zero, inc := -1, -1
	for i, e := range phi.Edges {
		if k, ok := constInt(e); ok && k == 0 {
			zero = i
		}
		if add, ok := e.(*ssa.BinOp); ok && add.Op == token.ADD && add.X == ssa.Value(phi) {
			if k, ok := constInt(add.Y); ok && k > 0 {
				inc = i
			}
		}
	}
	if zero < 0 || inc < 0 {
		return false
	}
	return ifi.Block().Preds[inc] == pred
}

// sameSource: two values denote the same variable: same origin, or loads of the same field
// of bases with the same origin.
func (w *World) sameSource(a, b ssa.Value) bool {
	oa, ob := w.origin(a), w.origin(b)
	if oa == ob {
		return true
	}
	fa, ok1 := loadedField(oa)
	fb, ok2 := loadedField(ob)
	if ok1 && ok2 && fa.Owner == fb.Owner && fa.Name == fb.Name {
		return w.origin(fa.Base) == w.origin(fb.Base) || w.sameSource(fa.Base, fb.Base)
	}
	return false
}

// iterLoop: a loop consuming a channel with the comma-ok receive at its header (range form
// or an explicit `v, ok := <-ch; if !ok { leave }`), searched in root and its private helpers.
type iterLoopInfo struct {
	Fn   *ssa.Function
	Op   *commOp
	Loop *loopInfo
	Body *ssa.BasicBlock // the successor of the header taken when a value was received
}

func (w *World) iterLoops(root *ssa.Function) []iterLoopInfo {
	var fns []*ssa.Function
	for f := range w.unit(root) {
		fns = append(fns, f)
	}
	sort.Slice(fns, func(i, j int) bool { return fns[i].Pos() < fns[j].Pos() })
	var out []iterLoopInfo
	for _, fn := range fns {
		for _, op := range w.Comm().byFn[fn] {
			if op.Kind != "recv" || !op.CommaOk {
				continue
			}
			il := iterLoopInfo{Fn: fn, Op: op}
			for _, l := range naturalLoops(fn) {
				if l.Header == op.Instr.Block() {
					il.Loop = l
				}
			}
			if il.Loop != nil {
				for _, s := range il.Loop.Header.Succs {
					if il.Loop.Blocks[s] && s != il.Loop.Header {
						il.Body = s
					}
				}
			}
			out = append(out, il)
		}
	}
	return out
}

// endMay: fn (or a private helper it calls, depth <= 3) contains a call of target.
func endMay(fn, target *ssa.Function, unit map[*ssa.Function]bool, depth int) bool {
	if depth > 3 {
		return false
	}
	for _, b := range fn.Blocks {
		for _, in := range b.Instrs {
			c, ok := in.(ssa.CallInstruction)
			if !ok {
				continue
			}
			if _, isGo := in.(*ssa.Go); isGo {
				continue
			}
			sc := c.Common().StaticCallee()
			if sc == target || (sc != nil && sc != fn && unit[sc] && endMay(sc, target, unit, depth+1)) {
				return true
			}
		}
	}
	return false
}

// endOnce: "" when every return of fn is dominated by exactly one sending of target (a direct call,
// or a call of a helper for which the same holds), and no sending can reach another one.
func endOnce(w *World, fn, target *ssa.Function, unit map[*ssa.Function]bool, depth int) string {
	var must, may []ssa.Instruction
	for _, b := range fn.Blocks {
		for _, in := range b.Instrs {
			c, ok := in.(*ssa.Call)
			if !ok {
				continue
			}
			sc := c.Call.StaticCallee()
			switch {
			case sc == target:
				must = append(must, in)
				may = append(may, in)
			case sc != nil && sc != fn && unit[sc] && endMay(sc, target, unit, depth+1):
				may = append(may, in)
				if depth < 3 && endOnce(w, sc, target, unit, depth+1) == "" {
					must = append(must, in)
				}
			}
		}
	}
	for _, b := range fn.Blocks {
		ret, ok := b.Instrs[len(b.Instrs)-1].(*ssa.Return)
		if !ok || fn.Recover == b {
			continue
		}
		dom := false
		for _, e := range must {
			if instrDominates(e, ret) {
				dom = true
			}
		}
		if !dom {
			if len(may) == 0 {
				return "the container loop never sends the end request"
			}
			return fnShort(fn) + " can return (" + w.instrPos(ret) + ") without sending the end request: the heap loop and its channel are never shut down"
		}
	}
	for _, e := range may {
		for _, e2 := range may {
			if instrReaches(e, e2) {
				return "the end request can be sent twice"
			}
		}
	}
	return ""
}
