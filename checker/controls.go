package main

import (
	"encoding/json"
	"fmt"
	"os"
	"os/exec"
	"path/filepath"
	"sort"
	"strings"
	"sync"
)

// Controls (thorough tier; not part of the verdict): every confirmed seeded change under
// <verif>/seeded whose meta.json lists this property in caught_by is applied to a scratch
// copy of the analysed tree (outside /repo and /verif, removed afterwards) and this
// property's rules are run on it - statically, nothing is executed. A control that no longer
// fires is recorded as controls_failed in the evidence and on stderr; it never turns into a
// VIOLATION of the property, because the tree under test is not at fault.
// Negative controls: the confirmed behaviour-preserving refactorings under <verif>/benign are
// applied the same way and must be silent; one that is reported is recorded as
// negative_controls_failed (a false alarm of the machinery, again not a VIOLATION).
func runControls(r *Report, id, repo, verif string) {
	metas, _ := filepath.Glob(filepath.Join(verif, "seeded", "*", "meta.json"))
	sort.Strings(metas)
	type ctl struct {
		Seed    string   `json:"seed"`
		Applied bool     `json:"applied"`
		Fired   bool     `json:"fired"`
		Rules   []string `json:"rules,omitempty"`
		Note    string   `json:"note,omitempty"`
	}
	var todo []string
	for _, m := range metas {
		b, err := os.ReadFile(m)
		if err != nil {
			continue
		}
		var meta struct {
			CaughtBy []string `json:"caught_by"`
		}
		if json.Unmarshal(b, &meta) != nil {
			continue
		}
		for _, p := range meta.CaughtBy {
			if p == id {
				todo = append(todo, filepath.Dir(m))
			}
		}
	}
	self, err := os.Executable()
	if err != nil {
		return
	}
	results := make([]ctl, len(todo))
	sem := make(chan struct{}, 10)
	var wg sync.WaitGroup
	for i, dir := range todo {
		wg.Add(1)
		go func(i int, dir string) {
			defer wg.Done()
			sem <- struct{}{}
			defer func() { <-sem }()
			c := ctl{Seed: filepath.Base(dir)}
			tmp, err := os.MkdirTemp("", "mpbctl-")
			if err != nil {
				c.Note = err.Error()
				results[i] = c
				return
			}
			defer os.RemoveAll(tmp)
			tree := filepath.Join(tmp, "tree")
			scratch := filepath.Join(tmp, "verif")
			_ = os.MkdirAll(scratch, 0o755)
			if out, err := exec.Command("cp", "-r", repo, tree).CombinedOutput(); err != nil {
				c.Note = "copy: " + string(out)
				results[i] = c
				return
			}
			_ = os.RemoveAll(filepath.Join(tree, ".git"))
			ap := exec.Command("patch", "-p1", "-s", "-i", filepath.Join(dir, "patch.diff"))
			ap.Dir = tree
			if out, err := ap.CombinedOutput(); err != nil {
				c.Note = "patch does not apply to the current tree: " + strings.TrimSpace(string(out))
				results[i] = c
				return
			}
			c.Applied = true
			if kf, err := os.ReadFile(filepath.Join(verif, "known_findings.json")); err == nil {
				_ = os.WriteFile(filepath.Join(scratch, "known_findings.json"), kf, 0o644)
			}
			cmd := exec.Command(self, "-repo", tree, "-verif", scratch, "-tier", "quick", id)
			cmd.Env = os.Environ()
			out, _ := cmd.Output()
			for _, line := range strings.Split(string(out), "\n") {
				if strings.HasPrefix(line, "VIOLATED ") || strings.HasPrefix(line, "UNDECIDED ") {
					f := strings.Fields(line)
					if len(f) > 1 {
						c.Rules = append(c.Rules, f[1])
					}
				}
			}
			c.Fired = cmd.ProcessState != nil && cmd.ProcessState.ExitCode() == 1
			results[i] = c
		}(i, dir)
	}
	wg.Wait()
	// negative controls: confirmed behaviour-preserving refactorings under <verif>/benign must stay silent
	bens, _ := filepath.Glob(filepath.Join(verif, "benign", "*", "patch.diff"))
	sort.Strings(bens)
	neg := make([]ctl, len(bens))
	for i, pf := range bens {
		wg.Add(1)
		go func(i int, pf string) {
			defer wg.Done()
			sem <- struct{}{}
			defer func() { <-sem }()
			c := ctl{Seed: filepath.Base(filepath.Dir(pf))}
			tmp, err := os.MkdirTemp("", "mpbneg-")
			if err != nil {
				c.Note = err.Error()
				neg[i] = c
				return
			}
			defer os.RemoveAll(tmp)
			tree := filepath.Join(tmp, "tree")
			scratch := filepath.Join(tmp, "verif")
			_ = os.MkdirAll(scratch, 0o755)
			if out, err := exec.Command("cp", "-r", repo, tree).CombinedOutput(); err != nil {
				c.Note = "copy: " + string(out)
				neg[i] = c
				return
			}
			_ = os.RemoveAll(filepath.Join(tree, ".git"))
			ap := exec.Command("patch", "-p1", "-s", "-i", pf)
			ap.Dir = tree
			if out, err := ap.CombinedOutput(); err != nil {
				c.Note = "patch does not apply to the current tree: " + strings.TrimSpace(string(out))
				neg[i] = c
				return
			}
			c.Applied = true
			if kf, err := os.ReadFile(filepath.Join(verif, "known_findings.json")); err == nil {
				_ = os.WriteFile(filepath.Join(scratch, "known_findings.json"), kf, 0o644)
			}
			cmd := exec.Command(self, "-repo", tree, "-verif", scratch, "-tier", "quick", id)
			cmd.Env = os.Environ()
			out, _ := cmd.Output()
			for _, line := range strings.Split(string(out), "\n") {
				if strings.HasPrefix(line, "VIOLATED ") || strings.HasPrefix(line, "UNDECIDED ") || strings.HasPrefix(line, "UNRESOLVED") {
					f := strings.Fields(line)
					if len(f) > 1 {
						c.Rules = append(c.Rules, f[1])
					}
				}
			}
			c.Fired = cmd.ProcessState == nil || cmd.ProcessState.ExitCode() != 0
			neg[i] = c
		}(i, pf)
	}
	wg.Wait()
	negFailed := 0
	var negFired []ctl
	for _, c := range neg {
		if c.Applied && c.Fired {
			negFailed++
			negFired = append(negFired, c)
			fmt.Fprintf(os.Stderr, "negative control failed: behaviour-preserving refactoring %s is reported by %s (%v)\n", c.Seed, id, c.Rules)
		}
	}
	r.Inv["negative_controls_run"] = len(neg)
	r.Inv["negative_controls_failed"] = negFailed
	if len(negFired) > 0 {
		r.Inv["negative_controls_fired"] = negFired
	}
	failed := 0
	for _, c := range results {
		if c.Applied && !c.Fired {
			failed++
			fmt.Fprintf(os.Stderr, "control failed: seeded change %s is no longer reported by %s\n", c.Seed, id)
		}
	}
	r.Inv["controls"] = results
	r.Inv["controls_run"] = len(results)
	r.Inv["controls_failed"] = failed
}
