package main

import (
	"fmt"
	"go/token"
	"go/types"
	"sort"

	"golang.org/x/tools/go/ssa"
)

func init() {
	checks["C07"] = checkC07
	checks["C08"] = checkC08
}

const tStat = "decor.Statistics"

// ruleDecorWidthAccounting (C07b): in the decorator-writing loop every write of decorator text has the
// atom AvailableWidth - width >= 0 and lowers AvailableWidth by that width, or writes the text
// truncated to AvailableWidth under AvailableWidth > 0 and sets it to 0.
func ruleDecorWidthAccounting(w *World, r *Report, pfx string) {
	rule := pfx + ".W-DECOR"
	draw := w.Func("mpb.(*bState).draw")
	if draw == nil {
		r.Unresolved("anchor", "bState.draw", "not found")
		return
	}
	clo, decorCall := w.drawDecorSite(draw)
	if decorCall == nil {
		r.Violated(rule, "decorator-writing loop", w.pos(draw.Pos()), "draw never calls Decor")
		return
	}
	l := innermostLoop(naturalLoops(clo), decorCall.Block())
	if l == nil {
		r.Undecided(rule, "decorator-writing loop", w.instrPos(decorCall), "Decor is not called inside a loop")
		return
	}
	var body *ssa.BasicBlock
	for _, s := range l.Header.Succs {
		if l.Blocks[s] {
			body = s
		}
	}
	isWidth := func(v Val) bool {
		ex, ok := v.V.(*ssa.Extract)
		return ok && ex.Tuple == ssa.Value(decorCall) && ex.Index == 1
	}
	isStr := func(v ssa.Value) bool {
		ex, ok := v.(*ssa.Extract)
		return ok && ex.Tuple == ssa.Value(decorCall) && ex.Index == 0
	}
	isAvail := loadOf(tStat, "AvailableWidth")
	bad := ""
	var wit []string
	sawFit, sawTrunc, sawSkip := false, false, false
	n, over := w.enumPaths(clo, pathOpts{Start: body, StopAt: func(b *ssa.BasicBlock) bool { return b == l.Header }}, func(p *Path) {
		if bad != "" || p.Exit != "stop" {
			if p.Exit != "stop" {
				bad = "the decorator loop can be left early"
			}
			return
		}
		var writes []*ssa.Call
		for _, ev := range p.Events {
			if c, ok := ev.In.(*ssa.Call); ok && c.Call.StaticCallee() != nil {
				switch c.Call.StaticCallee().Name() {
				case "WriteString", "Write", "WriteByte", "WriteRune":
					writes = append(writes, c)
				}
			}
		}
		stA := p.storesTo(tStat, "AvailableWidth")
		if len(writes) == 0 {
			sawSkip = true
			if len(stA) != 0 {
				bad = "AvailableWidth changes on a path that writes nothing"
			}
			return
		}
		if len(writes) > 1 {
			bad = "more than one write per decorator"
			return
		}
		wr := writes[0]
		arg := wr.Call.Args[1]
		// the remaining-width expression AvailableWidth - width
		isRemain := func(v Val) bool {
			sub, ok := stripConv(v.V).(*ssa.BinOp)
			return ok && sub.Op == token.SUB && isAvail(Val{V: sub.X}) && isWidth(Val{V: sub.Y})
		}
		switch {
		case isStr(arg):
			sawFit = true
			if !p.hasCmp(-1, token.GEQ, isRemain, isConstInt(0)) {
				bad = "the decorator's text is written in full on a path without the atom AvailableWidth - width >= 0 (the row would exceed the terminal width)"
				wit = p.describe()
				return
			}
			if len(stA) != 1 || !isRemain(stA[0].Val) {
				bad = "after writing a fitting decorator AvailableWidth is not lowered by its width"
				wit = p.describe()
			}
		default:
			// truncated form: Truncate(strip(str), AvailableWidth, tail)
			tc, ok := arg.(*ssa.Call)
			if !ok || tc.Call.StaticCallee() == nil || tc.Call.StaticCallee().Name() != "Truncate" || len(tc.Call.Args) != 3 || !isAvail(Val{V: tc.Call.Args[1]}) {
				bad = "decorator text is written neither in full nor truncated to the remaining width"
				return
			}
			sawTrunc = true
			if !p.hasCmp(-1, token.GTR, isAvail, isConstInt(0)) {
				bad = "a truncated decorator (with its ellipsis) is written on a path without the atom AvailableWidth > 0: with no column left the ellipsis still takes one"
				wit = p.describe()
				return
			}
			if len(stA) != 1 || !isConstInt(0)(stA[0].Val) {
				bad = "after a truncated decorator AvailableWidth is not set to 0"
			}
		}
	})
	if over {
		r.Undecided(rule, "decorator-writing loop", w.instrPos(decorCall), "path cap")
		return
	}
	r.Check(bad == "" && n > 0 && sawFit && sawTrunc && sawSkip, rule, "decorator-writing loop", w.instrPos(decorCall), fmt.Sprintf("%d body paths: full text only if it fits, truncated only if a column is left, width accounted", n), orStr(bad, "fit / truncate / skip branch missing"), wit...)
}

// ruleSpacers (C07c): the two spacer columns are kept only with the atoms !trimSpace and
// AvailableWidth >= 2 and cost exactly the number of kept single-column spacers; otherwise drained.
func ruleSpacers(w *World, r *Report, pfx string) {
	rule := pfx + ".W-SPACER"
	draw := w.Func("mpb.(*bState).draw")
	if draw == nil {
		return
	}
	// spacers: strings.NewReader(" ") calls in draw
	nSp := 0
	for _, b := range draw.Blocks {
		for _, in := range b.Instrs {
			if c, ok := in.(*ssa.Call); ok && c.Call.StaticCallee() != nil && c.Call.StaticCallee().String() == "strings.NewReader" {
				if k, ok := c.Call.Args[0].(*ssa.Const); ok && k.Value != nil && k.Value.ExactString() == `" "` {
					nSp++
				}
			}
		}
	}
	bad := ""
	sawKeep, sawDrain := false, false
	isAvail := loadOf(tStat, "AvailableWidth")
	n, over := w.enumPaths(draw, pathOpts{InlineDepth: 0, MaxPaths: 5000}, func(p *Path) {
		if bad != "" || p.Exit != "return" {
			return
		}
		// only paths that reach the filler
		reachFill := false
		for _, ev := range p.Events {
			if c, ok := ev.In.(*ssa.Call); ok && c.Call.IsInvoke() && c.Call.Method.Name() == "Fill" {
				reachFill = true
			}
		}
		if !reachFill {
			return
		}
		stA := p.storesTo(tStat, "AvailableWidth")
		drains := 0
		for _, ev := range p.Events {
			if c, ok := ev.In.(*ssa.Call); ok && c.Call.StaticCallee() != nil && c.Call.StaticCallee().String() == "io.Copy" {
				drains++
			}
		}
		if len(stA) == 1 {
			sawKeep = true
			sub, ok := stA[0].Val.V.(*ssa.BinOp)
			k := int64(-1)
			if ok {
				k, _ = constInt(sub.Y)
			}
			if !ok || sub.Op != token.SUB || !isAvail(Val{V: sub.X}) || k != int64(nSp) {
				bad = fmt.Sprintf("keeping the %d spacer columns does not lower AvailableWidth by exactly %d", nSp, nSp)
				return
			}
			if !p.hasCmp(stA[0].Idx, token.GEQ, isAvail, isConstInt(int64(nSp))) {
				bad = fmt.Sprintf("the spacer columns are kept on a path without the atom AvailableWidth >= %d: the filler would be told a negative or too large width and the row overflows", nSp)
				return
			}
			if !p.hasBool(-1, false, loadOf(tBState, "trimSpace")) {
				bad = "spacers kept although trimming was requested"
			}
		} else if len(stA) == 0 {
			sawDrain = true
			// with the loop unrolled at most once we see 0 or 1 drains; the loop must cover the spacer slice
			_ = drains
		} else {
			bad = "AvailableWidth is stored more than once around the spacers"
		}
	})
	if over {
		r.Undecided(rule, "spacer columns", w.pos(draw.Pos()), "path cap")
		return
	}
	r.Check(bad == "" && n > 0 && sawKeep && sawDrain && nSp == 2, rule, "spacer columns", w.pos(draw.Pos()), "kept iff !trim && AvailableWidth >= 2, costing exactly 2; otherwise drained", orStr(bad, "keep/drain branch missing"))
	// the drain loop covers the whole spacer slice
	okDrain := false
	for _, l := range naturalLoops(draw) {
		for b := range l.Blocks {
			for _, in := range b.Instrs {
				if c, ok := in.(*ssa.Call); ok && c.Call.StaticCallee() != nil && c.Call.StaticCallee().String() == "io.Copy" {
					cl := classifyCountingLoop(l)
					if cl.ok && cl.step == 1 {
						okDrain = true
					}
				}
			}
		}
	}
	if !okDrain {
		// unrolled: as many drains as spacers in one block
		for _, b := range draw.Blocks {
			c := 0
			for _, in := range b.Instrs {
				if call, ok := in.(*ssa.Call); ok && call.Call.StaticCallee() != nil && call.Call.StaticCallee().String() == "io.Copy" {
					c++
				}
			}
			if c == nSp && nSp > 0 {
				okDrain = true
			}
		}
	}
	r.Check(okDrain, rule, "spacer drain", w.pos(draw.Pos()), "all spacer readers drained when not kept", "dropped spacers are not drained: their bytes would still be emitted by the row's MultiReader")
}

// ruleFillGuards (C07d): bFiller.Fill returns before writing when the inner width is negative;
// the spinner returns when its frame does not fit.
func ruleFillGuards(w *World, r *Report, pfx string) {
	rule := pfx + ".W-FILL"
	if fn := w.Func("mpb.(*bFiller).Fill"); fn != nil {
		bad := ""
		sawNeg := false
		n, over := w.enumPaths(fn, pathOpts{MaxPaths: 200000, InlineDepth: 2, Inline: w.helperInline(fn)}, func(p *Path) {
			if bad != "" || p.Exit != "return" {
				return
			}
			// any write (meta call / flush) on the path must be preceded by the atom width >= 0
			bracketsOK := true
			var subtracted map[int64]bool
			firstWrite := -1
			for _, ev := range p.Events {
				if c, ok := ev.In.(*ssa.Call); ok && c.Call.StaticCallee() == nil && !c.Call.IsInvoke() {
					if firstWrite < 0 {
						firstWrite = ev.Idx
					}
				}
			}
			isInner := func(v Val) bool {
				sub, ok := stripConv(v.V).(*ssa.BinOp)
				if !ok || sub.Op != token.SUB {
					return false
				}
				// width - a - b is read as width - (a + b)
				var terms []ssa.Value
				left := p.stripR(Val{sub.X, v.F, v.E})
				for i := 0; i < 4; i++ {
					inner, ok := left.V.(*ssa.BinOp)
					if !ok || inner.Op != token.SUB {
						break
					}
					terms = append(terms, p.stripR(Val{inner.Y, left.F, left.E}).V)
					left = p.stripR(Val{inner.X, left.F, left.E})
				}
				c, ok := left.V.(*ssa.Call)
				if !ok || c.Call.StaticCallee() == nil || c.Call.StaticCallee().Name() != "CheckRequestedWidth" {
					return false
				}
				// what is taken off the allotted width: the widths of exactly the components written
				// around the body (the brackets) on this path
				var flat func(x Val)
				flat = func(x Val) {
					x = p.stripR(x)
					if add, ok := x.V.(*ssa.BinOp); ok && add.Op == token.ADD {
						flat(Val{add.X, x.F, x.E})
						flat(Val{add.Y, x.F, x.E})
						return
					}
					terms = append(terms, x.V)
				}
				flat(Val{sub.Y, v.F, v.E})
				sub2idx := map[int64]bool{}
				for _, t := range terms {
					f, ok := loadedField(t)
					if !ok || f.Name != "width" || f.Owner != "mpb.component" {
						bracketsOK = false
						return true
					}
					ia, ok := f.Base.(*ssa.IndexAddr)
					k, okK := int64(0), false
					if ok {
						k, okK = constInt(ia.Index)
					}
					if !okK {
						// a local copy of the component (`lbound := s.components[iLbound]`)
						if ld, ok := w.origin(f.Base).(*ssa.UnOp); ok {
							if ia2, ok := ld.X.(*ssa.IndexAddr); ok {
								k, okK = constInt(ia2.Index)
							}
						} else if al, ok := f.Base.(*ssa.Alloc); ok {
							for _, sv := range w.cellStores(al) {
								if ld, ok := sv.(*ssa.UnOp); ok {
									if ia2, ok := ld.X.(*ssa.IndexAddr); ok {
										k, okK = constInt(ia2.Index)
									}
								}
							}
						}
					}
					if !okK {
						bracketsOK = false
						return true
					}
					sub2idx[k] = true
				}
				subtracted = sub2idx
				return true
			}
			if firstWrite >= 0 {
				if !p.hasCmp(firstWrite, token.GEQ, isInner, isConstInt(0)) {
					bad = "the filler writes on a path without the atom innerWidth >= 0 (brackets wider than the allotted width)"
				}
				// the components written directly (not by a fill loop): meta[k](w, components[k].bytes)
				direct := map[int64]bool{}
				for _, ev := range p.Events {
					c, ok := ev.In.(*ssa.Call)
					if !ok || c.Call.StaticCallee() != nil || c.Call.IsInvoke() || len(c.Call.Args) != 2 {
						continue
					}
					if _, isBuiltin := c.Call.Value.(*ssa.Builtin); isBuiltin {
						continue
					}
					bf, ok := loadedField(p.stripR(p.val(ev, c.Call.Args[1])).V)
					if !ok || bf.Name != "bytes" || bf.Owner != "mpb.component" {
						continue
					}
					if ia, ok := bf.Base.(*ssa.IndexAddr); ok {
						if k, ok := constInt(ia.Index); ok {
							direct[k] = true
						}
					} else if ld, ok := w.origin(bf.Base).(*ssa.UnOp); ok {
						if ia2, ok := ld.X.(*ssa.IndexAddr); ok {
							if k, ok := constInt(ia2.Index); ok {
								direct[k] = true
							}
						}
					} else if al, ok := bf.Base.(*ssa.Alloc); ok {
						for _, sv := range w.cellStores(al) {
							if ld, ok := sv.(*ssa.UnOp); ok {
								if ia2, ok := ld.X.(*ssa.IndexAddr); ok {
									if k, ok := constInt(ia2.Index); ok {
										direct[k] = true
									}
								}
							}
						}
					}
				}
				if bad == "" && subtracted != nil && p.Exit == "return" && len(direct) >= 2 {
					for k := range direct {
						if !subtracted[k] {
							bad = fmt.Sprintf("component #%d is written around the body but its width is not taken off the allotted width: the row is that much wider than allowed", k)
						}
					}
				}
				if !bracketsOK {
					bad = orStr(bad, "the amount taken off the allotted width is not a sum of component widths")
				}
			} else if p.hasCmp(-1, token.LSS, isInner, isConstInt(0)) {
				sawNeg = true
			}
		})
		if over {
			r.Undecided(rule, "bFiller.Fill width guard", w.pos(fn.Pos()), "path cap")
		} else {
			r.Check(bad == "" && n > 0 && sawNeg, rule, "bFiller.Fill width guard", w.pos(fn.Pos()), "returns before writing when the inner width is negative", orStr(bad, "no early return for a negative inner width"))
		}
	} else {
		r.Unresolved("anchor", "bFiller.Fill", "not found")
	}
	if fn := w.spinnerFill(); fn != nil {
		bad := ""
		saw := false
		w.enumPaths(fn, pathOpts{InlineDepth: 2, Inline: w.helperInline(fn)}, func(p *Path) {
			if p.Exit != "return" {
				return
			}
			writes := false
			for _, ev := range p.Events {
				if c, ok := ev.In.(*ssa.Call); ok && c.Call.StaticCallee() != nil && c.Call.StaticCallee().String() == "io.WriteString" {
					writes = true
				}
			}
			isFrameW := func(v Val) bool {
				c, ok := stripConv(v.V).(*ssa.Call)
				return ok && c.Call.StaticCallee() != nil && c.Call.StaticCallee().Name() == "StringWidth"
			}
			isWidth := func(v Val) bool {
				c, ok := stripConv(v.V).(*ssa.Call)
				return ok && c.Call.StaticCallee() != nil && c.Call.StaticCallee().Name() == "CheckRequestedWidth"
			}
			if writes {
				if !p.hasCmp(-1, token.GEQ, isWidth, isFrameW) {
					bad = "the spinner writes its frame on a path without the atom width >= frameWidth (negative padding count panics / row overflows)"
				}
			} else {
				saw = true
			}
		})
		r.Check(bad == "" && saw, rule, "sFiller.Fill width guard", w.pos(fn.Pos()), "returns when the frame does not fit", orStr(bad, "no early return"))
	}
	// strings.Repeat counts are non-negative: padWidth/2, padWidth%2 ... of a value with the guard above
}

// C07 — row never exceeds its width; rendering terminates.
func checkC07(w *World, r *Report) {
	r.Explain = "(a) Termination of every loop on the render/heap path (E5): each natural loop of the 47+ functions reachable from the render closure, render, flush, the heap loop, the distributor and the Write closure is classified with a stated ranking argument (range loop; counting loop whose step is loop-invariant and provably positive - a constant or guarded by `step > 0` on every iteration; two-pointer; drain of a heap or bytes.Buffer) or is reported; recursion only through decorator/filler delegation. This is a complete decision for library code assuming library callees (runewidth, bytes, strings, sort, container/heap) terminate. (b) Width accounting in the decorator-writing loop on every path. (c) Spacer columns kept only with room for them. (d) The bar filler returns before writing when the inner width is negative, the spinner when its frame does not fit. (e) Every built-in Decor returns the width produced by its single Format exchange. Display width of actual strings (runewidth semantics) is not computed."
	r.Assume = append(r.Assume, "library callees terminate", "runewidth.StringWidth/Truncate are correct", "user fillers/decorators terminate")
	ruleTermination(w, r, "C07")
	ruleDecorWidthAccounting(w, r, "C07")
	ruleSpacers(w, r, "C07")
	ruleComponentWidths(w, r, "C07")
	ruleTermSize(w, r, "C07")
	ruleWidthClamp(w, r, "C07")
	ruleWriterNew(w, r, "C07")
	ruleIsTerminal(w, r, "C07")
	ruleStatisticsFaithful(w, r, "C07")
	ruleRenderSize(w, r, "C07")
	ruleOptionTable(w, r, "C07", map[string][3]string{"WithWidth": {tPState, "reqWidth", "param"}, "BarWidth": {tBState, "reqWidth", "param"}, "BarFillerTrim": {tBState, "trimSpace", "true"}})
	ruleFillGuards(w, r, "C07")
	ruleDecorExchange(w, r, "C07")
	ruleFormatExchange(w, r, "C07")
	ruleFillAccounting(w, r, "C07")
	ruleRowsFit(w, r, "C07")
	ruleRowsAreLines(w, r, "C07")
	ruleCellsBounded(w, r, "C07")
	ruleTipCounted(w, r, "C07")
	ruleSpinnerBody(w, r, "C07")
	ruleUserFillerKept(w, r, "C07")
}

// ruleFillAccounting: in bFiller.Fill every appended component advances fillCount by that
// component's width in the same block (cells written == cells accounted), and the ellipsis
// loop pads the remainder cell by cell.
func ruleFillAccounting(w *World, r *Report, pfx string) {
	rule := pfx + ".W-CELLS"
	fn := w.Func("mpb.(*bFiller).Fill")
	if fn == nil {
		return
	}
	n := 0
	var fillLoops []*loopInfo
	for _, f := range sortedFns(w.unit(fn)) {
		fillLoops = append(fillLoops, naturalLoops(f)...)
	}
	for _, l := range fillLoops {
		// loops that append to a byte slice
		var app *ssa.Call
		for b := range l.Blocks {
			for _, in := range b.Instrs {
				if c, ok := in.(*ssa.Call); ok && isBuiltinCall(&c.Call, "append") {
					app = c
				}
			}
		}
		if app == nil {
			continue
		}
		n++
		// the appended bytes come from component k's bytes, the step is component k's width (or constant 1 for the literal ellipsis)
		bad := ""
		var cnt *ssa.Phi
		for _, in := range l.Header.Instrs {
			if phi, ok := in.(*ssa.Phi); ok {
				if _, isInt := phi.Type().Underlying().(*types.Basic); isInt {
					cnt = phi
				}
			}
		}
		if cnt == nil {
			bad = "no cell counter carried by the loop"
		} else {
			st := stepOf(l, cnt)
			switch {
			case !st.ok:
				bad = "the cell counter is not advanced once per appended component"
			case st.isK:
				if st.konst != 1 {
					bad = "constant step other than 1"
				}
			default:
				// step must be the width of the same component whose bytes are appended
				wf, ok1 := loadedField(st.val)
				bf, ok2 := loadedField(app.Call.Args[1])
				if !ok1 || !ok2 || wf.Name != "width" || bf.Name != "bytes" || !sameComponent(wf.Base, bf.Base) {
					bad = "the cells accounted per iteration are not the width of the component whose bytes are appended (the body would not occupy exactly its allotted width)"
				}
			}
		}
		r.Check(bad == "", rule, fmt.Sprintf("fill loop #%d", n), w.instrPos(app), "bytes of component k appended, counter advanced by width of component k", bad)
	}
	r.Floor(rule, 2, "the ellipsis loop and the component loop(s): filler, refiller, padding")
}

func sameComponent(a, b ssa.Value) bool {
	if a == b {
		// the same component value (e.g. the receiver of a helper method on the component type)
		switch a.(type) {
		case *ssa.Parameter, *ssa.Alloc:
			return true
		}
	}
	ia, ok1 := a.(*ssa.IndexAddr)
	ib, ok2 := b.(*ssa.IndexAddr)
	if !ok1 || !ok2 {
		return false
	}
	ka, ok1 := constInt(ia.Index)
	kb, ok2 := constInt(ib.Index)
	return ok1 && ok2 && ka == kb
}

// ---------------------------------------------------------------------------------------------
// E6 — arithmetic safety

// ruleNoIntegerProduct (E6a): in the percentage helpers and the filler no integer MUL/SHL has an
// operand derived from total/current/refill; int64->uint conversions are dominated by the
// negativity guard.
func ruleNoIntegerProduct(w *World, r *Report, pfx string) {
	rule := pfx + ".A-OVERFLOW"
	fns := []*ssa.Function{w.Func("internal.Percentage"), w.Func("internal.PercentageRound"), w.Func("mpb.(*bFiller).Fill")}
	for _, fn := range w.ModFns {
		if fn.Pkg == w.Decor && fn.Parent() != nil && rootFn(fn).Name() == "NewPercentage" {
			fns = append(fns, fn)
		}
	}
	for _, fn := range fns {
		if fn == nil {
			r.Unresolved("anchor", "percentage helpers", "not found")
			continue
		}
		tainted := map[ssa.Value]bool{}
		isIntType := func(t types.Type) bool {
			b, ok := t.Underlying().(*types.Basic)
			return ok && b.Info()&types.IsInteger != 0
		}
		// seeds: parameters of integer type named total/current (all integer params of the helpers), loads of Statistics.{Total,Current,Refill}
		for _, p := range fn.Params {
			if isIntType(p.Type()) && fn.Pkg == w.Intern && p.Name() != "width" {
				tainted[p] = true
			}
		}
		changed := true
		for changed {
			changed = false
			for _, b := range fn.Blocks {
				for _, in := range b.Instrs {
					v, ok := in.(ssa.Value)
					if !ok || tainted[v] {
						continue
					}
					t := false
					switch x := in.(type) {
					case *ssa.UnOp:
						if f, ok := loadedField(x); ok && f.Owner == tStat && (f.Name == "Total" || f.Name == "Current" || f.Name == "Refill") {
							t = true
						}
					case *ssa.Field:
						if f, ok := fieldOf(x); ok && f.Owner == tStat && (f.Name == "Total" || f.Name == "Current" || f.Name == "Refill") {
							t = true
						}
					case *ssa.Convert:
						t = tainted[x.X] && isIntType(x.Type())
					case *ssa.ChangeType:
						t = tainted[x.X]
					case *ssa.BinOp:
						if isIntType(x.Type()) && (tainted[x.X] || tainted[x.Y]) {
							t = true
						}
					case *ssa.Phi:
						for _, e := range x.Edges {
							if tainted[e] {
								t = true
							}
						}
					}
					if t {
						tainted[v] = true
						changed = true
					}
				}
			}
		}
		bad := ""
		pos := ""
		for _, b := range fn.Blocks {
			for _, in := range b.Instrs {
				if bin, ok := in.(*ssa.BinOp); ok && isIntType(bin.Type()) && (bin.Op == token.MUL || bin.Op == token.SHL) && (tainted[bin.X] || tainted[bin.Y]) {
					bad = "integer " + bin.Op.String() + " with an operand derived from total/current/refill: overflows for values near 2^63 (wrong fill width / percentage)"
					pos = w.instrPos(in)
				}
			}
		}
		r.Check(bad == "", rule, "no integer product of progress quantities in "+fnShort(fn), orStr(pos, w.pos(fn.Pos())), "products are formed in floating point", bad)
	}
	// negativity guard before int64 -> uint: on every path, a conversion of a signed parameter to an
	// unsigned type is preceded by the atom p >= 0
	if fn := w.Func("internal.PercentageRound"); fn != nil {
		bad := ""
		nConv := 0
		w.enumPaths(fn, pathOpts{InlineDepth: 2, Inline: w.helperInline(fn, w.Func("internal.Percentage"))}, func(p *Path) {
			for _, ev := range p.Events {
				cv, ok := ev.In.(*ssa.Convert)
				if !ok || !isUnsigned(cv) {
					continue
				}
				prm, ok := p.stripR(p.val(ev, cv.X)).V.(*ssa.Parameter)
				if !ok || isUnsigned(prm) || prm.Parent() != fn {
					continue
				}
				nConv++
				if !p.hasCmp(ev.Idx, token.GEQ, func(v Val) bool { return v.V == ssa.Value(prm) }, isConstInt(0)) {
					bad = "a possibly negative " + prm.Name() + " is converted to uint on a path without the atom " + prm.Name() + " >= 0 (a negative value becomes a huge positive one)"
				}
			}
		})
		r.Check(bad == "" && nConv >= 2, rule+"g", "negativity guard in "+fnShort(fn), w.pos(fn.Pos()), "int64->uint conversions guarded on every path", orStr(bad, "conversions of total/current not found"))
	}
}

// ruleMonotone (E6b): internal.Percentage is non-decreasing in current by monotone composition.
func ruleMonotone(w *World, r *Report, pfx string) {
	rule := pfx + ".A-MONO"
	fn := w.Func("internal.Percentage")
	if fn == nil || len(fn.Params) != 3 {
		r.Unresolved("anchor", "internal.Percentage", "not found")
		return
	}
	total, current, width := fn.Params[0], fn.Params[1], fn.Params[2]
	// lattice: 0 const (independent of current), +1 non-decreasing, -1 non-increasing, 2 unknown
	var mono func(v ssa.Value, depth int) int
	mono = func(v ssa.Value, depth int) int {
		if depth > 12 {
			return 2
		}
		switch x := v.(type) {
		case *ssa.Const:
			return 0
		case *ssa.Parameter:
			if x == current {
				return 1
			}
			return 0
		case *ssa.Convert:
			return mono(x.X, depth+1) // int->float and uint->float conversions are monotone
		case *ssa.ChangeType:
			return mono(x.X, depth+1)
		case *ssa.BinOp:
			a, b := mono(x.X, depth+1), mono(x.Y, depth+1)
			switch x.Op {
			case token.ADD:
				return joinMono(a, b)
			case token.SUB:
				return joinMono(a, negMono(b))
			case token.MUL:
				// product with a current-independent non-negative factor (unsigned or converted from unsigned)
				if b == 0 && nonNegative(x.Y) {
					return a
				}
				if a == 0 && nonNegative(x.X) {
					return b
				}
				return 2
			case token.QUO:
				if b == 0 && nonNegative(x.Y) {
					return a
				}
				return 2
			}
			return 2
		case *ssa.Call:
			if sc := x.Call.StaticCallee(); sc != nil && (sc.String() == "math.Round" || sc.String() == "math.Floor" || sc.String() == "math.Ceil") {
				return mono(x.Call.Args[0], depth+1)
			}
			return 2
		}
		return 2
	}
	bad := ""
	sawFull, sawZero, sawProp := false, false, false
	w.enumPaths(fn, pathOpts{}, func(p *Path) {
		if bad != "" || p.Exit != "return" || len(p.Ret) != 1 {
			return
		}
		rv := p.Ret[0].V
		// guards on current: only the upper-threshold test current >= total, whose piece returns the bound itself
		upper := p.hasCmp(-1, token.GEQ, func(v Val) bool { return v.V == ssa.Value(current) }, func(v Val) bool { return v.V == ssa.Value(total) })
		for _, a := range p.Atoms {
			c := p.cmpOf(a)
			usesCur := c.X.V == ssa.Value(current) || (c.Y.V != nil && c.Y.V == ssa.Value(current))
			if !usesCur {
				continue
			}
			okForm := (c.X.V == ssa.Value(current) && c.Y.V == ssa.Value(total) && (c.Op == token.GEQ || c.Op == token.LSS)) ||
				(c.Y.V == ssa.Value(current) && c.X.V == ssa.Value(total) && (c.Op == token.LEQ || c.Op == token.GTR))
			if !okForm {
				bad = "the helper branches on current with a test other than the upper threshold current >= total: the pieces need not be ordered"
			}
		}
		switch {
		case p.hasCmp(-1, token.EQL, func(v Val) bool { return v.V == ssa.Value(total) }, isConstInt(0)):
			sawZero = true
			if mono(rv, 0) != 0 {
				bad = "with total == 0 the result depends on current"
			}
		case upper:
			sawFull = true
			cv, ok := rv.(*ssa.Convert)
			if !ok || cv.X != ssa.Value(width) {
				bad = "at or beyond the total the helper does not return the full width"
			}
		default:
			sawProp = true
			if m := mono(rv, 0); m != 1 {
				bad = "the proportional piece is not non-decreasing in current by monotone composition (conversion, product with the non-negative width, quotient by the positive total)"
			}
			// shape: width * current / total
			if !mentions(rv, width) || !mentions(rv, total) || !mentions(rv, current) {
				bad = orStr(bad, "the proportional piece is not a function of width, current and total")
			}
		}
	})
	r.Check(bad == "" && sawFull && sawZero && sawProp, rule, "internal.Percentage", w.pos(fn.Pos()), "0 for total 0; width at/after total; width*current/total below, non-decreasing in current", orStr(bad, "piece missing"))
	// the rounding wrapper: Round(Percentage(uint(total), uint(current), width)) with the arguments in order
	if pr := w.Func("internal.PercentageRound"); pr != nil {
		ok := false
		okAll := true
		w.enumPaths(pr, pathOpts{InlineDepth: 2, Inline: w.helperInline(pr, fn)}, func(p *Path) {
			if p.Exit != "return" || len(p.Ret) != 1 {
				return
			}
			rv := p.R(p.Ret[0])
			if k, isK := rv.V.(*ssa.Const); isK && k.Value != nil {
				return // the guard's constant answer (judged by A-OVERFLOWg / the zero piece)
			}
			c, isCall := rv.V.(*ssa.Call)
			if !isCall || c.Call.StaticCallee() == nil || c.Call.StaticCallee().String() != "math.Round" {
				okAll = false
				return
			}
			in := p.R(Val{c.Call.Args[0], rv.F, rv.E})
			inner, isCall := in.V.(*ssa.Call)
			if !isCall || inner.Call.StaticCallee() != fn || len(inner.Call.Args) != 3 {
				okAll = false
				return
			}
			a0 := p.stripR(Val{inner.Call.Args[0], in.F, in.E}).V
			a1 := p.stripR(Val{inner.Call.Args[1], in.F, in.E}).V
			a2 := p.stripR(Val{inner.Call.Args[2], in.F, in.E}).V
			if a0 == ssa.Value(pr.Params[0]) && a1 == ssa.Value(pr.Params[1]) && a2 == ssa.Value(pr.Params[2]) {
				ok = true
			} else {
				okAll = false
			}
		})
		ok = ok && okAll
		r.Check(ok, rule, "internal.PercentageRound", w.pos(pr.Pos()), "math.Round(Percentage(total, current, width))", "the rounding wrapper does not round the helper's result for (total, current, width) in that order (nearest-cell rounding lost or arguments swapped)")
	}
}

func joinMono(a, b int) int {
	switch {
	case a == 2 || b == 2:
		return 2
	case a == 0:
		return b
	case b == 0:
		return a
	case a == b:
		return a
	}
	return 2
}
func negMono(a int) int {
	if a == 1 {
		return -1
	}
	if a == -1 {
		return 1
	}
	return a
}

func nonNegative(v ssa.Value) bool {
	v2 := v
	for {
		if isUnsigned(v2) {
			return true
		}
		if c, ok := v2.(*ssa.Convert); ok {
			v2 = c.X
			continue
		}
		if k, ok := constInt(v2); ok {
			return k >= 0
		}
		return false
	}
}

func mentions(v ssa.Value, target ssa.Value) bool {
	seen := map[ssa.Value]bool{}
	var rec func(v ssa.Value) bool
	rec = func(v ssa.Value) bool {
		if v == target {
			return true
		}
		if seen[v] {
			return false
		}
		seen[v] = true
		in, ok := v.(ssa.Instruction)
		if !ok {
			return false
		}
		for _, op := range in.Operands(nil) {
			if *op != nil && rec(*op) {
				return true
			}
		}
		return false
	}
	return rec(v)
}

// ruleFillerUse (C08): the filler computes curWidth from (Total, Current, width) and the refill
// width from (Total, Refill, width) with the same helper, and the refill segment is bounded by
// the filled segment: curWidth -= refWidth; refWidth += curWidth.
func ruleFillerUse(w *World, r *Report, pfx string) {
	rule := pfx + ".A-FILLER"
	fn := w.Func("mpb.(*bFiller).Fill")
	pr := w.Func("internal.PercentageRound")
	if fn == nil || pr == nil {
		return
	}
	var cur, ref *ssa.Call
	unit := w.unit(fn)
	for _, g := range sortedFns(unit) {
		var c1, c2 *ssa.Call
		for _, b := range g.Blocks {
			for _, in := range b.Instrs {
				c, ok := in.(*ssa.Call)
				if !ok || c.Call.StaticCallee() != pr || len(c.Call.Args) != 3 {
					continue
				}
				if isLoad(Val{V: c.Call.Args[0]}, tStat, "Total") && isLoad(Val{V: c.Call.Args[1]}, tStat, "Current") {
					c1 = c
				}
				if isLoad(Val{V: c.Call.Args[0]}, tStat, "Total") && isLoad(Val{V: c.Call.Args[1]}, tStat, "Refill") {
					c2 = c
				}
			}
		}
		if c1 != nil && c2 != nil {
			cur, ref = c1, c2
		}
	}
	ok := cur != nil && ref != nil && cur.Call.Args[2] != nil && stripConv(cur.Call.Args[2]) == stripConv(ref.Call.Args[2])
	r.Check(ok, rule, "filled and refill widths", w.pos(fn.Pos()), "both from PercentageRound(Total, x, same inner width)", "the filled / refill widths are not computed by the shared helper from (Total, Current|Refill, the same inner width)")
	if !ok {
		return
	}
	// refill capped: refWidth' = refWidth + (curWidth - refWidth) = curWidth, i.e. the refiller loop's bound never exceeds curWidth;
	// structurally: the filler loop's bound is cur-ref, the refiller loop's bound is ref+(cur-ref); no other adjustment of either
	curV := ssa.Value(nil)
	refV := ssa.Value(nil)
	for _, refr := range *cur.Referrers() {
		if cv, ok := refr.(*ssa.Convert); ok {
			curV = cv
		}
	}
	for _, refr := range *ref.Referrers() {
		if cv, ok := refr.(*ssa.Convert); ok {
			refV = cv
		}
	}
	bad := ""
	var diff, sum *ssa.BinOp
	if curV == nil || refV == nil {
		bad = "widths are not converted to int once"
	} else {
		for _, refr := range *refV.Referrers() {
			if b, ok := refr.(*ssa.BinOp); ok {
				if b.Op == token.SUB && b.X == curV && b.Y == refV {
					diff = b
				}
			}
		}
		if diff != nil {
			for _, refr := range *diff.Referrers() {
				if b, ok := refr.(*ssa.BinOp); ok && b.Op == token.ADD && ((b.X == refV && b.Y == ssa.Value(diff)) || (b.Y == refV && b.X == ssa.Value(diff))) {
					sum = b
				}
			}
		}
		if diff == nil || sum == nil {
			bad = "the refill segment is not derived as (cur - ref) for the filler and ref + (cur - ref) for the refiller: the refill could exceed the filled part"
		} else {
			// every other use of diff/sum must be a phi or the loop comparisons (no clamping or rewriting in between)
			for _, v := range []*ssa.BinOp{diff, sum} {
				for _, refr := range *v.Referrers() {
					switch x := refr.(type) {
					case *ssa.Phi, *ssa.DebugRef:
					case *ssa.Call:
						// handed to a private helper of Fill as the limit of a fill loop
						if h := x.Call.StaticCallee(); h == nil || !unit[h] {
							bad = "unexpected use of the filled/refill widths at " + w.instrPos(refr)
						}
					case *ssa.BinOp:
						if x != sum && x.Op != token.SUB {
							bad = "the filled/refill widths are adjusted again after being related (" + w.instrPos(x) + ")"
						}
					default:
						bad = "unexpected use of the filled/refill widths at " + w.instrPos(refr)
					}
				}
			}
			// the phis carrying them must have only these and the plain values as sources
			for _, refr := range *diff.Referrers() {
				if phi, ok := refr.(*ssa.Phi); ok {
					for _, e := range phi.Edges {
						if e != ssa.Value(diff) && e != curV {
							bad = "the filler's width takes a value other than cur or cur - ref (" + w.instrPos(phi) + ")"
						}
					}
				}
			}
		}
	}
	r.Check(bad == "", rule, "refill bounded by fill", w.pos(fn.Pos()), "filler gets cur - ref, refiller ref + (cur - ref) = cur: never more than the filled part", bad)
}

// C08 — filled part proportional, never backwards.
func checkC08(w *World, r *Report) {
	r.Explain = "Arithmetic-safety rules (E6) on SSA: (a) overflow taint: no integer product or shift has an operand derived from total/current/refill in the percentage helper, its rounding wrapper, the percentage decorator and the filler; int64->uint conversions are dominated by the negativity guard; (b) monotone composition: every piece of the helper's result is non-decreasing in current (conversion, product with the non-negative width, quotient by the positive total), the only guard on current is the upper threshold current >= total whose piece returns the full width, total == 0 yields 0; the wrapper rounds the helper's result; (c) the filler uses the helper for the filled and the refill width with the same inner width, relates them as cur-ref / ref+(cur-ref) without further adjustment, advances its cell counter by the width of exactly the component it appends, and every fill loop terminates; SetRefill caps the mark at current. Rounding to the nearest cell and the +-1 rune tolerance are arithmetic facts not decided here (assumption: c < t implies w*c/t <= w)."
	r.Assume = append(r.Assume, "IEEE-754 float64 arithmetic; c < t implies w*c/t <= w up to rounding absorbed by math.Round", "width fits in float64 exactly")
	ruleNoIntegerProduct(w, r, "C08")
	ruleMonotone(w, r, "C08")
	ruleFillerUse(w, r, "C08")
	ruleUserFillerKept(w, r, "C08")
	ruleFillAccounting(w, r, "C08")
	// fill loops terminate (shares E5)
	if fn := w.Func("mpb.(*bFiller).Fill"); fn != nil {
		for i, l := range naturalLoops(fn) {
			c := w.classifyLoop(fn, l)
			r.Check(c.OK, "C08.T-LOOP", fmt.Sprintf("loop@bFiller.Fill#%d", i+1), w.instrPos(l.Header.Instrs[len(l.Header.Instrs)-1]), c.Class+": "+c.Why, "no ranking argument: "+c.Why)
		}
	}
	trig, pred := w.triggerFn(), w.completionPredicate()
	if trig != nil && pred != nil {
		ruleSetRefill(w, r, "C08", trig, pred, pathOpts{InlineDepth: 3, Inline: noInline(trig, pred)})
	}
	ruleStatisticsFaithful(w, r, "C08")
	// the cell counter advances by the components' recorded widths: they must be the widths of the very
	// texts the components hold (a tip frame charged with another frame's width shifts the filled part)
	ruleComponentWidths(w, r, "C08")
}

// ruleCellsBounded (C07): in bFiller.Fill every increment of the cell counter is bounded by the
// space that is left: `counter + a` happens only under `limit - counter >= a`, or (for an
// increment of the still-zero counter) under `a <= limit`. An unguarded increment lets the body
// exceed its allotted width.
func ruleCellsBounded(w *World, r *Report, pfx string) {
	rule := pfx + ".W-BOUND"
	fn := w.Func("mpb.(*bFiller).Fill")
	if fn == nil {
		r.Unresolved("anchor", "bFiller.Fill", "not found")
		return
	}
	// counter family: values appearing as V in a loop test SUB(L, V) >= a, closed backwards over phis,
	// ADDs and the counter a private helper takes and hands back (`dst, fillCount = c.repeat(dst, limit, fillCount)`)
	unit := w.unit(fn)
	family := map[ssa.Value]bool{}
	var work []ssa.Value
	for _, f := range sortedFns(unit) {
		for _, b := range f.Blocks {
			ifi, ok := b.Instrs[len(b.Instrs)-1].(*ssa.If)
			if !ok {
				continue
			}
			bin, ok := ifi.Cond.(*ssa.BinOp)
			if !ok {
				continue
			}
			if sub, ok := bin.X.(*ssa.BinOp); ok && sub.Op == token.SUB && (bin.Op == token.GEQ || bin.Op == token.GTR) {
				if _, isPhi := sub.Y.(*ssa.Phi); isPhi {
					work = append(work, sub.Y)
				}
			}
		}
	}
	var adds []*ssa.BinOp
	for len(work) > 0 {
		v := work[len(work)-1]
		work = work[:len(work)-1]
		if family[v] {
			continue
		}
		family[v] = true
		switch x := v.(type) {
		case *ssa.Phi:
			for _, e := range x.Edges {
				work = append(work, e)
			}
		case *ssa.BinOp:
			if x.Op == token.ADD {
				adds = append(adds, x)
				work = append(work, x.X, x.Y)
			}
		case *ssa.Extract:
			// result #k of a helper: the helper's returned values, and (through its parameters) the caller's arguments
			if call, ok := x.Tuple.(*ssa.Call); ok {
				if h := call.Call.StaticCallee(); h != nil && unit[h] {
					for _, b := range h.Blocks {
						if ret, ok := b.Instrs[len(b.Instrs)-1].(*ssa.Return); ok && x.Index < len(ret.Results) {
							work = append(work, ret.Results[x.Index])
						}
					}
				}
			}
		case *ssa.Parameter:
			h := x.Parent()
			if h != fn && unit[h] {
				for i, q := range h.Params {
					if q != x {
						continue
					}
					for _, site := range w.callers[h] {
						if site.Common().StaticCallee() == h && i < len(site.Common().Args) {
							work = append(work, site.Common().Args[i])
						}
					}
				}
			}
		}
	}
	if len(adds) == 0 {
		r.Undecided(rule, "cell counter of bFiller.Fill", w.pos(fn.Pos()), "cell counter not identified")
		return
	}
	isZero := func(v ssa.Value) bool { k, ok := constInt(v); return ok && k == 0 }
	n := 0
	for _, add := range adds {
		// amount = the operand that is not part of the counter family (or not the zero constant)
		cnt, amt := add.X, add.Y
		if isZero(add.Y) || (family[add.Y] && !isZero(add.Y) && !family[add.X]) {
			cnt, amt = add.Y, add.X
		}
		if _, isK := constInt(amt); isK && !isZero(cnt) {
			// constant step: still needs its loop guard
		}
		n++
		guarded := false
		for _, b := range add.Parent().Blocks {
			ifi, ok := b.Instrs[len(b.Instrs)-1].(*ssa.If)
			if !ok {
				continue
			}
			bin, ok := ifi.Cond.(*ssa.BinOp)
			if !ok {
				continue
			}
			for pol := 0; pol < 2; pol++ {
				op := bin.Op
				succ := b.Succs[0]
				if pol == 1 {
					op = negOp(op)
					succ = b.Succs[1]
				}
				if !(succ == add.Block() || (succ.Dominates(add.Block()) && len(succ.Preds) == 1)) {
					continue
				}
				x, y := bin.X, bin.Y
				// limit - counter >= amount
				if sub, ok := x.(*ssa.BinOp); ok && sub.Op == token.SUB && sub.Y == cnt && sameAmount(w, y, amt) && (op == token.GEQ || op == token.GTR) {
					guarded = true
				}
				if sub, ok := y.(*ssa.BinOp); ok && sub.Op == token.SUB && sub.Y == cnt && sameAmount(w, x, amt) && (op == token.LEQ || op == token.LSS) {
					guarded = true
				}
				// zero counter: amount <= limit
				if isZero(cnt) {
					if sameAmount(w, x, amt) && (op == token.LEQ || op == token.LSS) && loopInvariantValue(y) {
						guarded = true
					}
					if sameAmount(w, y, amt) && (op == token.GEQ || op == token.GTR) && loopInvariantValue(x) {
						guarded = true
					}
				}
			}
		}
		// the amount is what a private helper returns (`tip, used = s.nextTip(width)`): every returned
		// amount is the constant 0, or is guarded inside the helper by `amount <= limit`
		if !guarded && isZero(cnt) {
			if ex, ok := amt.(*ssa.Extract); ok {
				if call, ok := ex.Tuple.(*ssa.Call); ok {
					if h := call.Call.StaticCallee(); h != nil && unit[h] {
						all, nRet := true, 0
						for _, hb := range h.Blocks {
							ret, ok := hb.Instrs[len(hb.Instrs)-1].(*ssa.Return)
							if !ok || ex.Index >= len(ret.Results) {
								continue
							}
							nRet++
							rv := ret.Results[ex.Index]
							if isZero(rv) {
								continue
							}
							okRet := false
							for _, b := range h.Blocks {
								ifi, ok := b.Instrs[len(b.Instrs)-1].(*ssa.If)
								if !ok {
									continue
								}
								bin, ok := ifi.Cond.(*ssa.BinOp)
								if !ok {
									continue
								}
								for pol := 0; pol < 2; pol++ {
									op, succ := bin.Op, b.Succs[0]
									if pol == 1 {
										op, succ = negOp(op), b.Succs[1]
									}
									if !(succ == hb || (succ.Dominates(hb) && len(succ.Preds) == 1)) {
										continue
									}
									if sameAmount(w, bin.X, rv) && (op == token.LEQ || op == token.LSS) && loopInvariantValue(bin.Y) {
										okRet = true
									}
									if sameAmount(w, bin.Y, rv) && (op == token.GEQ || op == token.GTR) && loopInvariantValue(bin.X) {
										okRet = true
									}
								}
							}
							if !okRet {
								all = false
							}
						}
						if all && nRet > 0 {
							guarded = true
						}
					}
				}
			}
		}
		// the amount is the width of the component a private helper returns (`tip = s.nextTip(width);
		// fillCount += tip.width`): every return of the helper is the zero component, or a component
		// guarded inside the helper by `its width <= limit`
		if !guarded && isZero(cnt) {
			var call *ssa.Call
			if ld, ok := amt.(*ssa.UnOp); ok && ld.Op == token.MUL {
				if fa, ok := ld.X.(*ssa.FieldAddr); ok {
					if al, ok := fa.X.(*ssa.Alloc); ok && al.Referrers() != nil {
						nSt := 0
						for _, ref := range *al.Referrers() {
							if st, ok := ref.(*ssa.Store); ok && st.Addr == ssa.Value(al) {
								nSt++
								call, _ = st.Val.(*ssa.Call)
							}
						}
						if nSt != 1 {
							call = nil
						}
					}
				}
			}
			if fv, ok := amt.(*ssa.Field); ok {
				call, _ = fv.X.(*ssa.Call)
			}
			if call != nil {
				if h := call.Call.StaticCallee(); h != nil && unit[h] && h.Signature.Results().Len() == 1 {
					all, nRet := true, 0
					for _, hb := range h.Blocks {
						ret, ok := hb.Instrs[len(hb.Instrs)-1].(*ssa.Return)
						if !ok || len(ret.Results) != 1 {
							continue
						}
						nRet++
						rv := ret.Results[0]
						if c, ok := rv.(*ssa.Const); ok && c.Value == nil {
							continue // the zero component
						}
						rld, ok := rv.(*ssa.UnOp)
						if !ok || rld.Op != token.MUL {
							all = false
							continue
						}
						okRet := false
						for _, b := range h.Blocks {
							ifi, ok := b.Instrs[len(b.Instrs)-1].(*ssa.If)
							if !ok {
								continue
							}
							bin, ok := ifi.Cond.(*ssa.BinOp)
							if !ok {
								continue
							}
							for pol := 0; pol < 2; pol++ {
								op, succ := bin.Op, b.Succs[0]
								if pol == 1 {
									op, succ = negOp(op), b.Succs[1]
								}
								if !(succ == hb || (succ.Dominates(hb) && len(succ.Preds) == 1)) {
									continue
								}
								isW := func(v ssa.Value) bool {
									l2, ok := v.(*ssa.UnOp)
									if !ok || l2.Op != token.MUL {
										return false
									}
									fa, ok := l2.X.(*ssa.FieldAddr)
									return ok && sameValueExpr(fa.X, rld.X, 0)
								}
								if isW(bin.X) && (op == token.LEQ || op == token.LSS) && loopInvariantValue(bin.Y) {
									okRet = true
								}
								if isW(bin.Y) && (op == token.GEQ || op == token.GTR) && loopInvariantValue(bin.X) {
									okRet = true
								}
							}
						}
						if !okRet {
							all = false
						}
					}
					if all && nRet > 0 {
						guarded = true
					}
				}
			}
		}
		r.Check(guarded, rule, fmt.Sprintf("cell counter increment by %s", describeVal(Val{V: amt})), w.instrPos(add), "guarded by the space that is left", "the cell counter is advanced by "+describeVal(Val{V: amt})+" without a guard that this many columns are left: a component wider than the remaining width (e.g. a multi-column tip on a narrow bar) makes the body, and the row, exceed the allotted width")
	}
	r.Floor(rule, 3, "tip, ellipsis and the component loop(s): filler, refiller, padding")
}

func sameAmount(w *World, a, b ssa.Value) bool {
	if a == b {
		return true
	}
	fa, ok1 := loadedField(stripConv(a))
	fb, ok2 := loadedField(stripConv(b))
	if ok1 && ok2 && fa.Owner == fb.Owner && fa.Name == fb.Name {
		return fa.Base == fb.Base || w.sameSource(fa.Base, fb.Base)
	}
	ka, oka := constInt(a)
	kb, okb := constInt(b)
	return oka && okb && ka == kb
}

func loopInvariantValue(v ssa.Value) bool {
	switch v.(type) {
	case *ssa.Const, *ssa.Parameter, *ssa.BinOp, *ssa.Convert, *ssa.UnOp, *ssa.Call, *ssa.Phi:
		return true
	}
	return false
}

func sortedFns(m map[*ssa.Function]bool) []*ssa.Function {
	var out []*ssa.Function
	for f := range m {
		out = append(out, f)
	}
	sort.Slice(out, func(i, j int) bool { return out[i].Pos() < out[j].Pos() })
	return out
}
