package main

import (
	"fmt"
	"go/token"
	"go/types"

	"golang.org/x/tools/go/ssa"
)

// Per-bar outcome analysis of the flush collection loop (E3): one enumeration of the loop
// body's paths, interpreted by C05 (retained exactly once), C17 (successor swap), C18 (pop
// mode), C01 (terminal frame cancels; new bars announced), C06 (priority inheritance).

type tri int8

const (
	triUnknown tri = 0
	triFalse   tri = 1
	triTrue    tri = 2
)

type retainEv struct {
	Idx  int
	Bar  Val
	Sync Val
	Self bool // the iterated bar
}

type flushPath struct {
	P          *Path
	ErrSeen    tri // an earlier frame of this cycle failed
	FrameErr   tri // this frame failed
	Shutdown   int // 1, 2; 0 = neither (default arm); -1 = not tested on this path
	LookupOK   tri
	PopMode    tri
	NoPop      tri
	RmOnCompl  tri
	Retains    []retainEv
	CancelIdx  []int // calls of the iterated bar's cancel
	DeleteIdx  []int // delete(queueBars, bar)
	PopAccum   bool  // the path adds the bar's used rows to the popped-row count
	LookupVal  ssa.Value
	ExitsEarly bool
}

type flushInfo struct {
	Fn        *ssa.Function
	Header    *ssa.BasicBlock
	Body      *ssa.BasicBlock
	Bar       ssa.Value // the iterated bar
	Frame     ssa.Value // the received frame
	PushFn    *ssa.Function
	Pend      []pendFn        // "remember to push" functions, if any
	DrainAt   ssa.Instruction // where the remembered pushes are performed (loop header or helper call in flush)
	Paths     []*flushPath
	Over      bool
	PopCount  *ssa.Phi
	ErrPhi    *ssa.Phi
	RowsPhi   *ssa.Phi
	FlushCall *ssa.Call
	Undecided string
}

// pushFn = the heap request constructor whose payload is the push payload (carries a *Bar and a bool).
func (w *World) heapPushFn() *ssa.Function {
	for fn := range w.heapSenders() {
		sig := fn.Signature
		if sig.Params().Len() == 2 {
			if typeName(sig.Params().At(0).Type()) == tBar && types.Identical(sig.Params().At(1).Type(), types.Typ[types.Bool]) {
				return fn
			}
		}
	}
	return nil
}

// pendFn: a function that remembers (bar, sync) for a later push: it appends a two-field record
// built from two of its parameters to a slice cell - a variable captured from flush (a local
// closure) or a cell whose address it is given (a method on a queue type) - which flush later
// drains completely, calling pushFn(elem.bar, elem.sync) once per element.
type pendFn struct {
	Fn      *ssa.Function
	BarArg  int // index into the call's Args
	SyncArg int
	CellArg int        // index of the argument carrying the cell's address; -1: captured variable
	Cell    *ssa.Alloc // captured cell (closure form)
}

func (w *World) pendingFns(fn, pushFn *ssa.Function) []pendFn {
	var out []pendFn
	cands := append([]*ssa.Function(nil), fn.AnonFuncs...)
	for _, f := range w.ModFns {
		if f.Pkg == fn.Pkg && f.Parent() == nil && f != fn && f.Blocks != nil && len(f.Params) >= 2 && len(f.Params) <= 3 && !w.anchors()[f] {
			cands = append(cands, f)
		}
	}
	for _, c := range cands {
		if len(c.Blocks) != 1 {
			continue
		}
		pf := pendFn{Fn: c, BarArg: -1, SyncArg: -1, CellArg: -1}
		var cell ssa.Value
		paramStores := 0
		for _, in := range c.Blocks[0].Instrs {
			st, ok := in.(*ssa.Store)
			if !ok {
				continue
			}
			if call, ok := st.Val.(*ssa.Call); ok && isBuiltinCall(&call.Call, "append") {
				if ld, ok := call.Call.Args[0].(*ssa.UnOp); ok && ld.Op == token.MUL && ld.X == st.Addr {
					switch st.Addr.(type) {
					case *ssa.FreeVar, *ssa.Parameter:
						cell = st.Addr
					}
				}
			}
			if p, ok := st.Val.(*ssa.Parameter); ok && p.Parent() == c {
				if _, ok := st.Addr.(*ssa.FieldAddr); ok {
					for i, q := range c.Params {
						if q != p {
							continue
						}
						paramStores++
						if typeName(p.Type()) == tBar {
							pf.BarArg = i
						} else if types.Identical(p.Type(), types.Typ[types.Bool]) {
							pf.SyncArg = i
						}
					}
				}
			}
		}
		if cell == nil || paramStores != 2 || pf.BarArg < 0 || pf.SyncArg < 0 {
			continue
		}
		switch x := cell.(type) {
		case *ssa.FreeVar:
			if c.Parent() != fn {
				continue
			}
			binds := freeVarBindings(x)
			if len(binds) != 1 {
				continue
			}
			al, ok := binds[0].(*ssa.Alloc)
			if !ok || w.drainPoint(fn, al, pushFn) == nil {
				continue
			}
			pf.Cell = al
		case *ssa.Parameter:
			for i, q := range c.Params {
				if q == x {
					pf.CellArg = i
				}
			}
		}
		out = append(out, pf)
	}
	return out
}

// drainPoint: the place in fn where the cell's records are pushed, one pushFn(elem...) per
// element: the header of a loop over the cell in fn itself, or fn's call of a helper that
// receives the cell (its value or address) and loops over it. nil: not drained.
func (w *World) drainPoint(fn *ssa.Function, cell *ssa.Alloc, pushFn *ssa.Function) ssa.Instruction {
	oncePerElem := func(f *ssa.Function, l *loopInfo) bool {
		var body *ssa.BasicBlock
		for _, s := range l.Header.Succs {
			if l.Blocks[s] {
				body = s
			}
		}
		if body == nil {
			return false
		}
		good := true
		n, _ := w.enumPaths(f, pathOpts{Start: body, StopAt: func(b *ssa.BasicBlock) bool { return b == l.Header }}, func(p *Path) {
			c := 0
			for _, ev := range p.Events {
				if call, ok := ev.In.(*ssa.Call); ok && call.Call.StaticCallee() == pushFn {
					c++
				}
			}
			if c != 1 || p.Exit != "stop" {
				good = false
			}
		})
		return good && n > 0
	}
	// the slice a loop ranges over: header compares the index with len(x)
	rangedSlice := func(l *loopInfo) ssa.Value {
		for _, in := range l.Header.Instrs {
			if bin, ok := in.(*ssa.BinOp); ok && bin.Op == token.LSS {
				if c, ok := bin.Y.(*ssa.Call); ok && isBuiltinCall(&c.Call, "len") {
					return c.Call.Args[0]
				}
			}
		}
		return nil
	}
	isCellLoad := func(v ssa.Value) bool {
		ld, ok := v.(*ssa.UnOp)
		return ok && ld.Op == token.MUL && ld.X == ssa.Value(cell)
	}
	for _, l := range naturalLoops(fn) {
		if x := rangedSlice(l); x != nil && isCellLoad(x) && oncePerElem(fn, l) {
			return l.Header.Instrs[0]
		}
	}
	for _, b := range fn.Blocks {
		for _, in := range b.Instrs {
			call, ok := in.(*ssa.Call)
			if !ok {
				continue
			}
			d := call.Call.StaticCallee()
			if d == nil || d.Blocks == nil || d.Pkg != fn.Pkg || w.anchors()[d] {
				continue
			}
			for i, a := range call.Call.Args {
				if i >= len(d.Params) || !(isCellLoad(a) || a == ssa.Value(cell)) {
					continue
				}
				par := d.Params[i]
				for _, l := range naturalLoops(d) {
					x := rangedSlice(l)
					if x == nil {
						continue
					}
					if ld, ok := x.(*ssa.UnOp); ok && ld.Op == token.MUL {
						x = ld.X
					}
					if x == ssa.Value(par) && oncePerElem(d, l) {
						return in
					}
				}
			}
		}
	}
	return nil
}

func (w *World) analyseFlush() *flushInfo {
	fi := &flushInfo{Fn: w.flushFn(), PushFn: w.heapPushFn()}
	if fi.Fn == nil {
		fi.Undecided = "flush (the function receiving from Bar.frameCh) not found"
		return fi
	}
	if fi.PushFn == nil {
		fi.Undecided = "heap push request constructor not found"
		return fi
	}
	fi.Pend = w.pendingFns(fi.Fn, fi.PushFn)
	var rangeRecv *commOp
	for _, il := range w.iterLoops(fi.Fn) {
		if il.Fn == fi.Fn && il.Loop != nil && il.Body != nil {
			rangeRecv = il.Op
			fi.Header = il.Loop.Header
			fi.Body = il.Body
		}
	}
	if rangeRecv == nil {
		fi.Undecided = "no range over the ordered iterator in flush"
		return fi
	}
	// iterated bar = extract #0 of the range receive
	for _, ref := range *rangeRecv.Instr.(*ssa.UnOp).Referrers() {
		if ex, ok := ref.(*ssa.Extract); ok && ex.Index == 0 {
			fi.Bar = ex
		}
	}
	for _, op := range w.Comm().byFn[fi.Fn] {
		if op.Kind == "recv" && op.Class.only("Bar.frameCh") {
			fi.Frame = op.Instr.(*ssa.UnOp)
		}
	}
	if fi.Bar == nil || fi.Frame == nil {
		fi.Undecided = "iterated bar / received frame not identified"
		return fi
	}
	for _, in := range fi.Header.Instrs {
		if phi, ok := in.(*ssa.Phi); ok {
			if types.Identical(phi.Type(), types.Universe.Lookup("error").Type()) {
				fi.ErrPhi = phi
			}
		}
	}
	// the writer's Flush call: its argument is len(collected rows) - popped rows; both are header phis
	for _, b := range fi.Fn.Blocks {
		for _, in := range b.Instrs {
			c, ok := in.(*ssa.Call)
			if !ok {
				continue
			}
			sc := c.Call.StaticCallee()
			if sc == nil || sc.Name() != "Flush" || sc.Signature.Recv() == nil || typeName(sc.Signature.Recv().Type()) != "cwriter.Writer" {
				continue
			}
			fi.FlushCall = c
			arg := w.origin(c.Call.Args[1])
			if sub, ok := arg.(*ssa.BinOp); ok && sub.Op == token.SUB {
				if phi, ok := w.origin(sub.Y).(*ssa.Phi); ok && phi.Block() == fi.Header {
					fi.PopCount = phi
				}
				if lc, ok := w.origin(sub.X).(*ssa.Call); ok && isBuiltinCall(&lc.Call, "len") {
					if phi, ok := lc.Call.Args[0].(*ssa.Phi); ok && phi.Block() == fi.Header {
						fi.RowsPhi = phi
					}
				}
			}
		}
	}
	isSelfBar := func(v Val) bool { return stripConv(v.V) == fi.Bar }
	var opaque []*ssa.Function
	pendOf := map[*ssa.Function]pendFn{}
	for _, pf := range fi.Pend {
		opaque = append(opaque, pf.Fn)
		pendOf[pf.Fn] = pf
	}
	var cells []*ssa.Alloc
	_, over := w.enumPaths(fi.Fn, pathOpts{InlineDepth: 2, Inline: w.helperInline(fi.Fn, opaque...), Start: fi.Body, StopAt: func(b *ssa.BasicBlock) bool { return b == fi.Header }}, func(p *Path) {
		fp := &flushPath{P: p, Shutdown: -1}
		if p.Exit != "stop" {
			fp.ExitsEarly = true
		}
		setTri := func(t *tri, v bool) {
			if v {
				*t = triTrue
			} else {
				*t = triFalse
			}
		}
		notOne, notTwo := false, false
		for _, a := range p.Atoms {
			c := p.cmpOf(a)
			if c.Op == token.ILLEGAL {
				x := Val{stripConv(c.X.V), c.X.F, c.X.E}
				switch {
				case isLoad(x, tPState, "popCompleted"):
					setTri(&fp.PopMode, c.Pol)
				case isLoad(x, tFrame, "noPop"):
					setTri(&fp.NoPop, c.Pol)
				case isLoad(x, tFrame, "rmOnComplete"):
					setTri(&fp.RmOnCompl, c.Pol)
				default:
					if ex, ok := x.V.(*ssa.Extract); ok && ex.Index == 1 {
						if lk, ok := ex.Tuple.(*ssa.Lookup); ok && lk.CommaOk && isLoad(Val{V: lk.X}, tPState, "queueBars") && stripConv(p.R(Val{lk.Index, x.F, x.E}).V) == fi.Bar {
							setTri(&fp.LookupOK, c.Pol)
							fp.LookupVal = lk
						}
					}
				}
				continue
			}
			x, y := Val{stripConv(c.X.V), c.X.F, c.X.E}, c.Y
			// err != nil
			if (c.Op == token.NEQ || c.Op == token.EQL) && isNilConst(y.V) {
				isNeq := c.Op == token.NEQ
				if isLoad(x, tFrame, "err") {
					setTri(&fp.FrameErr, isNeq)
				} else if fi.ErrPhi != nil && x.V == ssa.Value(fi.ErrPhi) {
					setTri(&fp.ErrSeen, isNeq)
				}
			}
			if isLoad(x, tFrame, "shutdown") {
				if k, ok := constInt(y.V); ok {
					switch {
					case c.Op == token.EQL:
						fp.Shutdown = int(k)
					case c.Op == token.NEQ && k == 1:
						notOne = true
					case c.Op == token.NEQ && k == 2:
						notTwo = true
					}
				}
			}
		}
		if fp.Shutdown == -1 && notOne && notTwo {
			fp.Shutdown = 0
		}
		for _, ev := range p.Events {
			call, ok := ev.In.(*ssa.Call)
			if !ok {
				continue
			}
			sc := call.Call.StaticCallee()
			switch {
			case sc == fi.PushFn && len(call.Call.Args) == 3:
				b := p.val(ev, call.Call.Args[1])
				fp.Retains = append(fp.Retains, retainEv{ev.Idx, b, p.val(ev, call.Call.Args[2]), isSelfBar(b)})
			case sc != nil && pendOf[sc].Fn != nil:
				pf := pendOf[sc]
				if pf.BarArg >= len(call.Call.Args) || pf.SyncArg >= len(call.Call.Args) {
					break
				}
				b := p.val(ev, call.Call.Args[pf.BarArg])
				fp.Retains = append(fp.Retains, retainEv{ev.Idx, b, p.val(ev, call.Call.Args[pf.SyncArg]), isSelfBar(b)})
				if pf.CellArg >= 0 && pf.CellArg < len(call.Call.Args) {
					al, _ := w.origin(p.val(ev, call.Call.Args[pf.CellArg]).V).(*ssa.Alloc)
					if al == nil || al.Parent() != fi.Fn {
						fi.Undecided = "a bar is remembered in a list that is not a local of flush"
					} else {
						cells = append(cells, al)
					}
				} else if pf.Cell != nil {
					cells = append(cells, pf.Cell)
				}
			case isBuiltinCall(&call.Call, "delete"):
				if isLoad(Val{V: call.Call.Args[0]}, tPState, "queueBars") && stripConv(p.val(ev, call.Call.Args[1]).V) == fi.Bar {
					fp.DeleteIdx = append(fp.DeleteIdx, ev.Idx)
				}
			default:
				if f, ok := loadedField(call.Call.Value); ok && f.Owner == tBar && f.Name == "cancel" && stripConv(p.val(ev, f.Base).V) == fi.Bar {
					fp.CancelIdx = append(fp.CancelIdx, ev.Idx)
				}
			}
		}
		// popped-row accounting: the header's popCount phi takes popCount + x on this path
		if fi.PopCount != nil && len(p.Blocks) > 0 && p.Exit == "stop" {
			last := p.Blocks[len(p.Blocks)-1]
			for i, pred := range fi.Header.Preds {
				if pred == last {
					if add, ok := fi.PopCount.Edges[i].(*ssa.BinOp); ok && add.Op == token.ADD && (add.X == ssa.Value(fi.PopCount) || add.Y == ssa.Value(fi.PopCount)) {
						fp.PopAccum = true
					}
				}
			}
		}
		fi.Paths = append(fi.Paths, fp)
	})
	fi.Over = over
	// one pending list, drained by flush
	for _, c := range cells {
		if c != cells[0] {
			fi.Undecided = "bars are remembered in more than one pending list"
		}
	}
	if len(cells) > 0 && fi.Undecided == "" {
		fi.DrainAt = w.drainPoint(fi.Fn, cells[0], fi.PushFn)
		if fi.DrainAt == nil {
			fi.Undecided = "the list of remembered bars is never pushed back to the heap (no loop in flush, or in a helper it calls, that pushes every element once)"
		}
	}
	return fi
}

func (fp *flushPath) selfRetains() int {
	n := 0
	for _, r := range fp.Retains {
		if r.Self {
			n++
		}
	}
	return n
}

func (fp *flushPath) label() string {
	t := func(x tri) string { return [...]string{"?", "F", "T"}[x] }
	return fmt.Sprintf("errSeen=%s frameErr=%s shutdown=%d lookup=%s pop=%s noPop=%s rm=%s", t(fp.ErrSeen), t(fp.FrameErr), fp.Shutdown, t(fp.LookupOK), t(fp.PopMode), t(fp.NoPop), t(fp.RmOnCompl))
}

// popped: the path is in pop mode for a poppable bar.
func (fp *flushPath) popped() bool { return fp.PopMode == triTrue && fp.NoPop == triFalse }
func (fp *flushPath) notPopped() bool {
	return fp.PopMode == triFalse || fp.NoPop == triTrue
}

// ruleFlushOutcome (C05.R1): per bar and cycle, at most one retain; exactly one unless the
// path carries a drop reason.
func ruleFlushOutcome(w *World, r *Report, pfx string, fi *flushInfo) {
	rule := pfx + ".F-RETAIN"
	if fi.Undecided != "" {
		r.Undecided(rule, "flush collection loop", "", fi.Undecided)
		return
	}
	if fi.Over {
		r.Undecided(rule, "flush collection loop", w.pos(fi.Fn.Pos()), "path cap")
		return
	}
	r.Inv[pfx+".flush_body_paths"] = len(fi.Paths)
	bad := ""
	var wit []string
	fail := func(fp *flushPath, msg string) {
		if bad == "" {
			bad = msg + " [" + fp.label() + "]"
			wit = fp.P.describe()
		}
	}
	seen := map[string]bool{}
	for _, fp := range fi.Paths {
		if fp.ExitsEarly {
			fail(fp, "flush leaves its collection loop early")
			continue
		}
		n := fp.selfRetains()
		if n > 1 {
			fail(fp, "a bar is pushed back twice in one cycle (it would be drawn twice per frame)")
			continue
		}
		switch {
		case fp.ErrSeen == triTrue:
			seen["discard"] = true
			if n != 1 {
				fail(fp, "after an earlier frame error the bar is not retained (it vanishes from the container and from the shutdown list)")
			}
		case fp.FrameErr == triTrue:
			seen["frameErr"] = true
			if n != 0 {
				fail(fp, "a bar whose frame failed is pushed back")
			}
		case fp.FrameErr == triUnknown:
			fail(fp, "the frame's error is not tested")
		case fp.Shutdown == 1 && fp.LookupOK == triTrue:
			seen["swap"] = true
			if n != 0 {
				fail(fp, "a predecessor replaced by its queued successor is retained as well")
			}
		case fp.Shutdown == 1 && fp.LookupOK == triUnknown:
			fail(fp, "at the cancelling frame the queue of successors is not consulted")
		case fp.Shutdown == 1 && fp.popped():
			seen["pop1"] = true
			if n != 1 {
				fail(fp, "a bar popped at its cancelling frame must be retained once more (to be drawn on top)")
			}
		case fp.Shutdown == 1 && fp.notPopped() && fp.RmOnCompl == triTrue:
			seen["rm"] = true
			if n != 0 {
				fail(fp, "a bar to be removed on completion is retained after its cancelling frame")
			}
		case fp.Shutdown == 1 && fp.notPopped() && fp.RmOnCompl == triFalse:
			seen["keep1"] = true
			if n != 1 {
				fail(fp, "a finished bar that stays in the container is not retained at its cancelling frame")
			}
		case fp.Shutdown == 1:
			fail(fp, "cancelling-frame path does not decide pop mode / removal")
		case fp.Shutdown == 2 && fp.popped():
			seen["pop2"] = true
			if n != 0 {
				fail(fp, "a popped bar is retained after it was written above the bars (it would be drawn again)")
			}
		case fp.Shutdown == 2 && fp.notPopped():
			seen["keep2"] = true
			if n != 1 {
				fail(fp, "a finished bar that is not popped is lost at its third terminal frame")
			}
		case fp.Shutdown == 2:
			fail(fp, "third-terminal-frame path does not decide pop mode")
		case fp.Shutdown == 0:
			seen["default"] = true
			if n != 1 {
				fail(fp, "a running (or long finished, unpopped) bar is not retained exactly once")
			}
		default:
			fail(fp, "the frame's shutdown counter is not tested against 1 and 2")
		}
	}
	for _, k := range []string{"discard", "frameErr", "swap", "pop1", "rm", "keep1", "pop2", "keep2", "default"} {
		if !seen[k] && bad == "" {
			bad = "flush has no path for outcome class '" + k + "' (the per-bar decision table is incomplete)"
		}
	}
	r.Check(bad == "", rule, "flush collection loop", w.instrPos(fi.Body.Instrs[0]), fmt.Sprintf("%d body paths: retained at most once, exactly once unless a drop reason holds", len(fi.Paths)), bad, wit...)
}

// ruleTerminalCancel (C01.R2c): every path with shutdown == 1 calls the bar's cancel; paths with an
// own frame error cancel too; no other path cancels.
func ruleTerminalCancel(w *World, r *Report, pfx string, fi *flushInfo) {
	rule := pfx + ".F-CANCEL"
	if fi.Undecided != "" || fi.Over {
		r.Undecided(rule, "flush collection loop", "", orStr(fi.Undecided, "path cap"))
		return
	}
	bad := ""
	saw := false
	for _, fp := range fi.Paths {
		if fp.Shutdown == 1 {
			saw = true
			if len(fp.CancelIdx) != 1 {
				bad = "the cancelling frame (shutdown counter 1) does not cancel the bar exactly once: its goroutine never exits and Wait never returns [" + fp.label() + "]"
			}
		} else if fp.FrameErr == triTrue && fp.ErrSeen != triTrue {
			if len(fp.CancelIdx) != 1 {
				bad = "a bar whose frame failed is not cancelled [" + fp.label() + "]"
			}
		} else if len(fp.CancelIdx) != 0 {
			bad = "a bar is cancelled on a path that is neither its cancelling frame nor a frame error (it would stop before its final state was drawn) [" + fp.label() + "]"
		}
	}
	r.Check(bad == "" && saw, rule, "flush collection loop", w.instrPos(fi.Body.Instrs[0]), "cancel exactly at the second terminal frame (and on frame errors)", orStr(bad, "no path for the cancelling frame"))
}

// ruleSuccessorSwap (C17.R4, C06d, C01.R6): when the cancelled bar has a queued successor: entry
// deleted, priority inherited before the push, successor pushed with sync=true.
func ruleSuccessorSwap(w *World, r *Report, pfx string, fi *flushInfo) {
	rule := pfx + ".F-SWAP"
	if fi.Undecided != "" || fi.Over {
		r.Undecided(rule, "flush collection loop", "", orStr(fi.Undecided, "path cap"))
		return
	}
	bad := ""
	saw := false
	for _, fp := range fi.Paths {
		// a retain of another bar is only allowed on the swap path
		var others []retainEv
		for _, rt := range fp.Retains {
			if !rt.Self {
				others = append(others, rt)
			}
		}
		isSwap := fp.Shutdown == 1 && fp.LookupOK == triTrue && fp.ErrSeen != triTrue && fp.FrameErr != triTrue
		if !isSwap {
			if len(others) != 0 {
				bad = "a bar other than the iterated one is pushed outside the successor swap [" + fp.label() + "]"
			}
			if len(fp.DeleteIdx) != 0 {
				bad = "the successor queue entry is deleted outside the successor swap [" + fp.label() + "]"
			}
			continue
		}
		saw = true
		if len(others) != 1 {
			bad = "the queued successor is not pushed exactly once when its predecessor is cancelled (it is never displayed and Wait never returns)"
			continue
		}
		rt := others[0]
		// it must be the looked-up value
		ex, ok := stripConv(rt.Bar.V).(*ssa.Extract)
		if !ok || ex.Tuple != fp.LookupVal || ex.Index != 0 {
			bad = "the bar pushed at the swap is not the successor found in the queue"
			continue
		}
		if bv, ok := constBool(rt.Sync.V); !ok || !bv {
			bad = "the successor is pushed without the sync flag: with an unchanged heap length the width matrices stay stale and the new bar blocks forever in its first synchronised decorator"
			continue
		}
		if len(fp.DeleteIdx) != 1 {
			bad = "the successor's queue entry is not deleted exactly once"
			continue
		}
		// priority inherited before the push
		inherited := false
		for _, ev := range fp.P.Events[:rt.Idx] {
			f, v, ok := fp.P.storeField(ev)
			if !ok || f.Owner != tBar || f.Name != "priority" {
				continue
			}
			if bx, ok := stripConv(fp.P.val(ev, f.Base).V).(*ssa.Extract); ok && bx.Tuple == fp.LookupVal {
				if lf, ok := loadedField(stripConv(v.V)); ok && lf.Owner == tBar && lf.Name == "priority" && stripConv(fp.P.R(Val{lf.Base, v.F, v.E}).V) == fi.Bar {
					inherited = true
				}
			}
		}
		if !inherited {
			bad = "the successor does not take over the predecessor's current priority before it is pushed (it would not appear in the predecessor's place)"
		}
	}
	r.Check(bad == "" && saw, rule, "flush successor swap", w.instrPos(fi.Body.Instrs[0]), "deleted, priority inherited, pushed once with sync=true", orStr(bad, "no successor-swap path in flush"))
}

// rulePopMode (C18, C06e): pop bookkeeping.
func rulePopMode(w *World, r *Report, pfx string, fi *flushInfo) {
	rule := pfx + ".F-POP"
	if fi.Undecided != "" || fi.Over {
		r.Undecided(rule, "flush collection loop", "", orStr(fi.Undecided, "path cap"))
		return
	}
	bad := ""
	saw1, saw2 := false, false
	for _, fp := range fi.Paths {
		p := fp.P
		// stores to the iterated bar's priority and to popPriority on this path
		var prioStores, popPrioStores []fieldStore
		for _, ev := range p.Events {
			f, v, ok := p.storeField(ev)
			if !ok {
				continue
			}
			if f.Owner == tBar && f.Name == "priority" && stripConv(p.val(ev, f.Base).V) == fi.Bar {
				prioStores = append(prioStores, fieldStore{ev.Idx, ev, f, v})
			}
			if f.Owner == tPState && f.Name == "popPriority" {
				popPrioStores = append(popPrioStores, fieldStore{ev.Idx, ev, f, v})
			}
		}
		isPop1 := fp.Shutdown == 1 && fp.LookupOK == triFalse && fp.popped() && fp.ErrSeen != triTrue && fp.FrameErr != triTrue
		isPop2 := fp.Shutdown == 2 && fp.popped() && fp.ErrSeen != triTrue && fp.FrameErr != triTrue
		if isPop1 {
			saw1 = true
			okPrio := len(prioStores) == 1 && isLoad(Val{V: stripConv(prioStores[0].Val.V)}, tPState, "popPriority")
			okInc := false
			if len(popPrioStores) == 1 {
				if incrOf(popPrioStores[0].Val.V, tPState, "popPriority") {
					okInc = true
				}
			}
			if !okPrio {
				bad = "a bar popped at its cancelling frame does not take the pop priority (it must rise above all running bars)"
			} else if !okInc || popPrioStores[0].Idx < prioStores[0].Idx {
				bad = "the pop priority is not advanced by one after being assigned (bars finishing later must stay below earlier ones)"
			}
		} else {
			if len(prioStores) != 0 {
				bad = "the iterated bar's priority is rewritten outside the pop arm [" + fp.label() + "]"
			}
			if len(popPrioStores) != 0 {
				bad = "the pop priority is modified outside the pop arm [" + fp.label() + "]"
			}
		}
		if isPop2 {
			saw2 = true
			if !fp.PopAccum {
				bad = "the rows of a popped bar are not added to the popped-row count (the next cursor-up would overwrite them)"
			}
		} else if fp.PopAccum {
			bad = "rows are counted as popped on a path where the bar is not being popped [" + fp.label() + "]"
		}
	}
	r.Check(bad == "" && saw1 && saw2, rule, "flush pop arms", w.instrPos(fi.Body.Instrs[0]), "pop priority assigned then advanced; popped rows accounted exactly on the pop-out arm", orStr(bad, "pop arms missing"))
	// the accumulated amount is the used-row counter: popCount edge = popCount + usedRows where
	// usedRows is incremented in the block that appends to the row list
	if fi.PopCount != nil {
		okUsed := false
		for _, e := range fi.PopCount.Edges {
			add, ok := e.(*ssa.BinOp)
			if !ok || add.Op != token.ADD {
				continue
			}
			other := add.Y
			if add.Y == ssa.Value(fi.PopCount) {
				other = add.X
			}
			if usedRowsCounter(other) {
				okUsed = true
			}
			// the counter returned by a private helper that fits the bar's rows
			if ex, ok := other.(*ssa.Extract); ok {
				if call, ok := ex.Tuple.(*ssa.Call); ok {
					if h := call.Call.StaticCallee(); h != nil && h.Blocks != nil && w.unit(fi.Fn)[h] {
						all, nRet := true, 0
						for _, b := range h.Blocks {
							if ret, ok := b.Instrs[len(b.Instrs)-1].(*ssa.Return); ok && ex.Index < len(ret.Results) {
								nRet++
								if !usedRowsCounter(ret.Results[ex.Index]) {
									all = false
								}
							}
						}
						if all && nRet > 0 {
							okUsed = true
						}
					}
				}
			}
		}
		r.Check(okUsed, pfx+".F-POPROWS", "popped-row amount", w.pos(fi.PopCount.Pos()), "the amount is the per-bar counter incremented with each appended row", "the popped-row count is not advanced by the number of rows this bar actually contributed")
	} else {
		r.Undecided(pfx+".F-POPROWS", "popped-row amount", w.pos(fi.Fn.Pos()), "popped-row counter not identified")
	}
}

// usedRowsCounter: v is a loop-carried counter that is incremented by 1 exactly in blocks that
// also append to a slice (rows = append(rows, row); usedRows++).
func usedRowsCounter(v ssa.Value) bool {
	phi, ok := v.(*ssa.Phi)
	if !ok {
		return false
	}
	seen := map[*ssa.Phi]bool{}
	incBlocks := []*ssa.BasicBlock{}
	var walk func(p *ssa.Phi) bool
	walk = func(p *ssa.Phi) bool {
		if seen[p] {
			return true
		}
		seen[p] = true
		for _, e := range p.Edges {
			switch x := e.(type) {
			case *ssa.Const:
				if k, ok := constInt(x); !ok || k != 0 {
					return false
				}
			case *ssa.Phi:
				if !walk(x) {
					return false
				}
			case *ssa.BinOp:
				k, isK := constInt(x.Y)
				if x.Op != token.ADD || !isK || k != 1 {
					return false
				}
				if px, ok := x.X.(*ssa.Phi); !ok || !walk(px) {
					return false
				}
				incBlocks = append(incBlocks, x.Block())
			default:
				return false
			}
		}
		return true
	}
	if !walk(phi) || len(incBlocks) == 0 {
		return false
	}
	for _, b := range incBlocks {
		hasAppend := false
		for _, in := range b.Instrs {
			if c, ok := in.(*ssa.Call); ok && isBuiltinCall(&c.Call, "append") {
				hasAppend = true
			}
		}
		if !hasAppend {
			return false
		}
	}
	return true
}
