package main

import (
	"go/token"
	"go/types"
	"strings"

	"golang.org/x/tools/go/ssa"
)

// offer: a select state that sends a closure on an inbox channel.
type offer struct {
	Fn      *ssa.Function // the function making the offer (for an API method: the method itself)
	Sel     *ssa.Select
	State   int
	Class   classSet
	Closure *ssa.Function
	MC      *ssa.MakeClosure
	SelFn   *ssa.Function       // function containing the select (Fn, or a private helper Fn hands the closure to)
	Via     ssa.CallInstruction // the call in Fn that hands the closure to SelFn (nil when direct)
}

// pathOpts for enumerating the offering function so that the select is on the path.
func (o *offer) opts(w *World) pathOpts {
	if o.SelFn == o.Fn || o.SelFn == nil {
		return pathOpts{}
	}
	selFn := o.SelFn
	return pathOpts{InlineDepth: 1, Inline: func(_ ssa.CallInstruction, callee *ssa.Function) bool { return callee == selFn }}
}

func (w *World) directOffers(fn *ssa.Function) []offer {
	var out []offer
	for _, op := range w.Comm().byFn[fn] {
		if op.Kind != "select" {
			continue
		}
		sel := op.Instr.(*ssa.Select)
		for i, st := range op.States {
			if st.Dir != types.SendOnly {
				continue
			}
			o := offer{Fn: fn, SelFn: fn, Sel: sel, State: i, Class: st.Class}
			if mc, ok := st.Send.(*ssa.MakeClosure); ok {
				o.MC = mc
				o.Closure = boundTarget(mc.Fn.(*ssa.Function))
			}
			out = append(out, o)
		}
	}
	return out
}

// offersIn lists the inbox offers made in fn: select states that send a function value, in fn
// itself or in a private helper of the same package to which fn hands the value as an argument
// (`b.operate(func(s *bState) {...})` with `func (b *Bar) operate(op) { select { case b.inbox <- op: ... } }`).
func (w *World) offersIn(fn *ssa.Function) []offer {
	out := w.directOffers(fn)
	for _, b := range fn.Blocks {
		for _, in := range b.Instrs {
			call, ok := in.(*ssa.Call)
			if !ok {
				continue
			}
			h := call.Call.StaticCallee()
			if h == nil || h == fn || h.Blocks == nil || h.Pkg != fn.Pkg || h.Parent() != nil || token.IsExported(h.Name()) {
				continue
			}
			for _, o := range w.directOffers(h) {
				if o.Closure != nil {
					continue // the helper's own closure: not an offer of fn
				}
				par, ok := o.Sel.States[o.State].Send.(*ssa.Parameter)
				if !ok {
					continue
				}
				for i, q := range h.Params {
					if q != par || i >= len(call.Call.Args) {
						continue
					}
					d := offer{Fn: fn, SelFn: h, Via: call, Sel: o.Sel, State: o.State, Class: o.Class}
					if mc, ok := call.Call.Args[i].(*ssa.MakeClosure); ok {
						d.MC = mc
						d.Closure = boundTarget(mc.Fn.(*ssa.Function))
					}
					out = append(out, d)
				}
			}
		}
	}
	return out
}

// apiClosure: the closure offered on an inbox by the exported method spec ("mpb.(*Bar).SetTotal").
func (w *World) apiClosure(r *Report, spec string) (*ssa.Function, *offer) {
	fn := w.Func(spec)
	if fn == nil {
		r.Unresolved("anchor", "API:"+spec, "exported method not found")
		return nil, nil
	}
	offs := w.offersIn(fn)
	var withClo []offer
	for _, o := range offs {
		if o.Closure != nil {
			withClo = append(withClo, o)
		}
	}
	if len(withClo) != 1 {
		r.Undecided("anchor", "API:"+spec, w.pos(fn.Pos()), "expected exactly one closure offered on an inbox by this method")
		return nil, nil
	}
	return withClo[0].Closure, &withClo[0]
}

// selectArmBlocks: for a Select instruction, the block reached when state i fired.
// The SSA shape is: t = select ...; idx = extract t #0; if idx == 0 goto A else next; ...
// Returns map state -> first block of the arm (and -1 -> default/else block if any).
func selectArms(sel *ssa.Select) map[int]*ssa.BasicBlock {
	arms := map[int]*ssa.BasicBlock{}
	var idxVal ssa.Value
	for _, ref := range *sel.Referrers() {
		if ex, ok := ref.(*ssa.Extract); ok && ex.Index == 0 {
			idxVal = ex
		}
	}
	if idxVal == nil {
		// single-state blocking select may be lowered differently; none in practice
		return arms
	}
	for _, ref := range *idxVal.Referrers() {
		bin, ok := ref.(*ssa.BinOp)
		if !ok {
			continue
		}
		k, ok := constInt(bin.Y)
		if !ok {
			continue
		}
		for _, r2 := range *bin.Referrers() {
			if ifi, ok := r2.(*ssa.If); ok {
				arms[int(k)] = ifi.Block().Succs[0]
				// the last comparison's else-branch is the remaining state (or panic for blocking select)
				arms[-1-int(k)] = ifi.Block().Succs[1]
			}
		}
	}
	return arms
}

// selectArmOf: which select state's arm does atom a assert (sel index == k with polarity)?
func (p *Path) selectArm(a Atom) (*ssa.Select, int, bool) {
	c := p.cmpOf(a)
	if c.Op != 0 && c.Y.V != nil {
		if ex, ok := c.X.V.(*ssa.Extract); ok && ex.Index == 0 {
			if sel, ok := ex.Tuple.(*ssa.Select); ok {
				if k, ok := constInt(c.Y.V); ok {
					return sel, int(k), c.Op.String() == "=="
				}
			}
		}
	}
	return nil, 0, false
}

// armTaken: on path p, which state of select sel fired (-1 unknown). A blocking select
// with n states compares the index with 0..n-2; falling through all means state n-1.
func (p *Path) armTaken(sel *ssa.Select) int {
	neg := map[int]bool{}
	for _, a := range p.Atoms {
		s, k, eq := p.selectArm(a)
		if s != sel {
			continue
		}
		if eq {
			return k
		}
		neg[k] = true
	}
	n := len(sel.States)
	if sel.Blocking {
		all := true
		for i := 0; i < n-1; i++ {
			if !neg[i] {
				all = false
			}
		}
		if all && n >= 1 && !neg[n-1] {
			return n - 1
		}
	} else {
		all := true
		for i := 0; i < n; i++ {
			if !neg[i] {
				all = false
			}
		}
		if all {
			return n // default
		}
	}
	return -1
}

// armTakenIn: like armTaken but only considers atoms of the given frame (a select inside an inlined helper).
func (p *Path) armTakenIn(sel *ssa.Select, f *Frame) int {
	q := *p
	q.Atoms = nil
	for _, a := range p.Atoms {
		if a.Cond.F == f {
			q.Atoms = append(q.Atoms, a)
		}
	}
	return q.armTaken(sel)
}

// boundTarget: for the synthetic wrapper of a method value (x.m) the method itself; any other function unchanged.
func boundTarget(fn *ssa.Function) *ssa.Function {
	if fn == nil || !strings.HasPrefix(fn.Synthetic, "bound method wrapper") {
		return fn
	}
	for _, b := range fn.Blocks {
		for _, in := range b.Instrs {
			if c, ok := in.(*ssa.Call); ok {
				if sc := c.Call.StaticCallee(); sc != nil && sc.Blocks != nil {
					return sc
				}
			}
		}
	}
	return fn
}
