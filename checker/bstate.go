package main

import (
	"go/token"

	"golang.org/x/tools/go/ssa"
)

const (
	tBState = "mpb.bState"
	tPState = "mpb.pState"
	tBar    = "mpb.Bar"
	tFrame  = "mpb.renderFrame"
)

// triggerFn = the bState method that stores triggerComplete <- true and either calls the
// bar's cancel or spawns the early refresh (found by what it does).
func (w *World) triggerFn() *ssa.Function {
	var out []*ssa.Function
	for _, fn := range w.ModFns {
		if fn.Parent() != nil || fn.Pkg != w.Mpb {
			continue
		}
		if fn.Signature.Recv() == nil || typeName(fn.Signature.Recv().Type()) != tBState {
			continue
		}
		stores, spawnsOrCancels := false, false
		for _, b := range fn.Blocks {
			for _, in := range b.Instrs {
				switch x := in.(type) {
				case *ssa.Store:
					if f, ok := fieldOf(x.Addr); ok && f.Owner == tBState && f.Name == "triggerComplete" {
						if bv, ok := constBool(x.Val); ok && bv {
							stores = true
						}
					}
				case *ssa.Go:
					spawnsOrCancels = true
				case *ssa.Call:
					if isLoad(Val{V: x.Call.Value}, tBar, "cancel") {
						spawnsOrCancels = true
					}
				}
			}
		}
		if stores && spawnsOrCancels {
			out = append(out, fn)
		}
	}
	if len(out) == 1 {
		return out[0]
	}
	return nil
}

// idxOfVal: event index of the instruction defining v on this path (-1 if not an instruction on the path).
func (p *Path) idxOfVal(v Val) int {
	in, ok := stripConv(v.V).(ssa.Instruction)
	if !ok {
		return -1
	}
	best := -1
	for _, ev := range p.Events {
		if ev.In == in && ev.F == v.F {
			best = ev.Idx // last occurrence
		}
	}
	return best
}

// boolAtomAfter: is the boolean field owner.name tested (load after event index `after`)? returns (decided, polarity).
func (p *Path) boolFieldAtom(after int, owner, name string) (bool, bool) {
	for _, a := range p.Atoms {
		c := p.cmpOf(a)
		if c.Op != token.ILLEGAL {
			continue
		}
		if !isLoad(Val{stripConv(c.X.V), c.X.F, c.X.E}, owner, name) {
			continue
		}
		if p.idxOfVal(c.X) > after {
			return true, c.Pol
		}
	}
	return false, false
}

// cmpFieldsAfter: the path compares load(owner.a) with load(owner.b), both loaded after `after`;
// returns the operator normalised to "a op b".
func (p *Path) cmpFieldsAfter(after int, owner, a, b string) (token.Token, bool) {
	for _, at := range p.Atoms {
		c := p.cmpOf(at)
		if c.Op == token.ILLEGAL {
			continue
		}
		xa := isLoad(Val{stripConv(c.X.V), c.X.F, c.X.E}, owner, a)
		yb := isLoad(Val{stripConv(c.Y.V), c.Y.F, c.Y.E}, owner, b)
		xb := isLoad(Val{stripConv(c.X.V), c.X.F, c.X.E}, owner, b)
		ya := isLoad(Val{stripConv(c.Y.V), c.Y.F, c.Y.E}, owner, a)
		if xa && yb && p.idxOfVal(c.X) > after && p.idxOfVal(c.Y) > after {
			return c.Op, true
		}
		if xb && ya && p.idxOfVal(c.X) > after && p.idxOfVal(c.Y) > after {
			return swapOp(c.Op), true
		}
	}
	return token.ILLEGAL, false
}

type fieldStore struct {
	Idx int
	Ev  Event
	F   fieldRef
	Val Val
}

// storesTo lists the stores to owner.name on the path, in order.
func (p *Path) storesTo(owner, name string) []fieldStore {
	var out []fieldStore
	for _, ev := range p.Events {
		if f, v, ok := p.storeField(ev); ok && f.Owner == owner && f.Name == name {
			out = append(out, fieldStore{ev.Idx, ev, f, v})
		}
	}
	return out
}

// callsTo lists event indices of calls (not go) whose static callee is fn.
func (p *Path) callsTo(fn *ssa.Function) []int {
	var out []int
	for _, ev := range p.Events {
		if c, ok := ev.In.(*ssa.Call); ok && c.Call.StaticCallee() == fn {
			out = append(out, ev.Idx)
		}
	}
	return out
}

func anyAfter(xs []int, after int) bool {
	for _, x := range xs {
		if x > after {
			return true
		}
	}
	return false
}

// noInline returns an Inline filter that keeps the named effect functions opaque.
func noInline(fns ...*ssa.Function) func(ssa.CallInstruction, *ssa.Function) bool {
	return func(_ ssa.CallInstruction, callee *ssa.Function) bool {
		for _, f := range fns {
			if f == callee {
				return false
			}
		}
		return true
	}
}
