package main

import (
	"fmt"
	"go/token"
	"go/types"
	"sort"
	"strings"

	"golang.org/x/tools/go/ssa"
)

// E2 (part 2) — actor confinement. For every access to a field of an actor-owned struct the
// provenance of the base pointer is traced (through parameters to the actual arguments at
// the resolved call sites, through captured variables, phis and single-assignment cells):
//
//	prepub    the object is still private to its constructor (access not reachable from a publication point)
//	owner     the pointer was handed to the owning actor (go-site argument of the owner loop / closure called by it)
//	postexit  the pointer was loaded from the published slot (Bar.bs) - only after the ready channel (C02.R2)
//	handover  the iterated bar inside flush's collection loop (heap loop is blocked handing it out) / a parked successor
//	other     anything else, in the roles of the accessing function
//
// CONFINE(T) is per field: if the field is written after publication, every other access must
// be by the owner, or a post-exit read of a field no post-exit continuation writes.

type access struct {
	In    ssa.Instruction
	Fn    *ssa.Function
	Field string
	Write bool
	Base  ssa.Value
	Whole bool // whole-struct load/store
}

type provKind string

const (
	pvPrepub   provKind = "prepub"
	pvOwner    provKind = "owner"
	pvPostexit provKind = "postexit"
	pvHandover provKind = "handover"
	pvOther    provKind = "other"
)

type prov struct {
	Kind provKind
	Fn   *ssa.Function // function in which the pointer was obtained (for roles)
}

type confiner struct {
	w        *World
	typ      string // "mpb.bState"
	owner    *ssa.Function
	memoP    map[*ssa.Parameter][]prov
	busy     map[ssa.Value]bool
	slot     [2]string                                // owner struct, field of the published slot (Bar.bs)
	handover func(v ssa.Value, fn *ssa.Function) bool // base is a hand-over object in fn
}

// collectAccesses lists every access to a field of the named struct type in the module.
func (w *World) collectAccesses(typ string) []access {
	var out []access
	st := (*types.Struct)(nil)
	for _, fn := range w.ModFns {
		for _, b := range fn.Blocks {
			for _, in := range b.Instrs {
				switch x := in.(type) {
				case *ssa.FieldAddr:
					if typeName(x.X.Type()) != typ {
						continue
					}
					name := structOf(x.X.Type()).Field(x.Field).Name()
					r, wr := addrUses(x, 0)
					if r {
						out = append(out, access{In: in, Fn: fn, Field: name, Write: false, Base: x.X})
					}
					if wr {
						out = append(out, access{In: in, Fn: fn, Field: name, Write: true, Base: x.X})
					}
				case *ssa.Field:
					if typeName(x.X.Type()) != typ {
						continue
					}
					// field of a struct value: the read happened where the value was loaded
				case *ssa.UnOp:
					if x.Op == token.MUL && typeName(x.X.Type()) == typ {
						if _, isPtr := x.X.Type().Underlying().(*types.Pointer); isPtr {
							if _, isStruct := x.Type().Underlying().(*types.Struct); isStruct {
								out = append(out, access{In: in, Fn: fn, Field: "*", Write: false, Base: x.X, Whole: true})
							}
						}
					}
				case *ssa.Store:
					if typeName(x.Addr.Type()) == typ {
						if p, isPtr := x.Addr.Type().Underlying().(*types.Pointer); isPtr {
							if _, isStruct := p.Elem().Underlying().(*types.Struct); isStruct {
								if _, isAlloc := x.Addr.(*ssa.Alloc); !isAlloc {
									out = append(out, access{In: in, Fn: fn, Field: "*", Write: true, Base: x.Addr, Whole: true})
								}
							}
						}
					}
				}
			}
		}
	}
	_ = st
	return out
}

// addrUses classifies how a field address is used: read / written (escapes count as both,
// except for sync.* fields whose methods synchronise themselves).
func addrUses(addr ssa.Value, depth int) (read, write bool) {
	if depth > 4 {
		return true, true
	}
	refs := addr.Referrers()
	if refs == nil {
		return
	}
	et := addr.Type().Underlying().(*types.Pointer).Elem()
	isSync := strings.HasPrefix(typeName(et), "sync.")
	for _, ref := range *refs {
		switch x := ref.(type) {
		case *ssa.UnOp:
			if x.Op == token.MUL {
				read = true
			}
		case *ssa.Store:
			if x.Addr == addr {
				write = true
			} else {
				read, write = true, true // address stored somewhere
			}
		case *ssa.FieldAddr:
			r, w2 := addrUses(x, depth+1)
			read, write = read || r, write || w2
		case *ssa.IndexAddr:
			r, w2 := addrUses(x, depth+1)
			read, write = read || r, write || w2
		case *ssa.DebugRef:
		case ssa.CallInstruction:
			if isSync {
				continue
			}
			read, write = true, true
		default:
			if isSync {
				continue
			}
			read, write = true, true
		}
	}
	return
}

// publicationInstrs: instructions in fn after which an object held in fn may be visible to
// another goroutine: go statements, sends, and calls of module functions that (transitively,
// without crossing go) contain a go or a send.
func (w *World) publicationInstrs(fn *ssa.Function) []ssa.Instruction {
	var out []ssa.Instruction
	for _, b := range fn.Blocks {
		for _, in := range b.Instrs {
			switch x := in.(type) {
			case *ssa.Go, *ssa.Send:
				out = append(out, in)
			case *ssa.Select:
				for _, s := range x.States {
					if s.Dir == types.SendOnly {
						out = append(out, in)
					}
				}
			case *ssa.Call:
				for _, c := range w.Callees(x) {
					if w.spawnsOrSends(c) {
						out = append(out, in)
						break
					}
				}
			}
		}
	}
	return out
}

func (w *World) spawnsOrSends(fn *ssa.Function) bool {
	if w.spawnMemo == nil {
		w.spawnMemo = map[*ssa.Function]bool{}
	}
	if v, ok := w.spawnMemo[fn]; ok {
		return v
	}
	w.spawnMemo[fn] = false
	res := false
	for f := range w.reachNoGo([]*ssa.Function{fn}) {
		if !w.modSet[f] {
			continue
		}
		for _, b := range f.Blocks {
			for _, in := range b.Instrs {
				switch in.(type) {
				case *ssa.Go, *ssa.Send:
					res = true
				}
			}
		}
	}
	w.spawnMemo[fn] = res
	return res
}

func (w *World) afterPublication(in ssa.Instruction) bool {
	for _, p := range w.publicationInstrs(in.Parent()) {
		if p == in {
			continue
		}
		if instrReaches(p, in) {
			return true
		}
	}
	return false
}

// provOf traces where a pointer to the confined type came from.
func (c *confiner) provOf(v ssa.Value, at ssa.Instruction) []prov {
	if c.busy == nil {
		c.busy = map[ssa.Value]bool{}
	}
	fn := at.Parent()
	v = c.w.origin(v)
	if c.busy[v] {
		return nil
	}
	c.busy[v] = true
	defer delete(c.busy, v)
	if c.handover != nil && c.handover(v, fn) {
		return []prov{{pvHandover, fn}}
	}
	switch x := v.(type) {
	case *ssa.Alloc:
		if c.w.afterPublication(at) {
			return []prov{{pvOther, fn}}
		}
		return []prov{{pvPrepub, fn}}
	case *ssa.Parameter:
		return c.provOfParam(x)
	case *ssa.FreeVar:
		var out []prov
		if c.isGoTarget(x.Parent()) {
			// the pointer crosses a go statement: whatever its origin, the access runs in another goroutine
			return []prov{{pvOther, x.Parent()}}
		}
		for _, b := range freeVarBindings(x) {
			// the binding lives in the parent function
			mcAt := at
			for _, bb := range x.Parent().Parent().Blocks {
				for _, in := range bb.Instrs {
					if mc, ok := in.(*ssa.MakeClosure); ok && mc.Fn == x.Parent() {
						mcAt = mc
					}
				}
			}
			out = append(out, c.provOf(b, mcAt)...)
		}
		return out
	case *ssa.Phi:
		var out []prov
		for _, e := range x.Edges {
			out = append(out, c.provOf(e, at)...)
		}
		return out
	case *ssa.UnOp:
		if x.Op == token.MUL {
			if f, ok := fieldOf(x.X); ok && f.Owner == c.slot[0] && f.Name == c.slot[1] {
				return []prov{{pvPostexit, fn}}
			}
			// load through a multi-store cell
			var out []prov
			for _, s := range c.w.cellStores(x.X) {
				out = append(out, c.provOf(s, at)...)
			}
			if len(out) > 0 {
				return out
			}
		}
	case *ssa.Call:
		// constructor result: private until published by the caller
		var out []prov
		for _, callee := range c.w.Callees(x) {
			if callee.Blocks == nil {
				continue
			}
			for _, b := range callee.Blocks {
				if ret, ok := b.Instrs[len(b.Instrs)-1].(*ssa.Return); ok {
					for _, rv := range ret.Results {
						if typeName(rv.Type()) == c.typ {
							for _, p := range c.provOf(rv, ret) {
								if p.Kind == pvPrepub {
									// still private in the caller unless the caller published it before `at`
									if c.w.afterPublication(at) {
										out = append(out, prov{pvOther, fn})
									} else {
										out = append(out, prov{pvPrepub, fn})
									}
								} else {
									out = append(out, p)
								}
							}
						}
					}
				}
			}
		}
		if len(out) > 0 {
			return out
		}
	case *ssa.Extract:
		// e.g. value received from a channel / map lookup
	}
	return []prov{{pvOther, fn}}
}

func (c *confiner) provOfParam(p *ssa.Parameter) []prov {
	if out, ok := c.memoP[p]; ok {
		return out
	}
	c.memoP[p] = nil
	fn := p.Parent()
	idx := -1
	for i, q := range fn.Params {
		if q == p {
			idx = i
		}
	}
	var out []prov
	if fn == c.owner {
		out = append(out, prov{pvOwner, fn})
	}
	for _, site := range c.w.callers[fn] {
		caller := site.Parent()
		if caller.Synthetic != "" {
			// wrapper: attribute through the wrapper's own callers
			// (a bound-method wrapper holds the receiver as a free variable: its parameters are shifted)
			widx := idx - len(caller.FreeVars)
			if widx < 0 {
				out = append(out, prov{pvOther, caller})
				continue
			}
			for _, s2 := range c.w.callers[caller] {
				out = append(out, c.argProv(s2, widx, fn)...)
			}
			continue
		}
		out = append(out, c.argProv(site, idx, fn)...)
	}
	if len(out) == 0 {
		out = []prov{{pvOther, fn}}
	}
	c.memoP[p] = out
	return out
}

func (c *confiner) argProv(site ssa.CallInstruction, idx int, callee *ssa.Function) []prov {
	com := site.Common()
	args := com.Args
	ai := idx
	if com.IsInvoke() {
		ai = idx - 1
	}
	in := site.(ssa.Instruction)
	if _, isGo := in.(*ssa.Go); isGo {
		if callee == c.owner {
			return []prov{{pvOwner, callee}}
		}
	}
	// a closure taken from the owner's inbox and called by the owner loop
	if in.Parent() == c.owner {
		if _, isCall := in.(*ssa.Call); isCall && com.StaticCallee() == nil {
			if ai >= 0 && ai < len(args) {
				if pv := c.provOf(args[ai], in); len(pv) > 0 {
					return pv
				}
			}
		}
	}
	if ai < 0 || ai >= len(args) {
		return []prov{{pvOther, in.Parent()}}
	}
	return c.provOf(args[ai], in)
}

// confineReport: per-field verdicts for one confined type.
func (w *World) confine(r *Report, rule string, c *confiner, contWriters func(fn *ssa.Function) bool, immutableOK bool) {
	acc := w.collectAccesses(c.typ)
	ri := w.Roles()
	type cl struct {
		a  access
		pv []prov
	}
	byField := map[string][]cl{}
	var whole []cl
	for _, a := range acc {
		pv := c.provOf(a.Base, a.In)
		if a.Whole {
			whole = append(whole, cl{a, pv})
			continue
		}
		byField[a.Field] = append(byField[a.Field], cl{a, pv})
	}
	var st *types.Struct
	if nt := w.namedByTypeName(c.typ); nt != nil {
		st = structOf(nt)
	}
	var fields []string
	if st != nil {
		for i := 0; i < st.NumFields(); i++ {
			fields = append(fields, st.Field(i).Name())
		}
	}
	sort.Strings(fields)
	r.Inv[rule+".accesses("+c.typ+")"] = len(acc)
	ownerRole := "go:" + fnShort(c.owner)
	rolesStr := func(fn *ssa.Function) string { return strings.Join(ri.RolesOf(fn), ",") }
	// post-exit writes per field (by any role)
	postW := map[string][]cl{}
	for f, cls := range byField {
		for _, x := range cls {
			if !x.a.Write {
				continue
			}
			for _, p := range x.pv {
				if p.Kind == pvPostexit {
					postW[f] = append(postW[f], x)
				}
			}
		}
	}
	for _, f := range fields {
		cls := append([]cl(nil), byField[f]...)
		// whole-struct accesses touch every field
		for _, wx := range whole {
			cls = append(cls, wx)
		}
		construct := c.typ + "." + f
		mutated := false
		mutAt := ""
		for _, x := range cls {
			if !x.a.Write {
				continue
			}
			for _, p := range x.pv {
				if p.Kind != pvPrepub {
					mutated = true
					mutAt = fmt.Sprintf("%s (%s, %s)", w.instrPos(x.a.In), fnShort(x.a.Fn), p.Kind)
				}
			}
		}
		if !mutated {
			r.HoldsTrivial(rule, construct, "", "never written after publication: any role may read it")
			continue
		}
		bad := ""
		pos := ""
		for _, x := range cls {
			for _, p := range x.pv {
				switch p.Kind {
				case pvPrepub, pvOwner, pvHandover:
				case pvPostexit:
					if x.a.Write {
						// only the continuation of the owner may write after exit
						if !contWriters(x.a.Fn) {
							bad = fmt.Sprintf("written after the actor's exit outside its continuation, in %s (roles %s)", fnShort(x.a.Fn), rolesStr(x.a.Fn))
							pos = w.instrPos(x.a.In)
						}
					} else if len(postW[f]) > 0 && !contWriters(x.a.Fn) {
						wr := postW[f][0]
						what := "read"
						if x.a.Whole {
							what = "copied as part of a whole-struct load (value receiver?)"
						}
						bad = fmt.Sprintf("%s after the actor's exit in %s (roles %s) while the continuation writes it at %s: data race", what, fnShort(x.a.Fn), rolesStr(x.a.Fn), w.instrPos(wr.a.In))
						pos = w.instrPos(x.a.In)
					}
				case pvOther:
					// the accessing function must run in the owner role only
					roles := ri.RolesOf(p.Fn)
					ok := len(roles) > 0
					for _, ro := range roles {
						if ro != ownerRole {
							ok = false
						}
					}
					if !ok {
						k := "read"
						if x.a.Write {
							k = "written"
						}
						bad = fmt.Sprintf("%s in %s with a pointer not obtained from the owner (roles %s) although the field is mutated after publication at %s: data race", k, fnShort(x.a.Fn), rolesStr(p.Fn), mutAt)
						pos = w.instrPos(x.a.In)
					}
				}
			}
		}
		r.Check(bad == "", rule, construct, pos, fmt.Sprintf("%d accesses: owner / pre-publication / hand-over / compatible post-exit only", len(cls)), bad)
	}
}

func (w *World) namedByTypeName(tn string) types.Type {
	i := strings.Index(tn, ".")
	n := w.Named(tn[:i], tn[i+1:])
	if n == nil {
		return nil
	}
	return n
}

func (c *confiner) isGoTarget(fn *ssa.Function) bool {
	if fn == c.owner {
		return false
	}
	for _, g := range c.w.Roles().GoSites {
		for _, t := range c.w.goTargets(g) {
			if t == fn {
				return true
			}
		}
	}
	return false
}
