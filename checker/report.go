package main

import (
	"encoding/json"
	"fmt"
	"os"
	"path/filepath"
	"sort"
	"strings"
	"time"
)

type Verdict string

const (
	HOLDS      Verdict = "HOLDS"
	VIOLATED   Verdict = "VIOLATED"
	UNDECIDED  Verdict = "UNDECIDED"
	UNRESOLVED Verdict = "UNRESOLVED-ANCHOR"
)

// Obligation is one rule instance. Keyed by rule + semantic construct, never by line.
type Obligation struct {
	Property   string   `json:"property"`
	Rule       string   `json:"rule"`
	Construct  string   `json:"construct"`
	Verdict    Verdict  `json:"verdict"`
	Pos        string   `json:"pos,omitempty"`
	Detail     string   `json:"detail,omitempty"`
	Witness    []string `json:"witness,omitempty"`
	Nontrivial bool     `json:"nontrivial"` // needed a path / role / call-graph argument
	Config     string   `json:"config,omitempty"`
	Known      bool     `json:"known_finding,omitempty"`
}

type Report struct {
	Property string
	Tier     string
	Seed     int64
	Config   string
	Obs      []Obligation
	Inv      map[string]interface{} // inventories: what was analysed
	Assume   []string
	Explain  string
	floors   []floor
	start    time.Time
}

type floor struct {
	rule string
	min  int
	what string
}

func newReport(prop, tier string, seed int64) *Report {
	return &Report{Property: prop, Tier: tier, Seed: seed, Inv: map[string]interface{}{}, start: time.Now()}
}

func (r *Report) add(rule, construct string, v Verdict, pos, detail string, nontrivial bool, witness ...string) {
	r.Obs = append(r.Obs, Obligation{Property: r.Property, Rule: rule, Construct: construct, Verdict: v, Pos: pos, Detail: detail, Witness: witness, Nontrivial: nontrivial, Config: r.Config})
}

func (r *Report) Holds(rule, construct, pos, detail string) {
	r.add(rule, construct, HOLDS, pos, detail, true)
}
func (r *Report) HoldsTrivial(rule, construct, pos, detail string) {
	r.add(rule, construct, HOLDS, pos, detail, false)
}
func (r *Report) Violated(rule, construct, pos, detail string, witness ...string) {
	r.add(rule, construct, VIOLATED, pos, detail, true, witness...)
}
func (r *Report) Undecided(rule, construct, pos, detail string, witness ...string) {
	r.add(rule, construct, UNDECIDED, pos, detail, true, witness...)
}
func (r *Report) Unresolved(rule, construct, detail string) {
	r.add(rule, construct, UNRESOLVED, "", detail, false)
}

// Check records HOLDS when ok, else VIOLATED.
func (r *Report) Check(ok bool, rule, construct, pos, okDetail, badDetail string, witness ...string) bool {
	if ok {
		r.Holds(rule, construct, pos, okDetail)
	} else {
		r.Violated(rule, construct, pos, badDetail, witness...)
	}
	return ok
}

// Floor: a rule must have matched at least min anchored instances (no vacuous pass).
func (r *Report) Floor(rule string, min int, what string) {
	r.floors = append(r.floors, floor{rule, min, what})
}

func (r *Report) count(rule string) int {
	n := 0
	for _, o := range r.Obs {
		if o.Rule == rule && o.Config == r.Config {
			n++
		}
	}
	return n
}

func (r *Report) applyFloors() {
	for _, f := range r.floors {
		if n := r.count(f.rule); n < f.min {
			r.add(f.rule, "floor", UNDECIDED, "", fmt.Sprintf("rule matched %d instances, floor is %d (%s): the rule would pass vacuously", n, f.min, f.what), false)
		}
	}
	r.floors = nil
}

// known findings ---------------------------------------------------------

type knownFinding struct {
	Status    string `json:"status"`
	Property  string `json:"property"`
	Rule      string `json:"rule"`
	Construct string `json:"construct"`
	Commit    string `json:"commit"`
	WhatFails string `json:"what_fails"`
	Line      string `json:"line"`
	Repro     string `json:"repro"`
}

func loadKnown(path string) []knownFinding {
	b, err := os.ReadFile(path)
	if err != nil {
		return nil
	}
	var f struct {
		Findings []knownFinding `json:"findings"`
	}
	if err := json.Unmarshal(b, &f); err != nil {
		broken("known_findings.json: %v", err)
	}
	return f.Findings
}

// finish applies floors and known findings, writes evidence and violation files,
// prints the verdict lines and returns the exit code.
func (r *Report) finish(verifDir string) int {
	r.applyFloors()
	sort.SliceStable(r.Obs, func(i, j int) bool {
		a, b := r.Obs[i], r.Obs[j]
		if a.Rule != b.Rule {
			return a.Rule < b.Rule
		}
		if a.Construct != b.Construct {
			return a.Construct < b.Construct
		}
		return a.Config < b.Config
	})
	known := loadKnown(filepath.Join(verifDir, "known_findings.json"))
	usedKnown := map[int]bool{}
	var bad []int
	discharged := 0
	nontrivial := map[string]bool{}
	for i := range r.Obs {
		o := &r.Obs[i]
		if o.Nontrivial {
			nontrivial[o.Rule+"|"+o.Construct] = true
		}
		if o.Verdict == HOLDS {
			discharged++
			continue
		}
		if o.Verdict == VIOLATED {
			for k, kf := range known {
				if kf.Status == "open" && kf.Property == r.Property && kf.Rule == o.Rule && kf.Construct == o.Construct {
					o.Known = true
					if !usedKnown[k] {
						usedKnown[k] = true
						fmt.Printf("KNOWN-FINDING: property=%s %s [%s | %s | %s]\n", r.Property, kf.WhatFails, o.Rule, o.Construct, o.Pos)
					}
				}
			}
			if o.Known {
				continue
			}
		}
		bad = append(bad, i)
	}
	// an open known finding that no longer fires is reported on stderr (not an alarm)
	for k, kf := range known {
		if kf.Status == "open" && kf.Property == r.Property && !usedKnown[k] {
			fmt.Fprintf(os.Stderr, "note: open known finding no longer reported: %s | %s\n", kf.Rule, kf.Construct)
		}
	}

	evDir := filepath.Join(verifDir, "evidence")
	vioDir := filepath.Join(evDir, "violations")
	_ = os.MkdirAll(vioDir, 0o755)
	// remove stale violation files of this property
	if old, _ := filepath.Glob(filepath.Join(vioDir, r.Property+"-*.json")); old != nil {
		for _, f := range old {
			_ = os.Remove(f)
		}
	}
	for n, i := range bad {
		o := r.Obs[i]
		path := filepath.Join(vioDir, fmt.Sprintf("%s-%d.json", r.Property, n+1))
		b, _ := json.MarshalIndent(o, "", " ")
		_ = os.WriteFile(path, b, 0o644)
		fmt.Printf("%s %s | %s | %s | %s\n", o.Verdict, o.Rule, o.Construct, o.Pos, o.Detail)
		for _, wl := range o.Witness {
			fmt.Printf("    %s\n", wl)
		}
		fmt.Printf("VIOLATION property=%s replay=%s\n", r.Property, path)
	}

	// evidence
	samples := []interface{}{}
	perRule := map[string]int{}
	for _, o := range r.Obs {
		perRule[o.Rule]++
		if perRule[o.Rule] <= 3 || o.Verdict != HOLDS {
			samples = append(samples, o)
		}
	}
	if len(samples) > 120 {
		samples = samples[:120]
	}
	rules := make([]string, 0, len(perRule))
	for k := range perRule {
		rules = append(rules, k)
	}
	sort.Strings(rules)
	ruleCounts := map[string]int{}
	for _, k := range rules {
		ruleCounts[k] = perRule[k]
	}
	cov := map[string]interface{}{
		"explanation":          r.Explain,
		"obligations":          len(r.Obs),
		"discharged":           discharged,
		"evaluations":          len(r.Obs),
		"distinct_nontrivial":  len(nontrivial),
		"rule":                 "one evaluation = one rule instance (property|rule|construct) decided on /repo's current SSA; distinct = distinct (rule,construct) keys; non-trivial = the verdict needed a path enumeration, role/call-graph or channel-class argument (not a mere lookup)",
		"samples":              samples,
		"obligations_per_rule": ruleCounts,
		"inventory":            r.Inv,
		"checker_cmd":          strings.Join(os.Args, " "),
		"trusted_base":         []string{"go/types", "golang.org/x/tools/go/ssa v0.29.0", "VTA call graph with CHA fallback for client round-trip types", "Go channel/WaitGroup semantics"},
		"known_findings":       len(usedKnown),
	}
	ev := map[string]interface{}{
		"property_id": r.Property,
		"tier":        r.Tier,
		"seed":        r.Seed,
		"level":       "other",
		"coverage":    cov,
		"assumptions": r.Assume,
		"wall_s":      time.Since(r.start).Seconds(),
		"violations":  len(bad),
	}
	b, _ := json.MarshalIndent(ev, "", " ")
	tmp := filepath.Join(evDir, r.Property+".json.tmp")
	_ = os.WriteFile(tmp, b, 0o644)
	_ = os.Rename(tmp, filepath.Join(evDir, r.Property+".json"))

	fmt.Printf("property=%s tier=%s obligations=%d holds=%d known=%d failing=%d rules=%d wall=%.1fs\n",
		r.Property, r.Tier, len(r.Obs), discharged, len(usedKnown), len(bad), len(rules), time.Since(r.start).Seconds())
	if len(bad) > 0 {
		return 1
	}
	return 0
}
