package main

import (
	"fmt"
	"go/constant"
	"go/token"
	"go/types"
	"math"
	"sort"
	"strings"

	"golang.org/x/tools/go/ssa"
)

// V-FORMULA (C20): the quantity a rate / time decorator hands to its text producer, brought to a
// normal form: coefficient x product of powers of
//
//	C = Statistics.Current, T = Statistics.Total, (T-C), E = time.Since(start) in ns,
//	A = the moving average's value (ns per item)
//
// Conversions, math.Round, a user TimeNormalizer and Duration.Seconds() (= E x 1e-9) are
// transparent, products and quotients combine exponents. The normal form is insensitive to how
// the expression is written (factor order, `speed*1e9` vs `/elapsed.Seconds()`), and differs
// exactly when the printed number is a different function of the bar's statistics.

type monomial struct {
	coef float64
	exp  map[string]int
}

func (m monomial) String() string {
	var ks []string
	for k, e := range m.exp {
		if e != 0 {
			ks = append(ks, fmt.Sprintf("%s^%d", k, e))
		}
	}
	sort.Strings(ks)
	return fmt.Sprintf("%g*%s", m.coef, strings.Join(ks, "*"))
}

func (m monomial) same(o monomial) bool {
	if m.coef == 0 && o.coef == 0 {
		return true
	}
	if math.Abs(m.coef-o.coef) > 1e-9*math.Max(math.Abs(m.coef), math.Abs(o.coef)) {
		return false
	}
	for k, e := range m.exp {
		if o.exp[k] != e {
			return false
		}
	}
	for k, e := range o.exp {
		if m.exp[k] != e {
			return false
		}
	}
	return true
}

func mono1(k string) monomial { return monomial{1, map[string]int{k: 1}} }

func (m monomial) mul(o monomial, sign int) monomial {
	out := monomial{m.coef, map[string]int{}}
	if sign > 0 {
		out.coef *= o.coef
	} else {
		out.coef /= o.coef
	}
	for k, e := range m.exp {
		out.exp[k] = e
	}
	for k, e := range o.exp {
		out.exp[k] += sign * e
	}
	return out
}

// normalise: the monomial of value v on path p; ok=false when v is outside the grammar.
func (w *World) normalise(p *Path, v Val, depth int) (monomial, bool) {
	if depth > 24 {
		return monomial{}, false
	}
	v = p.R(v)
	switch x := v.V.(type) {
	case *ssa.Const:
		if x.Value == nil {
			return monomial{}, false
		}
		switch x.Value.Kind() {
		case constant.Int, constant.Float:
			f, _ := constant.Float64Val(constant.ToFloat(x.Value))
			return monomial{f, map[string]int{}}, true
		}
		return monomial{}, false
	case *ssa.Convert:
		return w.normalise(p, Val{x.X, v.F, v.E}, depth+1)
	case *ssa.ChangeType:
		return w.normalise(p, Val{x.X, v.F, v.E}, depth+1)
	case *ssa.BinOp:
		switch x.Op {
		case token.MUL, token.QUO:
			a, ok1 := w.normalise(p, Val{x.X, v.F, v.E}, depth+1)
			b, ok2 := w.normalise(p, Val{x.Y, v.F, v.E}, depth+1)
			if !ok1 || !ok2 {
				return monomial{}, false
			}
			if x.Op == token.MUL {
				return a.mul(b, 1), true
			}
			if b.coef == 0 {
				return monomial{}, false
			}
			return a.mul(b, -1), true
		case token.SUB:
			a, ok1 := w.normalise(p, Val{x.X, v.F, v.E}, depth+1)
			b, ok2 := w.normalise(p, Val{x.Y, v.F, v.E}, depth+1)
			if ok1 && ok2 && a.same(mono1("T")) && b.same(mono1("C")) {
				return mono1("(T-C)"), true
			}
		}
		return monomial{}, false
	case *ssa.UnOp:
		if x.Op == token.MUL {
			if p.loadsField(v, tStat, "Current") {
				return mono1("C"), true
			}
			if p.loadsField(v, tStat, "Total") {
				return mono1("T"), true
			}
		}
		return monomial{}, false
	case *ssa.Field:
		if f, ok := fieldOf(x); ok && f.Owner == tStat {
			switch f.Name {
			case "Current":
				return mono1("C"), true
			case "Total":
				return mono1("T"), true
			}
		}
		return monomial{}, false
	case *ssa.Call:
		if x.Call.IsInvoke() {
			switch x.Call.Method.Name() {
			case "Value": // the moving average
				return mono1("A"), true
			case "Normalize": // a user time normaliser: transparent for the formula
				if len(x.Call.Args) == 1 {
					return w.normalise(p, Val{x.Call.Args[0], v.F, v.E}, depth+1)
				}
			}
			return monomial{}, false
		}
		sc := x.Call.StaticCallee()
		if sc == nil {
			return monomial{}, false
		}
		switch sc.String() {
		case "time.Since":
			return mono1("E"), true
		case "math.Round", "math.Floor", "math.Ceil", "math.Trunc":
			return w.normalise(p, Val{x.Call.Args[0], v.F, v.E}, depth+1)
		case "(time.Duration).Seconds":
			m, ok := w.normalise(p, Val{x.Call.Args[0], v.F, v.E}, depth+1)
			if !ok {
				return monomial{}, false
			}
			return m.mul(monomial{1e-9, map[string]int{}}, 1), true
		}
		return monomial{}, false
	}
	return monomial{}, false
}

// ruleFormulas: what each rate / time decorator prints, as a normal form.
func ruleFormulas(w *World, r *Report, pfx string) {
	rule := pfx + ".V-FORMULA"
	type spec struct {
		fn   string
		want monomial
		what string
		zero string // a constant 0 may be printed instead only on paths with this atom ("" = never)
	}
	specs := []spec{
		{"decor.(*averageETA).Decor", monomial{1, map[string]int{"(T-C)": 1, "E": 1, "C": -1}}, "remaining = (total - current) x elapsed / current", "C"},
		{"decor.(*movingAverageETA).Decor", monomial{1, map[string]int{"(T-C)": 1, "A": 1}}, "remaining = (total - current) x average duration per item", ""},
		{"decor.(*averageSpeed).Decor", monomial{1e9, map[string]int{"C": 1, "E": -1}}, "speed = current / elapsed, per second", ""},
		{"decor.(*movingAverageSpeed).Decor", monomial{1e9, map[string]int{"A": -1}}, "speed = 1 / average duration per item, per second", "A"},
	}
	for _, sp := range specs {
		fn := w.Func(sp.fn)
		if fn == nil {
			r.Unresolved("anchor", sp.fn, "not found")
			continue
		}
		bad := ""
		nProd := 0
		_, over := w.enumPaths(fn, pathOpts{InlineDepth: 2, Inline: w.helperInline(fn)}, func(p *Path) {
			if p.Exit != "return" || bad != "" {
				return
			}
			for _, ev := range p.Events {
				c, ok := ev.In.(*ssa.Call)
				if !ok || c.Call.IsInvoke() || c.Call.StaticCallee() != nil || len(c.Call.Args) != 1 {
					continue
				}
				// the text producer: a function value loaded from the decorator's `producer` field
				pv := p.stripR(p.val(ev, c.Call.Value))
				// (a field of the decorator holding a func(x) string - whatever it is called)
				if f, ok := loadedField(pv.V); !ok || f.Owner != typeName(fn.Signature.Recv().Type()) {
					continue
				}
				if sig, ok := pv.V.Type().Underlying().(*types.Signature); !ok || sig.Params().Len() != 1 || sig.Results().Len() != 1 || !types.Identical(sig.Results().At(0).Type(), types.Typ[types.String]) {
					continue
				}
				nProd++
				arg := p.val(ev, c.Call.Args[0])
				m, ok := w.normalise(p, arg, 0)
				if !ok {
					bad = "the value handed to the text producer (" + w.instrPos(c) + ") is not a product / quotient of current, total - current, elapsed time and the moving average: " + describeVal(p.R(arg))
					return
				}
				if m.coef == 0 {
					// a literal zero: only where the formula's denominator vanishes
					okZero := false
					switch sp.zero {
					case "C":
						okZero = p.hasCmp(-1, token.EQL, func(v Val) bool { return p.loadsField(v, tStat, "Current") }, isConstInt(0))
					case "A":
						okZero = p.hasCmp(-1, token.EQL, func(v Val) bool {
							c2, ok := v.V.(*ssa.Call)
							return ok && c2.Call.IsInvoke() && c2.Call.Method.Name() == "Value"
						}, func(v Val) bool {
							k, ok := v.V.(*ssa.Const)
							if !ok || k.Value == nil {
								return false
							}
							f, _ := constant.Float64Val(constant.ToFloat(k.Value))
							return f == 0
						})
					}
					if !okZero {
						bad = "a constant zero is printed on a path where the documented value is defined"
					}
					continue
				}
				if !m.same(sp.want) {
					bad = fmt.Sprintf("the decorator prints %s instead of %s (%s)", m, sp.want, sp.what)
				}
			}
		})
		if over {
			r.Undecided(rule, sp.fn, w.pos(fn.Pos()), "path cap")
			continue
		}
		r.Check(bad == "" && nProd > 0, rule, strings.TrimPrefix(sp.fn, "decor."), w.pos(fn.Pos()), sp.what, orStr(bad, "no call of the decorator's text producer found"))
	}
	r.Floor(rule, 4, "average / moving-average ETA and speed")
}

// ruleCounterQuantities (V-QUANT): the counter decorators print the quantities their names
// document, both members of a pair in the same unit, and the unit is the one selected by the
// `unit` argument's dynamic type.
func ruleCounterQuantities(w *World, r *Report, pfx string) {
	rule := pfx + ".V-QUANT"
	want := map[string][]string{
		"decor.Counters":        {"C", "T"},
		"decor.Total":           {"T"},
		"decor.Current":         {"C"},
		"decor.InvertedCurrent": {"(T-C)"},
	}
	var names []string
	for k := range want {
		names = append(names, k)
	}
	sort.Strings(names)
	for _, name := range names {
		root := w.Func(name)
		if root == nil {
			r.Unresolved("anchor", name, "not found")
			continue
		}
		bad := ""
		units := map[string]bool{}
		// every text-producing closure under root: func(Statistics) string calling fmt.Sprintf
		var closures []*ssa.Function
		var walk func(f *ssa.Function)
		walk = func(f *ssa.Function) {
			for _, a := range f.AnonFuncs {
				closures = append(closures, a)
				walk(a)
			}
		}
		for _, f := range sortedFns(w.unit(root)) {
			walk(f)
		}
		for _, clo := range closures {
			if len(clo.Params) != 1 || typeName(clo.Params[0].Type()) != tStat {
				continue
			}
			w.enumPaths(clo, pathOpts{}, func(p *Path) {
				for _, ev := range p.Events {
					c, ok := ev.In.(*ssa.Call)
					if !ok || c.Call.StaticCallee() == nil || c.Call.StaticCallee().String() != "fmt.Sprintf" {
						continue
					}
					// variadic arguments: stores of boxed values into the argument array, by index
					args := map[int64]*ssa.MakeInterface{}
					for _, e2 := range p.Events {
						st, ok := e2.In.(*ssa.Store)
						if !ok {
							continue
						}
						ia, ok := st.Addr.(*ssa.IndexAddr)
						if !ok {
							continue
						}
						k, okK := constInt(ia.Index)
						mi, okM := st.Val.(*ssa.MakeInterface)
						if okK && okM {
							args[k] = mi
						}
					}
					if len(args) != len(want[name]) {
						bad = fmt.Sprintf("the text is formatted from %d values instead of %d", len(args), len(want[name]))
						return
					}
					unit := ""
					for i := 0; i < len(want[name]); i++ {
						mi := args[int64(i)]
						if mi == nil {
							bad = "argument missing"
							return
						}
						u := typeName(mi.X.Type())
						if i == 0 {
							unit = u
						} else if u != unit {
							bad = "the members of the pair are printed in different units (" + unit + " / " + u + ")"
							return
						}
						m, ok := w.normalise(p, Val{mi.X, ev.F, ev.E}, 0)
						if !ok || !m.same(mono1(want[name][i])) {
							got := "?"
							if ok {
								got = m.String()
							}
							bad = fmt.Sprintf("argument #%d of the text is %s instead of %s", i+1, got, want[name][i])
							return
						}
					}
					units[unit] = true
					// the producer under `case U:` of the unit switch prints in U
					if bad == "" && !w.closureUnderUnitCase(clo, unit) {
						bad = "a producer printing in " + unit + " is selected for a different unit argument"
					}
				}
			})
		}
		if bad == "" && len(units) != 3 {
			bad = fmt.Sprintf("producers exist for %d of the three units (plain, binary, decimal)", len(units))
		}
		r.Check(bad == "", rule, name, w.pos(root.Pos()), fmt.Sprintf("prints %v in the selected unit", want[name]), bad)
	}
	r.Floor(rule, 4, "Counters, Total, Current, InvertedCurrent")
}

// closureUnderUnitCase: the MakeClosure of clo sits on the paths of its parent where the unit
// argument's dynamic type is exactly the printed unit type (int64: neither size type).
func (w *World) closureUnderUnitCase(clo *ssa.Function, unit string) bool {
	parent := clo.Parent()
	if parent == nil {
		return false
	}
	ok := true
	seen := false
	w.enumPaths(parent, pathOpts{}, func(p *Path) {
		made := false
		for _, ev := range p.Events {
			if mc, isMC := ev.In.(*ssa.MakeClosure); isMC && mc.Fn == ssa.Value(clo) {
				made = true
			}
		}
		if !made {
			return
		}
		seen = true
		is := map[string]tri{}
		for _, a := range p.Atoms {
			c := p.cmpOf(a)
			if c.Op != token.ILLEGAL {
				continue
			}
			ex, isEx := c.X.V.(*ssa.Extract)
			if !isEx || ex.Index != 1 {
				continue
			}
			ta, isTA := ex.Tuple.(*ssa.TypeAssert)
			if !isTA {
				continue
			}
			if c.Pol {
				is[typeName(ta.AssertedType)] = triTrue
			} else {
				is[typeName(ta.AssertedType)] = triFalse
			}
		}
		switch unit {
		case "decor.SizeB1024", "decor.SizeB1000":
			if is[unit] != triTrue {
				ok = false
			}
		default:
			if is["decor.SizeB1024"] == triTrue || is["decor.SizeB1000"] == triTrue {
				ok = false
			}
		}
	})
	return ok && seen
}

// ruleComponentWidths (W-BUILD, C07): every component of a bar style is built with the display
// width of exactly the text whose bytes it holds (`component{StringWidth(x), []byte(x)}`): the
// fill loops account cells by that width (W-CELLS), so a width taken from another string, a byte
// length or a constant makes the body narrower or wider than its allotted width.
func ruleComponentWidths(w *World, r *Report, pfx string) {
	rule := pfx + ".W-BUILD"
	n := 0
	for _, fn := range w.ModFns {
		if fn.Pkg != w.Mpb {
			continue
		}
		for _, b := range fn.Blocks {
			for _, in := range b.Instrs {
				st, ok := in.(*ssa.Store)
				if !ok {
					continue
				}
				f, ok := fieldOf(st.Addr)
				if !ok || f.Owner != "mpb.component" || f.Name != "width" {
					continue
				}
				// a zero-value reset (`tip = component{}`) stores no width; copies of whole components are not field stores
				n++
				bad := ""
				c, isCall := stripConv(st.Val).(*ssa.Call)
				if !isCall || c.Call.StaticCallee() == nil || c.Call.StaticCallee().Name() != "StringWidth" || len(c.Call.Args) != 1 {
					bad = "the component's width is not the display width (runewidth.StringWidth) of its text"
				} else {
					// the sibling store of the bytes on the same component
					okBytes := false
					base := st.Addr.(*ssa.FieldAddr).X
					if base.Referrers() != nil {
						for _, ref := range *base.Referrers() {
							fa, ok := ref.(*ssa.FieldAddr)
							if !ok || fa.Referrers() == nil {
								continue
							}
							if f2, ok := fieldOf(fa); !ok || f2.Name != "bytes" {
								continue
							}
							for _, r2 := range *fa.Referrers() {
								s2, ok := r2.(*ssa.Store)
								if !ok {
									continue
								}
								cv, ok := s2.Val.(*ssa.Convert)
								if ok && (cv.X == c.Call.Args[0] || w.sameSource(cv.X, c.Call.Args[0]) || sameValueExpr(cv.X, c.Call.Args[0], 0)) {
									okBytes = true
								}
							}
						}
					}
					if !okBytes {
						bad = "the component's width is measured on a different string than the one whose bytes it holds"
					}
				}
				r.Check(bad == "", rule, fmt.Sprintf("component built in %s #%d", fnShort(fn), n), w.instrPos(in), "width = StringWidth(x), bytes = []byte(x)", bad)
			}
		}
	}
	r.Floor(rule, 1, "the construction of style components / tip frames")
}

// ruleTermSize (T-SIZE, C04/C07): the terminal size query returns (columns, rows) in that order.
func ruleTermSize(w *World, r *Report, pfx string) {
	rule := pfx + ".T-SIZE"
	fn := w.Func("cwriter.GetSize")
	if fn == nil {
		r.HoldsTrivial(rule, "cwriter.GetSize", "", "not in this build configuration")
		return
	}
	bad := ""
	saw := false
	w.enumPaths(fn, pathOpts{}, func(p *Path) {
		if p.Exit != "return" || len(p.Ret) != 3 {
			return
		}
		var fieldName func(v Val) string
		fieldName = func(v Val) string {
			x := p.stripR(v)
			if f, ok := loadedField(x.V); ok {
				return f.Name
			}
			if fv, ok := x.V.(*ssa.Field); ok {
				if f, ok := fieldOf(fv); ok {
					return f.Name
				}
			}
			// the Windows sibling: extent of the visible window
			if sub, ok := x.V.(*ssa.BinOp); ok && sub.Op == token.SUB {
				l, r := fieldName(Val{sub.X, x.F, x.E}), fieldName(Val{sub.Y, x.F, x.E})
				if l != "" && r != "" {
					return l + "-" + r
				}
			}
			return ""
		}
		a, b := fieldName(p.Ret[0]), fieldName(p.Ret[1])
		if a == "" && b == "" {
			return // the error path
		}
		saw = true
		if !((a == "Col" && b == "Row") || (a == "Right-Left" && b == "Bottom-Top")) {
			bad = fmt.Sprintf("GetSize returns (%s, %s) as (width, height): columns and rows are confused", orStr(a, "?"), orStr(b, "?"))
		}
	})
	r.Check(bad == "" && saw, rule, "cwriter.GetSize", w.pos(fn.Pos()), "(width, height) = (columns, rows)", orStr(bad, "no successful return found"))
}

// sameValueExpr: a and b are structurally the same side-effect-free read (same variable, or loads
// through identical field / constant-index address chains of the same base).
func sameValueExpr(a, b ssa.Value, depth int) bool {
	if a == b {
		return true
	}
	if depth > 8 {
		return false
	}
	switch x := a.(type) {
	case *ssa.UnOp:
		y, ok := b.(*ssa.UnOp)
		return ok && x.Op == y.Op && x.Op == token.MUL && sameValueExpr(x.X, y.X, depth+1)
	case *ssa.FieldAddr:
		y, ok := b.(*ssa.FieldAddr)
		return ok && x.Field == y.Field && sameValueExpr(x.X, y.X, depth+1)
	case *ssa.Field:
		y, ok := b.(*ssa.Field)
		return ok && x.Field == y.Field && sameValueExpr(x.X, y.X, depth+1)
	case *ssa.IndexAddr:
		y, ok := b.(*ssa.IndexAddr)
		if !ok || !sameValueExpr(x.X, y.X, depth+1) {
			return false
		}
		kx, ok1 := constInt(x.Index)
		ky, ok2 := constInt(y.Index)
		return (ok1 && ok2 && kx == ky) || x.Index == y.Index
	}
	return false
}

// ruleSpeedText (V-SPEEDFMT, C20): the text producers of the speed decorators print the speed they
// are handed, unscaled, in the unit selected by the `unit` argument, and the rate wrapper appends "/s".
func ruleSpeedText(w *World, r *Report, pfx string) {
	rule := pfx + ".V-SPEEDFMT"
	root := w.Func("decor.chooseSpeedProducer")
	if root == nil {
		// found by shape: the function returning func(float64) string under a type switch on its first parameter
		for _, fn := range w.ModFns {
			if fn.Pkg == w.Decor && fn.Parent() == nil && fn.Signature.Results().Len() == 1 && fn.Signature.Results().At(0).Type().String() == "func(float64) string" {
				root = fn
			}
		}
	}
	if root == nil {
		r.Unresolved("anchor", "speed text producer", "no function returning func(float64) string in decor")
		return
	}
	bad := ""
	units := map[string]bool{}
	// what a producer function prints: (unit type, ok)
	analyse := func(clo *ssa.Function) (string, string) {
		if len(clo.Params) == 0 || clo.Signature.Results().Len() != 1 {
			return "", "the producer is not a func(float64) string"
		}
		speed := ssa.Value(clo.Params[len(clo.Params)-1])
		unit, why := "", ""
		w.enumPaths(clo, pathOpts{}, func(p *Path) {
			for _, ev := range p.Events {
				c, ok := ev.In.(*ssa.Call)
				if !ok || c.Call.StaticCallee() == nil || c.Call.StaticCallee().String() != "fmt.Sprintf" {
					continue
				}
				var arg ssa.Value
				nArgs := 0
				for _, e2 := range p.Events {
					if st, ok := e2.In.(*ssa.Store); ok {
						if _, isIA := st.Addr.(*ssa.IndexAddr); isIA {
							if _, isIface := st.Val.Type().Underlying().(*types.Interface); isIface {
								arg = st.Val
								nArgs++
							}
						}
					}
				}
				if nArgs != 1 || arg == nil {
					why = "the speed text is not formatted from exactly one value"
					return
				}
				// peel the rate wrapper and the unit conversion; what remains must be the parameter, rounding apart
				v := arg
				u := "float64"
				wrapped := false
			peel:
				for i := 0; i < 10; i++ {
					switch x := v.(type) {
					case *ssa.Call:
						if sc := x.Call.StaticCallee(); sc != nil && len(x.Call.Args) == 1 {
							if sc.Name() == "FmtAsSpeed" {
								wrapped = true
								v = x.Call.Args[0]
								continue
							}
							if strings.HasPrefix(sc.String(), "math.") {
								v = x.Call.Args[0]
								continue
							}
						}
						break peel
					case *ssa.MakeInterface:
						v = x.X
					case *ssa.ChangeInterface:
						v = x.X
					case *ssa.Convert:
						if tn := typeName(x.Type()); strings.HasPrefix(tn, "decor.SizeB") {
							u = tn
						}
						v = x.X
					case *ssa.ChangeType:
						v = x.X
					default:
						break peel
					}
				}
				if v != speed {
					why = "the speed text producer prints something other than the speed it is given (scaled or replaced: " + describeVal(Val{V: v}) + ")"
					return
				}
				if u != "float64" && !wrapped {
					why = "a sized speed is printed without the rate suffix wrapper"
					return
				}
				unit = u
			}
		})
		if unit == "" && why == "" {
			why = "the producer does not format its speed"
		}
		return unit, why
	}
	// every path of the chooser: the producer returned agrees with the dynamic type of the unit argument
	nRet := 0
	_, over := w.enumPaths(root, pathOpts{InlineDepth: 2, Inline: w.helperInline(root)}, func(p *Path) {
		if p.Exit != "return" || len(p.Ret) != 1 || bad != "" {
			return
		}
		var clo *ssa.Function
		switch x := p.stripR(p.Ret[0]).V.(type) {
		case *ssa.MakeClosure:
			clo = boundTarget(x.Fn.(*ssa.Function))
		case *ssa.Function:
			clo = boundTarget(x)
		}
		if clo == nil {
			bad = "the chooser does not return a producer function on every path"
			return
		}
		nRet++
		unit, why := analyse(clo)
		if why != "" {
			bad = why
			return
		}
		is := map[string]tri{}
		for _, a := range p.Atoms {
			c := p.cmpOf(a)
			if c.Op != token.ILLEGAL {
				continue
			}
			if ex, ok := c.X.V.(*ssa.Extract); ok && ex.Index == 1 {
				if ta, ok := ex.Tuple.(*ssa.TypeAssert); ok {
					if c.Pol {
						is[typeName(ta.AssertedType)] = triTrue
					} else {
						is[typeName(ta.AssertedType)] = triFalse
					}
				}
			}
		}
		switch unit {
		case "decor.SizeB1024", "decor.SizeB1000":
			if is[unit] != triTrue {
				bad = "a speed producer printing in " + unit + " is selected on a path where the unit argument is not of that type"
			}
		default:
			if is["decor.SizeB1024"] == triTrue || is["decor.SizeB1000"] == triTrue {
				bad = "the plain speed producer is selected for a sized unit argument"
			}
		}
		units[unit] = true
	})
	if over {
		r.Undecided(rule, "speed text producers", w.pos(root.Pos()), "path cap")
		return
	}
	if bad == "" && len(units) != 3 {
		bad = fmt.Sprintf("speed producers exist for %d of the three units", len(units))
	}
	r.Check(bad == "", rule, "speed text producers", w.pos(root.Pos()), "print the given speed, unit by the unit argument", bad)
	// the rate wrapper appends "/s"
	if f := w.Func("decor.(*speedFormatter).Format"); f != nil {
		okSuffix := false
		for _, b := range f.Blocks {
			for _, in := range b.Instrs {
				for _, op := range in.Operands(nil) {
					if k, ok := (*op).(*ssa.Const); ok && k.Value != nil && k.Value.Kind() == constant.String && constant.StringVal(k.Value) == "/s" {
						okSuffix = true
					}
				}
			}
		}
		r.Check(okSuffix, rule, "rate suffix", w.pos(f.Pos()), "per second", "the rate wrapper does not append \"/s\": the number printed is a per-second rate")
	}
}

// ruleWriterNew (W-NEW): the terminal writer is wired to the caller's output, and it claims to be a
// terminal exactly when that output is a file whose descriptor the platform reports as a terminal;
// IsTerminal / GetTermSize report that wiring (the container decides from IsTerminal whether to
// draw at all, and takes the row and column limits from GetTermSize).
func ruleWriterNew(w *World, r *Report, pfx string) {
	rule := pfx + ".W-NEW"
	fn := w.Func("cwriter.New")
	if fn == nil {
		r.Unresolved("anchor", "cwriter.New", "not found")
		return
	}
	const tW = "cwriter.Writer"
	bad := ""
	sawTerm, sawPlain := false, false
	nP, over := w.enumPaths(fn, pathOpts{InlineDepth: 2, Inline: w.helperInline(fn)}, func(p *Path) {
		if p.Exit != "return" || bad != "" {
			return
		}
		// out <- the parameter
		outs := p.storesTo(tW, "out")
		if len(outs) == 0 || p.stripR(outs[len(outs)-1].Val).V != ssa.Value(fn.Params[0]) {
			bad = "the writer's output is not the io.Writer it was created for"
			return
		}
		isFile := false
		for _, a := range p.Atoms {
			c := p.cmpOf(a)
			if c.Op != token.ILLEGAL || !c.Pol {
				continue
			}
			if ex, ok := c.X.V.(*ssa.Extract); ok && ex.Index == 1 {
				if ta, ok := ex.Tuple.(*ssa.TypeAssert); ok && typeName(ta.AssertedType) == "os.File" && p.R(Val{ta.X, c.X.F, c.X.E}).V == ssa.Value(fn.Params[0]) {
					isFile = true
				}
			}
		}
		isTerm := p.hasBool(-1, true, func(v Val) bool {
			c, ok := v.V.(*ssa.Call)
			return ok && c.Call.StaticCallee() != nil && c.Call.StaticCallee().Name() == "IsTerminal" && c.Call.StaticCallee().Pkg == w.Cw
		})
		term := false
		for _, st := range p.storesTo(tW, "terminal") {
			if bv, ok := constBool(p.R(st.Val).V); ok {
				term = bv
			} else {
				// terminal <- IsTerminal(fd) form
				if c, ok := p.stripR(st.Val).V.(*ssa.Call); ok && c.Call.StaticCallee() != nil && c.Call.StaticCallee().Name() == "IsTerminal" {
					// the flag is the platform's answer; a later test of the field is a test of that answer
					fieldTrue := p.hasBool(-1, true, func(v Val) bool { return p.loadsField(v, tW, "terminal") })
					term = isTerm || fieldTrue
					isTerm = term
					if !isFile {
						bad = "the terminal test is made on something other than the output file's descriptor"
					}
					continue
				}
				bad = "the terminal flag is set from an unrecognised value"
			}
		}
		// a path that tests the flag it has just stored against the stored value is infeasible
		if p.hasBool(-1, !term, func(v Val) bool { return p.loadsField(v, tW, "terminal") }) {
			return
		}
		if term {
			sawTerm = true
			if !(isFile && isTerm) {
				bad = "the writer claims to be a terminal on a path where the output is not a file that the platform reports as a terminal: bars and cursor controls would be written into files and pipes"
			}
		} else {
			sawPlain = true
		}
		// the size query is the platform's exactly for terminals
		usesGetSize := false
		for _, st := range p.storesTo(tW, "termSize") {
			v := p.stripR(st.Val).V
			var f *ssa.Function
			switch x := v.(type) {
			case *ssa.Function:
				f = x
			case *ssa.MakeClosure:
				f, _ = x.Fn.(*ssa.Function)
			}
			usesGetSize = false
			if f != nil {
				if f.Name() == "GetSize" && f.Pkg == w.Cw {
					usesGetSize = true
				}
				for _, b := range f.Blocks {
					for _, in := range b.Instrs {
						if c, ok := in.(*ssa.Call); ok && c.Call.StaticCallee() != nil && c.Call.StaticCallee().Name() == "GetSize" && c.Call.StaticCallee().Pkg == w.Cw {
							usesGetSize = true
						}
					}
				}
			}
		}
		if term != usesGetSize && bad == "" {
			bad = "the size query installed does not match the terminal flag (a terminal must be asked for its size, anything else must not)"
		}
	})
	if over {
		r.Undecided(rule, "cwriter.New", w.pos(fn.Pos()), "path cap")
		return
	}
	r.Check(bad == "" && nP > 0 && sawTerm && sawPlain, rule, "cwriter.New", w.pos(fn.Pos()), "out = the caller's writer; terminal iff *os.File and IsTerminal(fd); size query accordingly", orStr(bad, "terminal / non-terminal path missing"))
	if f := w.Func("cwriter.(*Writer).IsTerminal"); f != nil {
		ok := true
		w.enumPaths(f, pathOpts{}, func(p *Path) {
			if p.Exit == "return" && len(p.Ret) == 1 && !p.loadsField(p.Ret[0], tW, "terminal") {
				ok = false
			}
		})
		r.Check(ok, rule, "cwriter.Writer.IsTerminal", w.pos(f.Pos()), "reports the flag set by New", "IsTerminal does not report the writer's terminal flag")
	}
	if f := w.Func("cwriter.(*Writer).GetTermSize"); f != nil {
		ok := false
		w.enumPaths(f, pathOpts{}, func(p *Path) {
			for _, ev := range p.Events {
				if c, isC := ev.In.(*ssa.Call); isC && c.Call.StaticCallee() == nil && !c.Call.IsInvoke() && len(c.Call.Args) == 1 {
					if p.loadsField(p.val(ev, c.Call.Value), tW, "termSize") && p.loadsField(p.val(ev, c.Call.Args[0]), tW, "fd") {
						ok = true
					}
				}
			}
		})
		r.Check(ok, rule, "cwriter.Writer.GetTermSize", w.pos(f.Pos()), "termSize(fd)", "GetTermSize does not query the installed size function with the writer's own descriptor")
	}
}

// ruleStateInitialised (R7n, C02): what the render path calls or dereferences without a nil test
// exists from the start: the bar state constructor stores a function into `extender` and a buffer
// into every slot of `buffers` on every path (a missing one is a nil dereference in the bar's
// goroutine at the first frame, taking the whole program down), and Add replaces a nil filler.
func ruleStateInitialised(w *World, r *Report, pfx string) {
	rule := pfx + ".R7n"
	mk := w.makeBarStateFn()
	if mk == nil {
		r.Unresolved("anchor", "bar state constructor", "not found")
		return
	}
	nSlots := int64(-1)
	if st := structOf(w.namedByTypeName(tBState)); st != nil {
		for i := 0; i < st.NumFields(); i++ {
			if st.Field(i).Name() == "buffers" {
				if arr, ok := st.Field(i).Type().Underlying().(*types.Array); ok {
					nSlots = arr.Len()
				}
			}
		}
	}
	bad := ""
	nP, over := w.enumPaths(mk, pathOpts{InlineDepth: 2, Inline: w.helperInline(mk), MaxPaths: 50000}, func(p *Path) {
		if p.Exit != "return" || bad != "" {
			return
		}
		okExt := false
		for _, st := range p.storesTo(tBState, "extender") {
			switch p.stripR(st.Val).V.(type) {
			case *ssa.MakeClosure, *ssa.Function:
				okExt = true
			}
		}
		if !okExt {
			bad = "the constructor has a path that leaves `extender` nil: the render closure calls it unconditionally (nil function call in the bar's goroutine)"
			return
		}
		slots := map[int64]bool{}
		all := false
		for _, ev := range p.Events {
			st, ok := ev.In.(*ssa.Store)
			if !ok {
				continue
			}
			ia, ok := st.Addr.(*ssa.IndexAddr)
			if !ok {
				continue
			}
			if f, ok := fieldOf(ia.X); !ok || f.Owner != tBState || f.Name != "buffers" {
				continue
			}
			if isNilConst(p.R(p.val(ev, st.Val)).V) {
				continue
			}
			if k, ok := constInt(p.R(p.val(ev, ia.Index)).V); ok {
				slots[k] = true
			}
			{
				// a loop over the slots: accepted when it walks every index of the array
				for _, l := range naturalLoops(st.Parent()) {
					if l.Blocks[st.Block()] {
						if iw := w.loopIndexWalk(l, ia.X); iw.OK && iw.CoversAll {
							all = true
						} else if cl := classifyCountingLoop(l); cl.ok && cl.step == 1 {
							if k, ok := constInt(cl.bound); ok && k == nSlots {
								all = true
							}
						}
					}
				}
			}
		}
		if !all {
			for i := int64(0); i < nSlots; i++ {
				if !slots[i] {
					bad = fmt.Sprintf("the constructor has a path that leaves buffers[%d] nil: draw and the fillers write into it unconditionally", i)
				}
			}
		}
	})
	if over {
		r.Undecided(rule, "bar state constructor: render-path fields", w.pos(mk.Pos()), "path cap")
	} else {
		r.Check(bad == "" && nP > 0 && nSlots > 0, rule, "bar state constructor: render-path fields", w.pos(mk.Pos()), "extender and every buffer slot set on every path", orStr(bad, "no returning path / buffers field not found"))
	}
	// Add: a nil filler is replaced before the state is built
	if add := w.Func("mpb.(*Progress).Add"); add != nil {
		bad := ""
		n := 0
		w.enumPaths(add, pathOpts{InlineDepth: 1, Inline: w.helperInline(add)}, func(p *Path) {
			for _, ev := range p.Events {
				mc, ok := ev.In.(*ssa.MakeClosure)
				if !ok {
					continue
				}
				clo, _ := mc.Fn.(*ssa.Function)
				if clo == nil {
					continue
				}
				clo = boundTarget(clo)
				// the closure that builds the state: calls the constructor
				calls := false
				for _, b := range clo.Blocks {
					for _, in := range b.Instrs {
						if c, ok := in.(*ssa.Call); ok && c.Call.StaticCallee() == mk {
							calls = true
						}
					}
				}
				if !calls {
					continue
				}
				n++
				fillerP := ssa.Value(add.Params[2])
				// the variable holding the filler: the parameter itself or the cell it was spilled into
				var cell *ssa.Alloc
				for _, b := range add.Blocks {
					for _, in := range b.Instrs {
						if st, ok := in.(*ssa.Store); ok && st.Val == fillerP {
							cell, _ = st.Addr.(*ssa.Alloc)
						}
					}
				}
				isFiller := func(v Val) bool {
					if v.V == fillerP || w.origin(v.V) == fillerP {
						return true
					}
					ld, ok := v.V.(*ssa.UnOp)
					return ok && ld.Op == token.MUL && cell != nil && ld.X == ssa.Value(cell)
				}
				nonNil := p.hasCmp(ev.Idx, token.NEQ, isFiller, isNilVal)
				replaced := false
				for _, e2 := range p.Events[:ev.Idx] {
					if st, ok := e2.In.(*ssa.Store); ok && cell != nil && st.Addr == ssa.Value(cell) && st.Val != fillerP {
						replaced = true
					}
				}
				// (when the filler variable is not captured there is no cell: the replacement is a fresh
				// filler built on the path that tested the argument nil)
				if !replaced && p.hasCmp(ev.Idx, token.EQL, isFiller, isNilVal) {
					for _, e2 := range p.Events[:ev.Idx] {
						if c, ok := e2.In.(*ssa.Call); ok && c.Call.IsInvoke() && c.Call.Method.Name() == "Build" {
							replaced = true
						}
					}
				}
				if !nonNil && !replaced {
					bad = "a nil filler reaches the bar state: the first frame calls Fill on a nil interface"
				}
			}
		})
		r.Check(bad == "" && n > 0, rule, "API:Progress.Add nil filler", w.pos(add.Pos()), "nil filler replaced by the no-op filler", orStr(bad, "the closure building the state was not found"))
	}
}

// ruleWidthClamp (W-CLAMP, C07): the width a filler draws into never exceeds the width it is
// offered: CheckRequestedWidth returns the available width, or the requested one only on paths
// that carry requested <= available.
func ruleWidthClamp(w *World, r *Report, pfx string) {
	rule := pfx + ".W-CLAMP"
	fn := w.Func("internal.CheckRequestedWidth")
	if fn == nil || len(fn.Params) != 2 {
		r.Unresolved("anchor", "internal.CheckRequestedWidth", "not found")
		return
	}
	req, avail := ssa.Value(fn.Params[0]), ssa.Value(fn.Params[1])
	bad := ""
	n := 0
	w.enumPaths(fn, pathOpts{InlineDepth: 1, Inline: w.helperInline(fn)}, func(p *Path) {
		if p.Exit != "return" || len(p.Ret) != 1 {
			return
		}
		n++
		rv := p.stripR(p.Ret[0]).V
		switch rv {
		case avail:
		case req:
			isReq, isAvail := func(v Val) bool { return v.V == req }, func(v Val) bool { return v.V == avail }
			if !p.hasCmp(-1, token.LEQ, isReq, isAvail) && !p.hasCmp(-1, token.LSS, isReq, isAvail) {
				bad = "the requested width is returned on a path that does not carry requested <= available: a bar asked to be wider than the space left overflows the row"
			}
		default:
			bad = "the width returned is neither the available nor the requested width"
		}
	})
	r.Check(bad == "" && n > 0, rule, "internal.CheckRequestedWidth", w.pos(fn.Pos()), "min(requested, available) for a usable request", orStr(bad, "no returning path"))
}
