package main

import (
	"fmt"
	"go/constant"
	"go/token"
	"go/types"
	"math"
	"sort"
	"strings"

	"golang.org/x/tools/go/ssa"
)

// V-FORMULA (C20): the quantity a rate / time decorator hands to its text producer, brought to a
// normal form: coefficient x product of powers of
//
//	C = Statistics.Current, T = Statistics.Total, (T-C), E = time.Since(start) in ns,
//	A = the moving average's value (ns per item)
//
// Conversions, math.Round, a user TimeNormalizer and Duration.Seconds() (= E x 1e-9) are
// transparent, products and quotients combine exponents. The normal form is insensitive to how
// the expression is written (factor order, `speed*1e9` vs `/elapsed.Seconds()`), and differs
// exactly when the printed number is a different function of the bar's statistics.

type monomial struct {
	coef float64
	exp  map[string]int
}

func (m monomial) String() string {
	var ks []string
	for k, e := range m.exp {
		if e != 0 {
			ks = append(ks, fmt.Sprintf("%s^%d", k, e))
		}
	}
	sort.Strings(ks)
	return fmt.Sprintf("%g*%s", m.coef, strings.Join(ks, "*"))
}

func (m monomial) same(o monomial) bool {
	if m.coef == 0 && o.coef == 0 {
		return true
	}
	if math.Abs(m.coef-o.coef) > 1e-9*math.Max(math.Abs(m.coef), math.Abs(o.coef)) {
		return false
	}
	for k, e := range m.exp {
		if o.exp[k] != e {
			return false
		}
	}
	for k, e := range o.exp {
		if m.exp[k] != e {
			return false
		}
	}
	return true
}

func mono1(k string) monomial { return monomial{1, map[string]int{k: 1}} }

func (m monomial) mul(o monomial, sign int) monomial {
	out := monomial{m.coef, map[string]int{}}
	if sign > 0 {
		out.coef *= o.coef
	} else {
		out.coef /= o.coef
	}
	for k, e := range m.exp {
		out.exp[k] = e
	}
	for k, e := range o.exp {
		out.exp[k] += sign * e
	}
	return out
}

// normalise: the monomial of value v on path p; ok=false when v is outside the grammar.
func (w *World) normalise(p *Path, v Val, depth int) (monomial, bool) {
	if depth > 24 {
		return monomial{}, false
	}
	v = p.R(v)
	switch x := v.V.(type) {
	case *ssa.Const:
		if x.Value == nil {
			return monomial{}, false
		}
		switch x.Value.Kind() {
		case constant.Int, constant.Float:
			f, _ := constant.Float64Val(constant.ToFloat(x.Value))
			return monomial{f, map[string]int{}}, true
		}
		return monomial{}, false
	case *ssa.Convert:
		return w.normalise(p, Val{x.X, v.F, v.E}, depth+1)
	case *ssa.ChangeType:
		return w.normalise(p, Val{x.X, v.F, v.E}, depth+1)
	case *ssa.BinOp:
		switch x.Op {
		case token.MUL, token.QUO:
			a, ok1 := w.normalise(p, Val{x.X, v.F, v.E}, depth+1)
			b, ok2 := w.normalise(p, Val{x.Y, v.F, v.E}, depth+1)
			if !ok1 || !ok2 {
				return monomial{}, false
			}
			if x.Op == token.MUL {
				return a.mul(b, 1), true
			}
			if b.coef == 0 {
				return monomial{}, false
			}
			return a.mul(b, -1), true
		case token.SUB:
			a, ok1 := w.normalise(p, Val{x.X, v.F, v.E}, depth+1)
			b, ok2 := w.normalise(p, Val{x.Y, v.F, v.E}, depth+1)
			if ok1 && ok2 && a.same(mono1("T")) && b.same(mono1("C")) {
				return mono1("(T-C)"), true
			}
		}
		return monomial{}, false
	case *ssa.UnOp:
		if x.Op == token.MUL {
			if p.loadsField(v, tStat, "Current") {
				return mono1("C"), true
			}
			if p.loadsField(v, tStat, "Total") {
				return mono1("T"), true
			}
		}
		return monomial{}, false
	case *ssa.Field:
		if f, ok := fieldOf(x); ok && f.Owner == tStat {
			switch f.Name {
			case "Current":
				return mono1("C"), true
			case "Total":
				return mono1("T"), true
			}
		}
		return monomial{}, false
	case *ssa.Call:
		if x.Call.IsInvoke() {
			switch x.Call.Method.Name() {
			case "Value": // the moving average
				return mono1("A"), true
			case "Normalize": // a user time normaliser: transparent for the formula
				if len(x.Call.Args) == 1 {
					return w.normalise(p, Val{x.Call.Args[0], v.F, v.E}, depth+1)
				}
			}
			return monomial{}, false
		}
		sc := x.Call.StaticCallee()
		if sc == nil {
			return monomial{}, false
		}
		switch sc.String() {
		case "time.Since":
			return mono1("E"), true
		case "math.Round", "math.Floor", "math.Ceil", "math.Trunc":
			return w.normalise(p, Val{x.Call.Args[0], v.F, v.E}, depth+1)
		case "(time.Duration).Seconds":
			m, ok := w.normalise(p, Val{x.Call.Args[0], v.F, v.E}, depth+1)
			if !ok {
				return monomial{}, false
			}
			return m.mul(monomial{1e-9, map[string]int{}}, 1), true
		}
		return monomial{}, false
	}
	return monomial{}, false
}

// ruleFormulas: what each rate / time decorator prints, as a normal form.
func ruleFormulas(w *World, r *Report, pfx string) {
	rule := pfx + ".V-FORMULA"
	type spec struct {
		fn   string
		want monomial
		what string
		zero string // a constant 0 may be printed instead only on paths with this atom ("" = never)
	}
	specs := []spec{
		{"decor.(*averageETA).Decor", monomial{1, map[string]int{"(T-C)": 1, "E": 1, "C": -1}}, "remaining = (total - current) x elapsed / current", "C"},
		{"decor.(*movingAverageETA).Decor", monomial{1, map[string]int{"(T-C)": 1, "A": 1}}, "remaining = (total - current) x average duration per item", ""},
		{"decor.(*averageSpeed).Decor", monomial{1e9, map[string]int{"C": 1, "E": -1}}, "speed = current / elapsed, per second", ""},
		{"decor.(*movingAverageSpeed).Decor", monomial{1e9, map[string]int{"A": -1}}, "speed = 1 / average duration per item, per second", "A"},
	}
	for _, sp := range specs {
		fn := w.Func(sp.fn)
		if fn == nil {
			r.Unresolved("anchor", sp.fn, "not found")
			continue
		}
		bad := ""
		nProd := 0
		_, over := w.enumPaths(fn, pathOpts{InlineDepth: 2, Inline: w.helperInline(fn)}, func(p *Path) {
			if p.Exit != "return" || bad != "" {
				return
			}
			onPath := 0
			defer func() {
				// every frame of a live bar prints a value: a path without the producer is one that
				// carries the frozen (completed / aborted) state
				if bad == "" && onPath == 0 && !p.hasBool(-1, true, loadOf(tStat, "Completed")) && !p.hasBool(-1, true, loadOf(tStat, "Aborted")) {
					bad = "a path of a live bar returns without handing a value to the text producer (" + pathExitPos(w, p) + "): the decorator prints an empty text"
				}
			}()
			for _, ev := range p.Events {
				c, ok := ev.In.(*ssa.Call)
				if !ok || c.Call.IsInvoke() || c.Call.StaticCallee() != nil || len(c.Call.Args) != 1 {
					continue
				}
				// the text producer: a function value loaded from the decorator's `producer` field
				pv := p.stripR(p.val(ev, c.Call.Value))
				// (a field of the decorator holding a func(x) string - whatever it is called)
				if f, ok := loadedField(pv.V); !ok || f.Owner != typeName(fn.Signature.Recv().Type()) {
					continue
				}
				if sig, ok := pv.V.Type().Underlying().(*types.Signature); !ok || sig.Params().Len() != 1 || sig.Results().Len() != 1 || !types.Identical(sig.Results().At(0).Type(), types.Typ[types.String]) {
					continue
				}
				nProd++
				onPath++
				arg := p.val(ev, c.Call.Args[0])
				m, ok := w.normalise(p, arg, 0)
				if !ok {
					bad = "the value handed to the text producer (" + w.instrPos(c) + ") is not a product / quotient of current, total - current, elapsed time and the moving average: " + describeVal(p.R(arg))
					return
				}
				if m.coef == 0 {
					// a literal zero: only where the formula's denominator vanishes
					okZero := false
					switch sp.zero {
					case "C":
						okZero = p.hasCmp(-1, token.EQL, func(v Val) bool { return p.loadsField(v, tStat, "Current") }, isConstInt(0))
					case "A":
						okZero = p.hasCmp(-1, token.EQL, func(v Val) bool {
							c2, ok := v.V.(*ssa.Call)
							return ok && c2.Call.IsInvoke() && c2.Call.Method.Name() == "Value"
						}, func(v Val) bool {
							k, ok := v.V.(*ssa.Const)
							if !ok || k.Value == nil {
								return false
							}
							f, _ := constant.Float64Val(constant.ToFloat(k.Value))
							return f == 0
						})
					}
					if !okZero {
						bad = "a constant zero is printed on a path where the documented value is defined"
					}
					continue
				}
				if !m.same(sp.want) {
					bad = fmt.Sprintf("the decorator prints %s instead of %s (%s)", m, sp.want, sp.what)
				}
			}
		})
		if over {
			r.Undecided(rule, sp.fn, w.pos(fn.Pos()), "path cap")
			continue
		}
		r.Check(bad == "" && nProd > 0, rule, strings.TrimPrefix(sp.fn, "decor."), w.pos(fn.Pos()), sp.what, orStr(bad, "no call of the decorator's text producer found"))
	}
	r.Floor(rule, 4, "average / moving-average ETA and speed")
}

// ruleCounterQuantities (V-QUANT): the counter decorators print the quantities their names
// document, both members of a pair in the same unit, and the unit is the one selected by the
// `unit` argument's dynamic type.
func ruleCounterQuantities(w *World, r *Report, pfx string) {
	rule := pfx + ".V-QUANT"
	want := map[string][]string{
		"decor.Counters":        {"C", "T"},
		"decor.Total":           {"T"},
		"decor.Current":         {"C"},
		"decor.InvertedCurrent": {"(T-C)"},
	}
	var names []string
	for k := range want {
		names = append(names, k)
	}
	sort.Strings(names)
	for _, name := range names {
		root := w.Func(name)
		if root == nil {
			r.Unresolved("anchor", name, "not found")
			continue
		}
		bad := ""
		units := map[string]bool{}
		// every text-producing closure under root: func(Statistics) string calling fmt.Sprintf
		var closures []*ssa.Function
		var walk func(f *ssa.Function)
		walk = func(f *ssa.Function) {
			for _, a := range f.AnonFuncs {
				closures = append(closures, a)
				walk(a)
			}
		}
		for _, f := range sortedFns(w.unit(root)) {
			walk(f)
		}
		for _, clo := range closures {
			if len(clo.Params) != 1 || typeName(clo.Params[0].Type()) != tStat {
				continue
			}
			w.enumPaths(clo, pathOpts{}, func(p *Path) {
				for _, ev := range p.Events {
					c, ok := ev.In.(*ssa.Call)
					if !ok || c.Call.StaticCallee() == nil || c.Call.StaticCallee().String() != "fmt.Sprintf" {
						continue
					}
					// variadic arguments: stores of boxed values into the argument array, by index
					args := map[int64]*ssa.MakeInterface{}
					for _, e2 := range p.Events {
						st, ok := e2.In.(*ssa.Store)
						if !ok {
							continue
						}
						ia, ok := st.Addr.(*ssa.IndexAddr)
						if !ok {
							continue
						}
						k, okK := constInt(ia.Index)
						mi, okM := st.Val.(*ssa.MakeInterface)
						if okK && okM {
							args[k] = mi
						}
					}
					if len(args) != len(want[name]) {
						bad = fmt.Sprintf("the text is formatted from %d values instead of %d", len(args), len(want[name]))
						return
					}
					unit := ""
					for i := 0; i < len(want[name]); i++ {
						mi := args[int64(i)]
						if mi == nil {
							bad = "argument missing"
							return
						}
						u := typeName(mi.X.Type())
						if i == 0 {
							unit = u
						} else if u != unit {
							bad = "the members of the pair are printed in different units (" + unit + " / " + u + ")"
							return
						}
						m, ok := w.normalise(p, Val{mi.X, ev.F, ev.E}, 0)
						if !ok || !m.same(mono1(want[name][i])) {
							got := "?"
							if ok {
								got = m.String()
							}
							bad = fmt.Sprintf("argument #%d of the text is %s instead of %s", i+1, got, want[name][i])
							return
						}
					}
					units[unit] = true
					// the producer under `case U:` of the unit switch prints in U
					if bad == "" && !w.closureUnderUnitCase(clo, unit) {
						bad = "a producer printing in " + unit + " is selected for a different unit argument"
					}
				}
			})
		}
		if bad == "" && len(units) != 3 {
			bad = fmt.Sprintf("producers exist for %d of the three units (plain, binary, decimal)", len(units))
		}
		r.Check(bad == "", rule, name, w.pos(root.Pos()), fmt.Sprintf("prints %v in the selected unit", want[name]), bad)
	}
	r.Floor(rule, 4, "Counters, Total, Current, InvertedCurrent")
}

// closureUnderUnitCase: the MakeClosure of clo sits on the paths of its parent where the unit
// argument's dynamic type is exactly the printed unit type (int64: neither size type).
func (w *World) closureUnderUnitCase(clo *ssa.Function, unit string) bool {
	parent := clo.Parent()
	if parent == nil {
		return false
	}
	ok := true
	seen := false
	w.enumPaths(parent, pathOpts{}, func(p *Path) {
		made := false
		for _, ev := range p.Events {
			if mc, isMC := ev.In.(*ssa.MakeClosure); isMC && mc.Fn == ssa.Value(clo) {
				made = true
			}
		}
		if !made {
			return
		}
		seen = true
		is := map[string]tri{}
		for _, a := range p.Atoms {
			c := p.cmpOf(a)
			if c.Op != token.ILLEGAL {
				continue
			}
			ex, isEx := c.X.V.(*ssa.Extract)
			if !isEx || ex.Index != 1 {
				continue
			}
			ta, isTA := ex.Tuple.(*ssa.TypeAssert)
			if !isTA {
				continue
			}
			if c.Pol {
				is[typeName(ta.AssertedType)] = triTrue
			} else {
				is[typeName(ta.AssertedType)] = triFalse
			}
		}
		switch unit {
		case "decor.SizeB1024", "decor.SizeB1000":
			if is[unit] != triTrue {
				ok = false
			}
		default:
			if is["decor.SizeB1024"] == triTrue || is["decor.SizeB1000"] == triTrue {
				ok = false
			}
		}
	})
	return ok && seen
}

// ruleComponentWidths (W-BUILD, C07): every component of a bar style is built with the display
// width of exactly the text whose bytes it holds (`component{StringWidth(x), []byte(x)}`): the
// fill loops account cells by that width (W-CELLS), so a width taken from another string, a byte
// length or a constant makes the body narrower or wider than its allotted width.
func ruleComponentWidths(w *World, r *Report, pfx string) {
	rule := pfx + ".W-BUILD"
	n := 0
	for _, fn := range w.ModFns {
		if fn.Pkg != w.Mpb {
			continue
		}
		for _, b := range fn.Blocks {
			for _, in := range b.Instrs {
				st, ok := in.(*ssa.Store)
				if !ok {
					continue
				}
				f, ok := fieldOf(st.Addr)
				if !ok || f.Owner != "mpb.component" || f.Name != "width" {
					continue
				}
				// a zero-value reset (`tip = component{}`) stores no width; copies of whole components are not field stores
				n++
				bad := ""
				c, isCall := stripConv(st.Val).(*ssa.Call)
				if !isCall || c.Call.StaticCallee() == nil || c.Call.StaticCallee().Name() != "StringWidth" || len(c.Call.Args) != 1 {
					bad = "the component's width is not the display width (runewidth.StringWidth) of its text"
				} else {
					// the sibling store of the bytes on the same component
					okBytes := false
					base := st.Addr.(*ssa.FieldAddr).X
					if base.Referrers() != nil {
						for _, ref := range *base.Referrers() {
							fa, ok := ref.(*ssa.FieldAddr)
							if !ok || fa.Referrers() == nil {
								continue
							}
							if f2, ok := fieldOf(fa); !ok || f2.Name != "bytes" {
								continue
							}
							for _, r2 := range *fa.Referrers() {
								s2, ok := r2.(*ssa.Store)
								if !ok {
									continue
								}
								cv, ok := s2.Val.(*ssa.Convert)
								if ok && (cv.X == c.Call.Args[0] || w.sameSource(cv.X, c.Call.Args[0]) || sameValueExpr(cv.X, c.Call.Args[0], 0)) {
									okBytes = true
								}
							}
						}
					}
					if !okBytes {
						bad = "the component's width is measured on a different string than the one whose bytes it holds"
					}
				}
				r.Check(bad == "", rule, fmt.Sprintf("component built in %s #%d", fnShort(fn), n), w.instrPos(in), "width = StringWidth(x), bytes = []byte(x)", bad)
			}
		}
	}
	r.Floor(rule, 1, "the construction of style components / tip frames")
}

// ruleTermSize (T-SIZE, C04/C07): the terminal size query returns (columns, rows) in that order.
func ruleTermSize(w *World, r *Report, pfx string) {
	rule := pfx + ".T-SIZE"
	fn := w.Func("cwriter.GetSize")
	if fn == nil {
		r.HoldsTrivial(rule, "cwriter.GetSize", "", "not in this build configuration")
		return
	}
	bad := ""
	saw := false
	w.enumPaths(fn, pathOpts{}, func(p *Path) {
		if p.Exit != "return" || len(p.Ret) != 3 {
			return
		}
		var fieldName func(v Val) string
		fieldName = func(v Val) string {
			x := p.stripR(v)
			if f, ok := loadedField(x.V); ok {
				return f.Name
			}
			if fv, ok := x.V.(*ssa.Field); ok {
				if f, ok := fieldOf(fv); ok {
					return f.Name
				}
			}
			// the Windows sibling: extent of the visible window
			if sub, ok := x.V.(*ssa.BinOp); ok && sub.Op == token.SUB {
				l, r := fieldName(Val{sub.X, x.F, x.E}), fieldName(Val{sub.Y, x.F, x.E})
				if l != "" && r != "" {
					return l + "-" + r
				}
			}
			return ""
		}
		a, b := fieldName(p.Ret[0]), fieldName(p.Ret[1])
		if a == "" && b == "" {
			return // the error path
		}
		saw = true
		// the size is returned on the path where the query succeeded, with a nil error
		errT := types.Universe.Lookup("error").Type()
		isErrV := func(v Val) bool {
			_, isConst := v.V.(*ssa.Const)
			return !isConst && types.Identical(v.V.Type(), errT)
		}
		if !p.hasCmp(-1, token.EQL, isErrV, isNilVal) || !isNilConst(p.stripR(p.Ret[2]).V) {
			bad = "the terminal size is returned on a path that does not carry `err == nil` of the query (or with a non-nil error): a successful query reports the failure values and a failed one dereferences no result"
		}
		if !((a == "Col" && b == "Row") || (a == "Right-Left" && b == "Bottom-Top")) {
			bad = fmt.Sprintf("GetSize returns (%s, %s) as (width, height): columns and rows are confused", orStr(a, "?"), orStr(b, "?"))
		}
	})
	r.Check(bad == "" && saw, rule, "cwriter.GetSize", w.pos(fn.Pos()), "(width, height) = (columns, rows)", orStr(bad, "no successful return found"))
}

// sameValueExpr: a and b are structurally the same side-effect-free read (same variable, or loads
// through identical field / constant-index address chains of the same base).
func sameValueExpr(a, b ssa.Value, depth int) bool {
	if a == b {
		return true
	}
	if depth > 8 {
		return false
	}
	switch x := a.(type) {
	case *ssa.UnOp:
		y, ok := b.(*ssa.UnOp)
		return ok && x.Op == y.Op && x.Op == token.MUL && sameValueExpr(x.X, y.X, depth+1)
	case *ssa.FieldAddr:
		y, ok := b.(*ssa.FieldAddr)
		return ok && x.Field == y.Field && sameValueExpr(x.X, y.X, depth+1)
	case *ssa.Field:
		y, ok := b.(*ssa.Field)
		return ok && x.Field == y.Field && sameValueExpr(x.X, y.X, depth+1)
	case *ssa.IndexAddr:
		y, ok := b.(*ssa.IndexAddr)
		if !ok || !sameValueExpr(x.X, y.X, depth+1) {
			return false
		}
		kx, ok1 := constInt(x.Index)
		ky, ok2 := constInt(y.Index)
		return (ok1 && ok2 && kx == ky) || x.Index == y.Index
	}
	return false
}

// ruleSpeedText (V-SPEEDFMT, C20): the text producers of the speed decorators print the speed they
// are handed, unscaled, in the unit selected by the `unit` argument, and the rate wrapper appends "/s".
func ruleSpeedText(w *World, r *Report, pfx string) {
	rule := pfx + ".V-SPEEDFMT"
	root := w.Func("decor.chooseSpeedProducer")
	if root == nil {
		// found by shape: the function returning func(float64) string under a type switch on its first parameter
		for _, fn := range w.ModFns {
			if fn.Pkg == w.Decor && fn.Parent() == nil && fn.Signature.Results().Len() == 1 && fn.Signature.Results().At(0).Type().String() == "func(float64) string" {
				root = fn
			}
		}
	}
	if root == nil {
		r.Unresolved("anchor", "speed text producer", "no function returning func(float64) string in decor")
		return
	}
	bad := ""
	units := map[string]bool{}
	// what a producer function prints: (unit type, ok)
	analyse := func(clo *ssa.Function) (string, string) {
		if len(clo.Params) == 0 || clo.Signature.Results().Len() != 1 {
			return "", "the producer is not a func(float64) string"
		}
		speed := ssa.Value(clo.Params[len(clo.Params)-1])
		unit, why := "", ""
		w.enumPaths(clo, pathOpts{}, func(p *Path) {
			for _, ev := range p.Events {
				c, ok := ev.In.(*ssa.Call)
				if !ok || c.Call.StaticCallee() == nil || c.Call.StaticCallee().String() != "fmt.Sprintf" {
					continue
				}
				var arg ssa.Value
				nArgs := 0
				for _, e2 := range p.Events {
					if st, ok := e2.In.(*ssa.Store); ok {
						if _, isIA := st.Addr.(*ssa.IndexAddr); isIA {
							if _, isIface := st.Val.Type().Underlying().(*types.Interface); isIface {
								arg = st.Val
								nArgs++
							}
						}
					}
				}
				if nArgs != 1 || arg == nil {
					why = "the speed text is not formatted from exactly one value"
					return
				}
				// peel the rate wrapper and the unit conversion; what remains must be the parameter, rounding apart
				v := arg
				u := "float64"
				wrapped := false
			peel:
				for i := 0; i < 10; i++ {
					switch x := v.(type) {
					case *ssa.Call:
						if sc := x.Call.StaticCallee(); sc != nil && len(x.Call.Args) == 1 {
							if sc.Name() == "FmtAsSpeed" {
								wrapped = true
								v = x.Call.Args[0]
								continue
							}
							if strings.HasPrefix(sc.String(), "math.") {
								v = x.Call.Args[0]
								continue
							}
						}
						break peel
					case *ssa.MakeInterface:
						v = x.X
					case *ssa.ChangeInterface:
						v = x.X
					case *ssa.Convert:
						if tn := typeName(x.Type()); strings.HasPrefix(tn, "decor.SizeB") {
							u = tn
						}
						v = x.X
					case *ssa.ChangeType:
						v = x.X
					default:
						break peel
					}
				}
				if v != speed {
					why = "the speed text producer prints something other than the speed it is given (scaled or replaced: " + describeVal(Val{V: v}) + ")"
					return
				}
				if u != "float64" && !wrapped {
					why = "a sized speed is printed without the rate suffix wrapper"
					return
				}
				unit = u
			}
		})
		if unit == "" && why == "" {
			why = "the producer does not format its speed"
		}
		return unit, why
	}
	// every path of the chooser: the producer returned agrees with the dynamic type of the unit argument
	nRet := 0
	_, over := w.enumPaths(root, pathOpts{InlineDepth: 2, Inline: w.helperInline(root)}, func(p *Path) {
		if p.Exit != "return" || len(p.Ret) != 1 || bad != "" {
			return
		}
		var clo *ssa.Function
		switch x := p.stripR(p.Ret[0]).V.(type) {
		case *ssa.MakeClosure:
			clo = boundTarget(x.Fn.(*ssa.Function))
		case *ssa.Function:
			clo = boundTarget(x)
		}
		if clo == nil {
			bad = "the chooser does not return a producer function on every path"
			return
		}
		nRet++
		unit, why := analyse(clo)
		if why != "" {
			bad = why
			return
		}
		is := map[string]tri{}
		for _, a := range p.Atoms {
			c := p.cmpOf(a)
			if c.Op != token.ILLEGAL {
				continue
			}
			if ex, ok := c.X.V.(*ssa.Extract); ok && ex.Index == 1 {
				if ta, ok := ex.Tuple.(*ssa.TypeAssert); ok {
					if c.Pol {
						is[typeName(ta.AssertedType)] = triTrue
					} else {
						is[typeName(ta.AssertedType)] = triFalse
					}
				}
			}
		}
		switch unit {
		case "decor.SizeB1024", "decor.SizeB1000":
			if is[unit] != triTrue {
				bad = "a speed producer printing in " + unit + " is selected on a path where the unit argument is not of that type"
			}
		default:
			if is["decor.SizeB1024"] == triTrue || is["decor.SizeB1000"] == triTrue {
				bad = "the plain speed producer is selected for a sized unit argument"
			}
		}
		units[unit] = true
	})
	if over {
		r.Undecided(rule, "speed text producers", w.pos(root.Pos()), "path cap")
		return
	}
	if bad == "" && len(units) != 3 {
		bad = fmt.Sprintf("speed producers exist for %d of the three units", len(units))
	}
	r.Check(bad == "", rule, "speed text producers", w.pos(root.Pos()), "print the given speed, unit by the unit argument", bad)
	// the rate wrapper appends "/s"
	if f := w.Func("decor.(*speedFormatter).Format"); f != nil {
		okSuffix := false
		for _, b := range f.Blocks {
			for _, in := range b.Instrs {
				for _, op := range in.Operands(nil) {
					if k, ok := (*op).(*ssa.Const); ok && k.Value != nil && k.Value.Kind() == constant.String && constant.StringVal(k.Value) == "/s" {
						okSuffix = true
					}
				}
			}
		}
		r.Check(okSuffix, rule, "rate suffix", w.pos(f.Pos()), "per second", "the rate wrapper does not append \"/s\": the number printed is a per-second rate")
	}
}

// ruleWriterNew (W-NEW): the terminal writer is wired to the caller's output, and it claims to be a
// terminal exactly when that output is a file whose descriptor the platform reports as a terminal;
// IsTerminal / GetTermSize report that wiring (the container decides from IsTerminal whether to
// draw at all, and takes the row and column limits from GetTermSize).
func ruleWriterNew(w *World, r *Report, pfx string) {
	rule := pfx + ".W-NEW"
	fn := w.Func("cwriter.New")
	if fn == nil {
		r.Unresolved("anchor", "cwriter.New", "not found")
		return
	}
	const tW = "cwriter.Writer"
	bad := ""
	sawTerm, sawPlain := false, false
	nP, over := w.enumPaths(fn, pathOpts{InlineDepth: 2, Inline: w.helperInline(fn)}, func(p *Path) {
		if p.Exit != "return" || bad != "" {
			return
		}
		// out <- the parameter
		outs := p.storesTo(tW, "out")
		if len(outs) == 0 || p.stripR(outs[len(outs)-1].Val).V != ssa.Value(fn.Params[0]) {
			bad = "the writer's output is not the io.Writer it was created for"
			return
		}
		isFile := false
		for _, a := range p.Atoms {
			c := p.cmpOf(a)
			if c.Op != token.ILLEGAL || !c.Pol {
				continue
			}
			if ex, ok := c.X.V.(*ssa.Extract); ok && ex.Index == 1 {
				if ta, ok := ex.Tuple.(*ssa.TypeAssert); ok && typeName(ta.AssertedType) == "os.File" && p.R(Val{ta.X, c.X.F, c.X.E}).V == ssa.Value(fn.Params[0]) {
					isFile = true
				}
			}
		}
		// the descriptor the platform is asked about is the output file's: Fd() itself, or the writer's fd
		// field after Fd() was stored into it (asked earlier, the field still holds 0 - standard input)
		isFdCall := func(v ssa.Value) bool {
			c, ok := stripConv(v).(*ssa.Call)
			return ok && ((c.Call.StaticCallee() != nil && c.Call.StaticCallee().Name() == "Fd") || (c.Call.IsInvoke() && c.Call.Method.Name() == "Fd"))
		}
		fdStored := false
		for _, ev := range p.Events {
			if f, v, ok := p.storeField(ev); ok && f.Owner == tW && f.Name == "fd" && isFdCall(p.stripR(v).V) {
				fdStored = true
			}
			if c, ok := ev.In.(*ssa.Call); ok && c.Call.StaticCallee() != nil && c.Call.StaticCallee().Name() == "IsTerminal" && c.Call.StaticCallee().Pkg == w.Cw && len(c.Call.Args) == 1 {
				av := p.stripR(p.val(ev, c.Call.Args[0]))
				if !isFdCall(av.V) && !(p.loadsField(av, tW, "fd") && fdStored) {
					bad = "the platform is asked about a descriptor that is not (yet) the output file's (" + w.instrPos(c) + ")"
					return
				}
			}
		}
		isTerm := p.hasBool(-1, true, func(v Val) bool {
			c, ok := v.V.(*ssa.Call)
			return ok && c.Call.StaticCallee() != nil && c.Call.StaticCallee().Name() == "IsTerminal" && c.Call.StaticCallee().Pkg == w.Cw
		})
		term := false
		for _, st := range p.storesTo(tW, "terminal") {
			if bv, ok := constBool(p.R(st.Val).V); ok {
				term = bv
			} else {
				// terminal <- IsTerminal(fd) form
				if c, ok := p.stripR(st.Val).V.(*ssa.Call); ok && c.Call.StaticCallee() != nil && c.Call.StaticCallee().Name() == "IsTerminal" {
					// the flag is the platform's answer; a later test of the field is a test of that answer
					fieldTrue := p.hasBool(-1, true, func(v Val) bool { return p.loadsField(v, tW, "terminal") })
					term = isTerm || fieldTrue
					isTerm = term
					if !isFile {
						bad = "the terminal test is made on something other than the output file's descriptor"
					}
					continue
				}
				bad = "the terminal flag is set from an unrecognised value"
			}
		}
		// a path that tests the flag it has just stored against the stored value is infeasible
		if p.hasBool(-1, !term, func(v Val) bool { return p.loadsField(v, tW, "terminal") }) {
			return
		}
		if term {
			sawTerm = true
			if !(isFile && isTerm) {
				bad = "the writer claims to be a terminal on a path where the output is not a file that the platform reports as a terminal: bars and cursor controls would be written into files and pipes"
			}
		} else {
			sawPlain = true
		}
		// the size query is the platform's exactly for terminals
		usesGetSize := false
		for _, st := range p.storesTo(tW, "termSize") {
			v := p.stripR(st.Val).V
			var f *ssa.Function
			switch x := v.(type) {
			case *ssa.Function:
				f = x
			case *ssa.MakeClosure:
				f, _ = x.Fn.(*ssa.Function)
			}
			usesGetSize = false
			if f != nil {
				if f.Name() == "GetSize" && f.Pkg == w.Cw {
					usesGetSize = true
				}
				for _, b := range f.Blocks {
					for _, in := range b.Instrs {
						if c, ok := in.(*ssa.Call); ok && c.Call.StaticCallee() != nil && c.Call.StaticCallee().Name() == "GetSize" && c.Call.StaticCallee().Pkg == w.Cw {
							usesGetSize = true
						}
					}
				}
			}
		}
		if term != usesGetSize && bad == "" {
			bad = "the size query installed does not match the terminal flag (a terminal must be asked for its size, anything else must not)"
		}
	})
	if over {
		r.Undecided(rule, "cwriter.New", w.pos(fn.Pos()), "path cap")
		return
	}
	r.Check(bad == "" && nP > 0 && sawTerm && sawPlain, rule, "cwriter.New", w.pos(fn.Pos()), "out = the caller's writer; terminal iff *os.File and IsTerminal(fd); size query accordingly", orStr(bad, "terminal / non-terminal path missing"))
	if f := w.Func("cwriter.(*Writer).IsTerminal"); f != nil {
		ok := true
		w.enumPaths(f, pathOpts{}, func(p *Path) {
			if p.Exit == "return" && len(p.Ret) == 1 && !p.loadsField(p.Ret[0], tW, "terminal") {
				ok = false
			}
		})
		r.Check(ok, rule, "cwriter.Writer.IsTerminal", w.pos(f.Pos()), "reports the flag set by New", "IsTerminal does not report the writer's terminal flag")
	}
	if f := w.Func("cwriter.(*Writer).GetTermSize"); f != nil {
		ok := false
		w.enumPaths(f, pathOpts{}, func(p *Path) {
			for _, ev := range p.Events {
				if c, isC := ev.In.(*ssa.Call); isC && c.Call.StaticCallee() == nil && !c.Call.IsInvoke() && len(c.Call.Args) == 1 {
					if p.loadsField(p.val(ev, c.Call.Value), tW, "termSize") && p.loadsField(p.val(ev, c.Call.Args[0]), tW, "fd") {
						ok = true
					}
				}
			}
		})
		r.Check(ok, rule, "cwriter.Writer.GetTermSize", w.pos(f.Pos()), "termSize(fd)", "GetTermSize does not query the installed size function with the writer's own descriptor")
	}
}

// ruleStateInitialised (R7n, C02): what the render path calls or dereferences without a nil test
// exists from the start: the bar state constructor stores a function into `extender` and a buffer
// into every slot of `buffers` on every path (a missing one is a nil dereference in the bar's
// goroutine at the first frame, taking the whole program down), and Add replaces a nil filler.
func ruleStateInitialised(w *World, r *Report, pfx string) {
	rule := pfx + ".R7n"
	mk := w.makeBarStateFn()
	if mk == nil {
		r.Unresolved("anchor", "bar state constructor", "not found")
		return
	}
	nSlots := int64(-1)
	if st := structOf(w.namedByTypeName(tBState)); st != nil {
		for i := 0; i < st.NumFields(); i++ {
			if st.Field(i).Name() == "buffers" {
				if arr, ok := st.Field(i).Type().Underlying().(*types.Array); ok {
					nSlots = arr.Len()
				}
			}
		}
	}
	bad := ""
	nP, over := w.enumPaths(mk, pathOpts{InlineDepth: 2, Inline: w.helperInline(mk), MaxPaths: 50000}, func(p *Path) {
		if p.Exit != "return" || bad != "" {
			return
		}
		okExt := false
		for _, st := range p.storesTo(tBState, "extender") {
			switch p.stripR(st.Val).V.(type) {
			case *ssa.MakeClosure, *ssa.Function:
				okExt = true
			}
		}
		if !okExt {
			bad = "the constructor has a path that leaves `extender` nil: the render closure calls it unconditionally (nil function call in the bar's goroutine)"
			return
		}
		slots := map[int64]bool{}
		all := false
		for _, ev := range p.Events {
			st, ok := ev.In.(*ssa.Store)
			if !ok {
				continue
			}
			ia, ok := st.Addr.(*ssa.IndexAddr)
			if !ok {
				continue
			}
			if f, ok := fieldOf(ia.X); !ok || f.Owner != tBState || f.Name != "buffers" {
				continue
			}
			if isNilConst(p.R(p.val(ev, st.Val)).V) {
				continue
			}
			if k, ok := constInt(p.R(p.val(ev, ia.Index)).V); ok {
				slots[k] = true
			}
			{
				// a loop over the slots: accepted when it walks every index of the array
				for _, l := range naturalLoops(st.Parent()) {
					if l.Blocks[st.Block()] {
						if iw := w.loopIndexWalk(l, ia.X); iw.OK && iw.CoversAll {
							all = true
						} else if cl := classifyCountingLoop(l); cl.ok && cl.step == 1 {
							if k, ok := constInt(cl.bound); ok && k == nSlots {
								all = true
							}
						}
					}
				}
			}
		}
		if !all {
			for i := int64(0); i < nSlots; i++ {
				if !slots[i] {
					bad = fmt.Sprintf("the constructor has a path that leaves buffers[%d] nil: draw and the fillers write into it unconditionally", i)
				}
			}
		}
	})
	if over {
		r.Undecided(rule, "bar state constructor: render-path fields", w.pos(mk.Pos()), "path cap")
	} else {
		r.Check(bad == "" && nP > 0 && nSlots > 0, rule, "bar state constructor: render-path fields", w.pos(mk.Pos()), "extender and every buffer slot set on every path", orStr(bad, "no returning path / buffers field not found"))
	}
	// Add: a nil filler is replaced before the state is built
	if add := w.Func("mpb.(*Progress).Add"); add != nil {
		bad := ""
		n := 0
		w.enumPaths(add, pathOpts{InlineDepth: 1, Inline: w.helperInline(add)}, func(p *Path) {
			for _, ev := range p.Events {
				mc, ok := ev.In.(*ssa.MakeClosure)
				if !ok {
					continue
				}
				clo, _ := mc.Fn.(*ssa.Function)
				if clo == nil {
					continue
				}
				clo = boundTarget(clo)
				// the closure that builds the state: calls the constructor
				calls := false
				for _, b := range clo.Blocks {
					for _, in := range b.Instrs {
						if c, ok := in.(*ssa.Call); ok && c.Call.StaticCallee() == mk {
							calls = true
						}
					}
				}
				if !calls {
					continue
				}
				n++
				fillerP := ssa.Value(add.Params[2])
				// the variable holding the filler: the parameter itself or the cell it was spilled into
				var cell *ssa.Alloc
				for _, b := range add.Blocks {
					for _, in := range b.Instrs {
						if st, ok := in.(*ssa.Store); ok && st.Val == fillerP {
							cell, _ = st.Addr.(*ssa.Alloc)
						}
					}
				}
				isFiller := func(v Val) bool {
					if v.V == fillerP || w.origin(v.V) == fillerP {
						return true
					}
					ld, ok := v.V.(*ssa.UnOp)
					return ok && ld.Op == token.MUL && cell != nil && ld.X == ssa.Value(cell)
				}
				nonNil := p.hasCmp(ev.Idx, token.NEQ, isFiller, isNilVal)
				replaced := false
				for _, e2 := range p.Events[:ev.Idx] {
					if st, ok := e2.In.(*ssa.Store); ok && cell != nil && st.Addr == ssa.Value(cell) && st.Val != fillerP {
						replaced = true
					}
				}
				// (when the filler variable is not captured there is no cell: the replacement is a fresh
				// filler built on the path that tested the argument nil)
				if !replaced && p.hasCmp(ev.Idx, token.EQL, isFiller, isNilVal) {
					for _, e2 := range p.Events[:ev.Idx] {
						if c, ok := e2.In.(*ssa.Call); ok && c.Call.IsInvoke() && c.Call.Method.Name() == "Build" {
							replaced = true
						}
					}
				}
				if !nonNil && !replaced {
					bad = "a nil filler reaches the bar state: the first frame calls Fill on a nil interface"
				}
			}
		})
		r.Check(bad == "" && n > 0, rule, "API:Progress.Add nil filler", w.pos(add.Pos()), "nil filler replaced by the no-op filler", orStr(bad, "the closure building the state was not found"))
	}
}

// ruleWidthClamp (W-CLAMP, C07): the width a filler draws into never exceeds the width it is
// offered: CheckRequestedWidth returns the available width, or the requested one only on paths
// that carry requested <= available.
func ruleWidthClamp(w *World, r *Report, pfx string) {
	rule := pfx + ".W-CLAMP"
	fn := w.Func("internal.CheckRequestedWidth")
	if fn == nil || len(fn.Params) != 2 {
		r.Unresolved("anchor", "internal.CheckRequestedWidth", "not found")
		return
	}
	req, avail := ssa.Value(fn.Params[0]), ssa.Value(fn.Params[1])
	bad := ""
	n := 0
	w.enumPaths(fn, pathOpts{InlineDepth: 1, Inline: w.helperInline(fn)}, func(p *Path) {
		if p.Exit != "return" || len(p.Ret) != 1 {
			return
		}
		n++
		rv := p.stripR(p.Ret[0]).V
		switch rv {
		case avail:
		case req:
			isReq, isAvail := func(v Val) bool { return v.V == req }, func(v Val) bool { return v.V == avail }
			if !p.hasCmp(-1, token.LEQ, isReq, isAvail) && !p.hasCmp(-1, token.LSS, isReq, isAvail) {
				bad = "the requested width is returned on a path that does not carry requested <= available: a bar asked to be wider than the space left overflows the row"
			}
		default:
			bad = "the width returned is neither the available nor the requested width"
		}
	})
	r.Check(bad == "" && n > 0, rule, "internal.CheckRequestedWidth", w.pos(fn.Pos()), "min(requested, available) for a usable request", orStr(bad, "no returning path"))
}

// ruleTipCounted (W-TIPCOUNT): in bFiller.Fill a tip frame whose bytes are handed to the writer has been
// counted: on every path, between taking a frame out of the frame slice and reading its bytes
// for the flush, the cell counter was advanced by that frame's width - or the variable was reset
// to the zero component. (W-BOUND demands that the increment is guarded by the space that is
// left; this is the other half: the not-counted branch must not write the frame anyway, which
// is the wide-tip overflow again.)
func ruleTipCounted(w *World, r *Report, pfx string) {
	rule := pfx + ".W-TIPCOUNT"
	fn := w.Func("mpb.(*bFiller).Fill")
	if fn == nil {
		r.Unresolved("anchor", "bFiller.Fill", "not found")
		return
	}
	// the component type, by shape: a named struct of the package with an integer width and a byte slice
	tComp, iWidth, iBytes := "", -1, -1
	sc := w.Mpb.Pkg.Scope()
	for _, name := range sc.Names() {
		tn, ok := sc.Lookup(name).(*types.TypeName)
		if !ok {
			continue
		}
		st, ok := tn.Type().Underlying().(*types.Struct)
		if !ok || st.NumFields() != 2 {
			continue
		}
		wi, bi := -1, -1
		for i := 0; i < 2; i++ {
			switch t := st.Field(i).Type().Underlying().(type) {
			case *types.Basic:
				if t.Kind() == types.Int {
					wi = i
				}
			case *types.Slice:
				if b, ok := t.Elem().Underlying().(*types.Basic); ok && b.Kind() == types.Byte {
					bi = i
				}
			}
		}
		if wi >= 0 && bi >= 0 {
			tComp, iWidth, iBytes = typeName(tn.Type()), wi, bi
		}
	}
	if tComp == "" {
		r.Unresolved("anchor", "component type", "no struct {width int; bytes []byte} in the package")
		return
	}
	type okey struct {
		v ssa.Value
		f *Frame
	}
	bad, seen := "", 0
	var wit []string
	_, over := w.enumPaths(fn, pathOpts{InlineDepth: 2, Inline: w.helperInline(fn)}, func(p *Path) {
		if bad != "" || p.Exit != "return" {
			return
		}
		content := map[okey]*okey{} // local component variable -> frame origin it holds (nil: zero / unknown)
		counted := map[okey]bool{}
		// origin of a component-typed value: a whole-struct load out of a slice element
		var originOf func(v Val, depth int) *okey
		originOf = func(v Val, depth int) *okey {
			if depth > 6 {
				return nil
			}
			v = p.R(v)
			ld, ok := v.V.(*ssa.UnOp)
			if !ok || ld.Op != token.MUL {
				return nil
			}
			addr := p.R(Val{ld.X, v.F, v.E})
			switch a := addr.V.(type) {
			case *ssa.IndexAddr:
				if _, isSlice := a.X.Type().Underlying().(*types.Slice); isSlice && typeName(ld.Type()) == tComp {
					return &okey{ld, v.F}
				}
			case *ssa.Alloc:
				return content[okey{a, addr.F}]
			}
			return nil
		}
		// the component a field read belongs to
		fieldRead := func(ev Event) (*okey, int) {
			switch x := ev.In.(type) {
			case *ssa.Field:
				if typeName(x.X.Type()) == tComp {
					return originOf(Val{x.X, ev.F, ev.E}, 0), x.Field
				}
			case *ssa.UnOp:
				if x.Op != token.MUL {
					return nil, -1
				}
				if fa, ok := x.X.(*ssa.FieldAddr); ok && typeName(fa.X.Type()) == tComp {
					base := p.R(Val{fa.X, ev.F, ev.E})
					if al, ok := base.V.(*ssa.Alloc); ok {
						return content[okey{al, base.F}], fa.Field
					}
				}
			}
			return nil, -1
		}
		widthReads := map[okey]*okey{} // the value of a width read -> its component
		for _, ev := range p.Events {
			switch x := ev.In.(type) {
			case *ssa.Store:
				addr := p.val(ev, x.Addr)
				if al, ok := addr.V.(*ssa.Alloc); ok && typeName(x.Val.Type()) == tComp {
					content[okey{al, addr.F}] = originOf(Val{x.Val, ev.F, ev.E}, 0)
				}
			case *ssa.BinOp:
				if x.Op == token.ADD {
					for _, o := range []ssa.Value{x.X, x.Y} {
						ov := p.val(ev, o)
						if c := widthReads[okey{ov.V, ov.F}]; c != nil {
							counted[*c] = true
						}
					}
				}
			}
			if c, f := fieldRead(ev); c != nil {
				v, _ := ev.In.(ssa.Value)
				switch f {
				case iWidth:
					widthReads[okey{v, ev.F}] = c
				case iBytes:
					seen++
					if !counted[*c] {
						bad = "on a path the bytes of a tip frame are taken for writing (" + w.instrPos(ev.In) + ") although the cell counter was not advanced by its width: a frame that did not fit is written anyway"
						wit = p.describe()
					}
				}
			}
		}
	})
	if over {
		r.Undecided(rule, "tip frame in bFiller.Fill", w.pos(fn.Pos()), "path cap reached")
		return
	}
	if seen == 0 && bad == "" {
		r.Undecided(rule, "tip frame in bFiller.Fill", w.pos(fn.Pos()), "no path on which a frame taken out of the frame slice is written was identified")
		return
	}
	r.Check(bad == "", rule, "tip frame in bFiller.Fill", w.pos(fn.Pos()), "written only when counted", bad, wit...)
}

// linear form over the atoms p (a parameter) and p/k: coefficients by atom name, constant under "".
type linForm map[string]int64

func (a linForm) add(b linForm, sign int64) linForm {
	out := linForm{}
	for k, v := range a {
		out[k] += v
	}
	for k, v := range b {
		out[k] += sign * v
	}
	for k, v := range out {
		if v == 0 {
			delete(out, k)
		}
	}
	return out
}

// linOf: v as a linear form in the parameter par; p%k is rewritten to p - k*(p/k) (the division identity).
func linOf(v ssa.Value, par *ssa.Parameter, depth int) (linForm, bool) {
	if depth > 8 {
		return nil, false
	}
	if v == ssa.Value(par) {
		return linForm{"p": 1}, true
	}
	if k, ok := constInt(v); ok {
		if k == 0 {
			return linForm{}, true
		}
		return linForm{"": k}, true
	}
	switch x := v.(type) {
	case *ssa.Phi:
		// all edges agree
		var first linForm
		for i, e := range x.Edges {
			f, ok := linOf(e, par, depth+1)
			if !ok {
				return nil, false
			}
			if i == 0 {
				first = f
			} else if len(first.add(f, -1)) != 0 {
				return nil, false
			}
		}
		return first, first != nil
	case *ssa.BinOp:
		switch x.Op {
		case token.ADD, token.SUB:
			a, ok1 := linOf(x.X, par, depth+1)
			b, ok2 := linOf(x.Y, par, depth+1)
			if !ok1 || !ok2 {
				return nil, false
			}
			if x.Op == token.ADD {
				return a.add(b, 1), true
			}
			return a.add(b, -1), true
		case token.QUO, token.REM:
			k, ok := constInt(x.Y)
			if !ok || k <= 0 || x.X != ssa.Value(par) {
				return nil, false
			}
			q := fmt.Sprintf("p/%d", k)
			if x.Op == token.QUO {
				return linForm{q: 1}, true
			}
			return linForm{"p": 1, q: -k}, true
		case token.MUL:
			if k, ok := constInt(x.Y); ok {
				a, ok := linOf(x.X, par, depth+1)
				if !ok {
					return nil, false
				}
				return linForm{}.add(a, k), true
			}
			if k, ok := constInt(x.X); ok {
				a, ok := linOf(x.Y, par, depth+1)
				if !ok {
					return nil, false
				}
				return linForm{}.add(a, k), true
			}
		case token.SHR:
			if k, ok := constInt(x.Y); ok && k == 1 && x.X == ssa.Value(par) {
				return linForm{"p/2": 1}, true
			}
		case token.AND:
			if k, ok := constInt(x.Y); ok && k == 1 && x.X == ssa.Value(par) {
				return linForm{"p": 1, "p/2": -2}, true
			}
		}
	}
	return nil, false
}

// ruleSpinnerBody (W-SPIN): the spinner body occupies exactly the width allotted to it.
//  (a) Fill writes position(meta(frame), width - frameWidth), where frameWidth is the display width of
//      that same frame and width the checked requested width;
//  (b) every position function stored by Build returns the frame once plus runs of single spaces
//      whose counts add up to the pad it is given (p/2 + p/2 + p%2 == p by the division identity);
//  (c) Build stores a position function on every path (a nil function panics at the first render).
func ruleSpinnerBody(w *World, r *Report, pfx string) {
	rule := pfx + ".W-SPIN"
	fill := w.spinnerFill()
	if fill == nil {
		r.Unresolved("anchor", "spinner filler's Fill", "no Fill method on a struct with a func(string, int) string field")
		return
	}
	// (a)
	bad, saw := "", false
	w.enumPaths(fill, pathOpts{InlineDepth: 2, Inline: w.helperInline(fill)}, func(p *Path) {
		if p.Exit != "return" || bad != "" {
			return
		}
		for _, ev := range p.Events {
			c, ok := ev.In.(*ssa.Call)
			if !ok || c.Call.IsInvoke() || c.Call.StaticCallee() != nil || !isPosSig(c.Call.Value.Type()) || len(c.Call.Args) != 2 {
				continue
			}
			saw = true
			pad := p.val(ev, c.Call.Args[1])
			sub, ok := pad.V.(*ssa.BinOp)
			if !ok || sub.Op != token.SUB {
				bad = "the pad handed to the position function is not `width - frameWidth` (" + w.instrPos(c) + ")"
				return
			}
			wv := p.R(Val{sub.X, pad.F, pad.E})
			fw := p.R(Val{sub.Y, pad.F, pad.E})
			wc, ok1 := stripConv(wv.V).(*ssa.Call)
			fc, ok2 := stripConv(fw.V).(*ssa.Call)
			if !ok1 || wc.Call.StaticCallee() == nil || wc.Call.StaticCallee().Name() != "CheckRequestedWidth" {
				bad = "the pad is not computed from the checked requested width"
				return
			}
			if !ok2 || fc.Call.StaticCallee() == nil || fc.Call.StaticCallee().Name() != "StringWidth" {
				bad = "the pad is not computed from the display width of the frame"
				return
			}
			// the frame written is the frame measured (possibly through the meta function)
			fr := p.R(Val{c.Call.Args[0], ev.F, ev.E})
			if mc, ok := fr.V.(*ssa.Call); ok && mc.Call.StaticCallee() == nil && len(mc.Call.Args) == 1 {
				fr = p.R(Val{mc.Call.Args[0], fr.F, fr.E})
			}
			measured := p.R(Val{fc.Call.Args[0], fw.F, fw.E})
			if fr.V != measured.V {
				bad = "the frame handed to the position function is not the frame whose width was measured"
				return
			}
			// and its result is what is written
			written := false
			for _, ev2 := range p.Events[ev.Idx+1:] {
				if c2, ok := ev2.In.(*ssa.Call); ok && c2.Call.StaticCallee() != nil && c2.Call.StaticCallee().String() == "io.WriteString" {
					if p.val(ev2, c2.Call.Args[1]).V == ssa.Value(c) {
						written = true
					}
				}
			}
			if !written {
				bad = "the positioned frame is not what is written"
			}
		}
	})
	r.Check(bad == "" && saw, rule, "sFiller.Fill body", w.pos(fill.Pos()), "writes position(meta(frame), width - width(frame))", orStr(bad, "no call of the position function found"))
	// (b) and (c): the position field of the filler's struct
	recv := fill.Signature.Recv().Type()
	stT := structOf(recv)
	if stT == nil {
		r.Undecided(rule, "spinner filler struct", w.pos(fill.Pos()), "receiver is not a struct pointer")
		return
	}
	owner := typeName(recv)
	posField := -1
	for i := 0; i < stT.NumFields(); i++ {
		if isPosSig(stT.Field(i).Type()) {
			posField = i
		}
	}
	if posField < 0 {
		r.Undecided(rule, "position field", w.pos(fill.Pos()), "no func(string, int) string field in "+owner)
		return
	}
	nFn := 0
	builders := map[*ssa.Function]bool{}
	for _, fn := range w.ModFns {
		for _, b := range fn.Blocks {
			for _, in := range b.Instrs {
				st, ok := in.(*ssa.Store)
				if !ok {
					continue
				}
				fa, ok := st.Addr.(*ssa.FieldAddr)
				if !ok || fa.Field != posField || typeName(fa.X.Type()) != owner {
					continue
				}
				builders[fn] = true
				var pf *ssa.Function
				switch x := st.Val.(type) {
				case *ssa.Function:
					pf = x
				case *ssa.MakeClosure:
					pf, _ = x.Fn.(*ssa.Function)
				}
				if pf == nil {
					r.Undecided(rule, "position function stored in "+fnShort(fn), w.instrPos(st), "not a function literal")
					continue
				}
				nFn++
				r.Check(spinnerPositionOK(pf) == "", rule, "position function "+fnShort(pf), w.pos(pf.Pos()), "frame once, space runs add up to the pad", spinnerPositionOK(pf))
			}
		}
	}
	r.Floor(rule, 2, "Fill body and position functions")
	for fn := range builders {
		bad := ""
		w.enumPaths(fn, pathOpts{}, func(p *Path) {
			if p.Exit != "return" || bad != "" {
				return
			}
			stored := false
			for _, ev := range p.Events {
				if st, ok := ev.In.(*ssa.Store); ok {
					if fa, ok := st.Addr.(*ssa.FieldAddr); ok && fa.Field == posField && typeName(fa.X.Type()) == owner && !isNilConst(st.Val) {
						stored = true
					}
				}
			}
			if !stored {
				bad = "a path through " + fnShort(fn) + " returns a spinner filler without a position function (" + pathExitPos(w, p) + "): the first render calls a nil function"
			}
		})
		r.Check(bad == "", rule, "position set on every path of "+fnShort(fn), w.pos(fn.Pos()), "a position function is stored on every path", bad)
	}
}

// spinnerPositionOK: "" when every return of pf is a concatenation of its string parameter (once) and
// strings.Repeat(<one-column constant>, n_i) with sum n_i == the int parameter.
func spinnerPositionOK(pf *ssa.Function) string {
	pf = boundTarget(pf) // a method value: the method itself (receiver first)
	if len(pf.Params) < 2 {
		return "unexpected signature"
	}
	frame, pad := pf.Params[len(pf.Params)-2], pf.Params[len(pf.Params)-1]
	nRet := 0
	for _, b := range pf.Blocks {
		ret, ok := b.Instrs[len(b.Instrs)-1].(*ssa.Return)
		if !ok || len(ret.Results) != 1 {
			continue
		}
		nRet++
		frames := 0
		sum := linForm{}
		var walk func(v ssa.Value, depth int) string
		walk = func(v ssa.Value, depth int) string {
			if depth > 12 {
				return "expression too deep"
			}
			if v == ssa.Value(frame) {
				frames++
				return ""
			}
			switch x := v.(type) {
			case *ssa.Const:
				if x.Value != nil && x.Value.ExactString() == `""` {
					return ""
				}
				return "a constant string is added to the frame"
			case *ssa.BinOp:
				if x.Op == token.ADD {
					if e := walk(x.X, depth+1); e != "" {
						return e
					}
					return walk(x.Y, depth+1)
				}
			case *ssa.Call:
				if sc := x.Call.StaticCallee(); sc != nil && sc.String() == "strings.Repeat" {
					c, ok := x.Call.Args[0].(*ssa.Const)
					if !ok || c.Value == nil || len(constant.StringVal(c.Value)) != 1 {
						return "the padding unit is not a one-column constant"
					}
					f, ok := linOf(x.Call.Args[1], pad, 0)
					if !ok {
						return "a padding count outside the linear grammar (p, p/k, p%k, +, -, constants)"
					}
					sum = sum.add(f, 1)
					return ""
				}
			}
			return "the returned string is not built from the frame and strings.Repeat paddings only"
		}
		if e := walk(ret.Results[0], 0); e != "" {
			return e
		}
		if frames != 1 {
			return fmt.Sprintf("the frame occurs %d times in the result", frames)
		}
		if d := sum.add(linForm{"p": 1}, -1); len(d) != 0 {
			return "the padding counts do not add up to the pad width (body wider or narrower than the width allotted to it)"
		}
	}
	if nRet == 0 {
		return "no return"
	}
	return ""
}

// isPosSig: func(string, int) string - the shape of the spinner's position function.
func isPosSig(t types.Type) bool {
	sg, ok := t.Underlying().(*types.Signature)
	if !ok || sg.Params().Len() != 2 || sg.Results().Len() != 1 {
		return false
	}
	b0, ok0 := sg.Params().At(0).Type().Underlying().(*types.Basic)
	b1, ok1 := sg.Params().At(1).Type().Underlying().(*types.Basic)
	br, ok2 := sg.Results().At(0).Type().Underlying().(*types.Basic)
	return ok0 && ok1 && ok2 && b0.Kind() == types.String && b1.Kind() == types.Int && br.Kind() == types.String
}

// spinnerFill: the Fill method of the spinner filler, found by shape (its struct carries the
// position function), so that the type and its fields may be renamed.
func (w *World) spinnerFill() *ssa.Function {
	if fn := w.Func("mpb.(*sFiller).Fill"); fn != nil {
		return fn
	}
	for _, fn := range w.ModFns {
		if fn.Pkg != w.Mpb || fn.Name() != "Fill" || fn.Signature.Recv() == nil || fn.Synthetic != "" {
			continue
		}
		st := structOf(fn.Signature.Recv().Type())
		if st == nil {
			continue
		}
		for i := 0; i < st.NumFields(); i++ {
			if isPosSig(st.Field(i).Type()) {
				return fn
			}
		}
	}
	return nil
}

// ruleUserFillerKept (A-USERFILLER): Progress.Add replaces the caller's filler only when it is nil (a nil
// interface or a nil BarFillerFunc): every store of another value into the filler variable sits
// on a path that carries `filler == nil` (or `f == nil` for the asserted function value). A
// replacement on any other path silently draws every bar with the no-op filler.
func ruleUserFillerKept(w *World, r *Report, pfx string) {
	rule := pfx + ".A-USERFILLER"
	add := w.Func("mpb.(*Progress).Add")
	if add == nil || len(add.Params) < 3 {
		r.Unresolved("anchor", "Progress.Add", "not found")
		return
	}
	fillerP := ssa.Value(add.Params[2])
	var cell *ssa.Alloc
	for _, b := range add.Blocks {
		for _, in := range b.Instrs {
			if st, ok := in.(*ssa.Store); ok && st.Val == fillerP {
				cell, _ = st.Addr.(*ssa.Alloc)
			}
		}
	}
	bad := ""
	nPaths := 0
	_, over := w.enumPaths(add, pathOpts{InlineDepth: 1, Inline: w.helperInline(add)}, func(p *Path) {
		nPaths++
		if bad != "" {
			return
		}
		isFiller := func(v Val) bool {
			if v.V == fillerP || w.origin(v.V) == fillerP {
				return true
			}
			if ld, ok := v.V.(*ssa.UnOp); ok && ld.Op == token.MUL && cell != nil && ld.X == ssa.Value(cell) {
				return true
			}
			// the value asserted out of the filler: f, ok := filler.(BarFillerFunc)
			if ex, ok := v.V.(*ssa.Extract); ok && ex.Index == 0 {
				if ta, ok := ex.Tuple.(*ssa.TypeAssert); ok {
					x := p.R(Val{ta.X, v.F, v.E})
					if x.V == fillerP || w.origin(x.V) == fillerP {
						return true
					}
					if ld, ok := x.V.(*ssa.UnOp); ok && ld.Op == token.MUL && cell != nil && ld.X == ssa.Value(cell) {
						return true
					}
				}
			}
			return false
		}
		for _, ev := range p.Events {
			replaced := false
			switch x := ev.In.(type) {
			case *ssa.Store:
				replaced = cell != nil && x.Addr == ssa.Value(cell) && x.Val != fillerP
			}
			if replaced && !p.hasCmp(ev.Idx, token.EQL, isFiller, isNilVal) {
				bad = "the caller's filler is replaced (" + w.instrPos(ev.In) + ") on a path that does not carry `filler == nil`"
			}
		}
		// without a cell (the variable is not captured): the value handed on is a phi; every
		// non-parameter edge must come from a block reached under the nil test - checked on the path
		if cell == nil {
			for _, ev := range p.Events {
				mc, ok := ev.In.(*ssa.MakeClosure)
				if !ok {
					continue
				}
				for _, bnd := range mc.Bindings {
					if !types.Identical(bnd.Type(), fillerP.Type()) {
						continue
					}
					v := p.val(ev, bnd)
					if v.V != fillerP && w.origin(v.V) != fillerP && !p.hasCmp(ev.Idx, token.EQL, isFiller, isNilVal) {
						bad = "the filler handed to the bar constructor is not the caller's on a path that does not carry `filler == nil`"
					}
				}
			}
		}
	})
	if over {
		r.Undecided(rule, "API:Progress.Add filler kept", w.pos(add.Pos()), "path cap")
		return
	}
	r.Check(bad == "" && nPaths > 0, rule, "API:Progress.Add filler kept", w.pos(add.Pos()), "replaced only when nil", orStr(bad, "no path"))
}

// ruleIsTerminal (T-ISTERM): the platform probe behind Writer.IsTerminal answers "terminal" exactly
// when the probing system call succeeded: every return is `err == nil` of the probe's error (or,
// path by path, true under err == nil and false under err != nil). Inverted, a real terminal is
// written to like a pipe and a pipe gets cursor movement - and the size of a terminal is never asked.
func ruleIsTerminal(w *World, r *Report, pfx string) {
	rule := pfx + ".T-ISTERM"
	fn := w.Func("cwriter.IsTerminal")
	if fn == nil {
		r.Unresolved("anchor", "cwriter.IsTerminal", "not found")
		return
	}
	errT := types.Universe.Lookup("error").Type()
	isErrV := func(v Val) bool {
		_, isConst := v.V.(*ssa.Const)
		return !isConst && types.Identical(v.V.Type(), errT)
	}
	bad := ""
	n := 0
	w.enumPaths(fn, pathOpts{}, func(p *Path) {
		if p.Exit != "return" || len(p.Ret) != 1 || bad != "" {
			return
		}
		n++
		rv := p.stripR(p.Ret[0])
		if bin, ok := rv.V.(*ssa.BinOp); ok {
			x, y := p.R(Val{bin.X, rv.F, rv.E}), p.R(Val{bin.Y, rv.F, rv.E})
			if bin.Op == token.EQL && ((isErrV(x) && isNilVal(y)) || (isErrV(y) && isNilVal(x))) {
				return
			}
			bad = "IsTerminal does not return `err == nil` of the probe"
			return
		}
		if c, ok := rv.V.(*ssa.Const); ok && c.Value != nil {
			val := constant.BoolVal(c.Value)
			if val && p.hasCmp(-1, token.EQL, isErrV, isNilVal) {
				return
			}
			if !val && p.hasCmp(-1, token.NEQ, isErrV, isNilVal) {
				return
			}
		}
		bad = "IsTerminal's answer does not follow the success of the probe"
	})
	r.Check(bad == "" && n > 0, rule, "cwriter.IsTerminal", w.pos(fn.Pos()), "terminal iff the probe succeeded", orStr(bad, "no return"))
}

// ruleIsRunning (G-RUNNING, C14): Bar.IsRunning polls the bar's context: false exactly on the path
// that received from ctx.Done(), true on the default path. (Shutdown and cancellation are
// observed by clients through this getter: "every bar stops (IsRunning false)".)
func ruleIsRunning(w *World, r *Report, pfx string) {
	rule := pfx + ".G-RUNNING"
	fn := w.Func("mpb.(*Bar).IsRunning")
	if fn == nil {
		r.Unresolved("anchor", "API:Bar.IsRunning", "not found")
		return
	}
	var sel *ssa.Select
	doneArm := -1
	for _, op := range w.Comm().byFn[fn] {
		if op.Kind != "select" {
			continue
		}
		for i, s := range op.States {
			if s.Dir == types.RecvOnly && s.Class.only("Done(Bar.ctx)") {
				sel, doneArm = op.Instr.(*ssa.Select), i
			}
		}
	}
	if sel == nil {
		r.Violated(rule, "API:Bar.IsRunning", w.pos(fn.Pos()), "IsRunning does not poll the bar's context: it cannot turn false on cancellation")
		return
	}
	bad := ""
	sawT, sawF := false, false
	w.enumPaths(fn, pathOpts{}, func(p *Path) {
		if p.Exit != "return" || len(p.Ret) != 1 || bad != "" {
			return
		}
		bv, ok := constBool(p.stripR(p.Ret[0]).V)
		if !ok {
			bad = "IsRunning returns a value that is not decided by the poll alone"
			return
		}
		k := p.armTaken(sel)
		switch {
		case k == doneArm && bv:
			bad = "IsRunning reports a cancelled bar as running"
		case k != doneArm && !bv:
			bad = "IsRunning reports a live bar as stopped"
		case bv:
			sawT = true
		default:
			sawF = true
		}
	})
	if sel.Blocking {
		bad = orStr(bad, "the poll blocks")
	}
	r.Check(bad == "" && sawT && sawF, rule, "API:Bar.IsRunning", w.pos(fn.Pos()), "false iff ctx.Done() is closed", orStr(bad, "a branch is missing"))
}

// ruleOnFinalDecorations (F-ONFINAL, C03): the on-complete / on-abort wrappers show their decoration
// exactly in the final state they are named after. For OnComplete, OnCompleteMeta, OnAbort,
// OnAbortMeta (the Decor method of the wrapper type the constructor returns) and
// BarFillerOnComplete, BarFillerOnAbort (the filler closure built inside): a path does something
// of its own (prints the message, applies the meta function, writes the text) iff it carries
// Statistics.Completed (resp. Aborted) true; every other path only delegates.
func ruleOnFinalDecorations(w *World, r *Report, pfx string) {
	rule := pfx + ".F-ONFINAL"
	specs := []struct{ ctor, flag string }{
		{"decor.OnComplete", "Completed"}, {"decor.OnCompleteMeta", "Completed"},
		{"decor.OnAbort", "Aborted"}, {"decor.OnAbortMeta", "Aborted"},
		{"mpb.BarFillerOnComplete", "Completed"}, {"mpb.BarFillerOnAbort", "Aborted"},
	}
	hasStatParam := func(f *ssa.Function) bool {
		for _, p := range f.Params {
			if typeName(p.Type()) == tStat {
				return true
			}
		}
		return false
	}
	for _, sp := range specs {
		ctor := w.Func(sp.ctor)
		if ctor == nil {
			r.Unresolved("anchor", "API:"+sp.ctor, "not found")
			continue
		}
		// candidates
		var cands []*ssa.Function
		made := map[string]bool{}
		for f := range w.unit(ctor) {
			for _, b := range f.Blocks {
				for _, in := range b.Instrs {
					if mi, ok := in.(*ssa.MakeInterface); ok {
						made[typeName(mi.X.Type())] = true
					}
				}
			}
		}
		for _, f := range w.ModFns {
			if f.Synthetic != "" || !hasStatParam(f) {
				continue
			}
			if f.Signature.Recv() != nil && f.Name() == "Decor" && made[typeName(f.Signature.Recv().Type())] {
				cands = append(cands, f)
			}
			if f.Parent() != nil && rootFn(f) == ctor {
				cands = append(cands, f)
			}
		}
		// only the functions that draw (a filler or a Decor), and only when they read the flag themselves:
		// a test delegated to a predicate value (`if !event(st)`) is not decided here
		readsFlag := func(f *ssa.Function) bool {
			for _, b := range f.Blocks {
				for _, in := range b.Instrs {
					var fr fieldRef
					var ok bool
					switch x := in.(type) {
					case *ssa.FieldAddr:
						fr, ok = fieldOf(x)
					case *ssa.Field:
						fr, ok = fieldOf(x)
					}
					if ok && fr.Owner == tStat && fr.Name == sp.flag {
						return true
					}
				}
			}
			return false
		}
		var drawing []*ssa.Function
		for _, f := range cands {
			res := f.Signature.Results()
			isDraw := (res.Len() == 1 && types.Identical(res.At(0).Type(), types.Universe.Lookup("error").Type())) || (res.Len() == 2 && f.Name() == "Decor")
			if !isDraw {
				continue
			}
			if readsFlag(f) {
				drawing = append(drawing, f)
				continue
			}
			// no read of the flag: a test delegated to a predicate value (some call yields a bool) is not
			// decided; without any such call the function cannot tell the final state at all
			delegated := false
			for _, b := range f.Blocks {
				for _, in := range b.Instrs {
					if c, ok := in.(*ssa.Call); ok && types.Identical(c.Type(), types.Typ[types.Bool]) {
						delegated = true
					}
				}
			}
			if !delegated {
				r.Violated(rule, sp.ctor+": "+fnShort(f), w.pos(f.Pos()), "the drawing function never looks at Statistics."+sp.flag+": the decoration is shown always or never")
			}
		}
		cands = drawing
		if len(cands) == 0 {
			r.HoldsTrivial(rule, "API:"+sp.ctor, w.pos(ctor.Pos()), "no drawing function under this constructor tests Statistics."+sp.flag+" itself (delegated test): not decided")
			continue
		}
		for _, f := range cands {
			bad := ""
			sawOwn, sawPlain := false, false
			_, over := w.enumPaths(f, pathOpts{InlineDepth: 2, Inline: w.helperInline(f)}, func(p *Path) {
				if p.Exit != "return" || bad != "" {
					return
				}
				own := false
				for _, ev := range p.Events {
					c, ok := ev.In.(*ssa.Call)
					if !ok {
						continue
					}
					if _, isB := c.Call.Value.(*ssa.Builtin); isB {
						continue
					}
					if c.Call.IsInvoke() && (c.Call.Method.Name() == "Decor" || c.Call.Method.Name() == "Fill") {
						continue
					}
					if sc := c.Call.StaticCallee(); sc != nil && w.modSet[sc] {
						continue // a private helper: its body is walked in line
					}
					own = true
				}
				t := p.hasBool(-1, true, loadOf(tStat, sp.flag))
				fl := p.hasBool(-1, false, loadOf(tStat, sp.flag))
				switch {
				case own && !t:
					bad = "the " + sp.flag + " decoration is shown on a path that does not carry Statistics." + sp.flag
				case !own && !fl:
					bad = "the wrapped decorator / filler is shown unchanged on a path that does not carry !Statistics." + sp.flag
				case own:
					sawOwn = true
				default:
					sawPlain = true
				}
			})
			if over {
				r.Undecided(rule, sp.ctor+": "+fnShort(f), w.pos(f.Pos()), "path cap")
				continue
			}
			r.Check(bad == "" && sawOwn && sawPlain, rule, sp.ctor+": "+fnShort(f), w.pos(f.Pos()), "own decoration iff Statistics."+sp.flag, orStr(bad, "one of the two behaviours is missing"))
		}
	}
	r.Floor(rule, 4, "on-complete / on-abort wrappers and filler options")
}

// ruleDefaultFormat (V-DEFAULTFMT, C20): the documented default format of the counter, percentage and
// speed decorators is installed exactly when the caller passed "": in every decor function that
// tests its format against "" and stores a constant format into the variable, each path that
// carries `format == ""` stores a non-empty constant, each path that carries `format != ""`
// stores nothing, and no path gets past the test without carrying one of the two (a test folded
// to a constant). An empty format otherwise reaches fmt.Sprintf and the decorator prints
// "%!(EXTRA ...)" instead of the value; a default forced over the caller's format ignores the
// verb and precision that were asked for.
func ruleDefaultFormat(w *World, r *Report, pfx string) {
	rule := pfx + ".V-DEFAULTFMT"
	isEmpty := func(v Val) bool {
		c, ok := v.V.(*ssa.Const)
		return ok && c.Value != nil && c.Value.Kind() == constant.String && constant.StringVal(c.Value) == ""
	}
	isStrCell := func(a ssa.Value) bool {
		pt, ok := a.Type().Underlying().(*types.Pointer)
		if !ok {
			return false
		}
		b, ok := pt.Elem().Underlying().(*types.Basic)
		if !ok || b.Kind() != types.String {
			return false
		}
		switch a.(type) {
		case *ssa.FreeVar, *ssa.Alloc:
			return true
		}
		return false
	}
	n := 0
	for _, fn := range w.ModFns {
		if fn.Pkg != w.Decor || fn.Synthetic != "" {
			continue
		}
		// the idiom: a comparison of a loaded string cell with "" and a constant store into that cell
		cells := map[ssa.Value]bool{}
		var tests []*ssa.BinOp
		for _, b := range fn.Blocks {
			for _, in := range b.Instrs {
				bin, ok := in.(*ssa.BinOp)
				if !ok || (bin.Op != token.EQL && bin.Op != token.NEQ) {
					continue
				}
				for _, pr := range [][2]ssa.Value{{bin.X, bin.Y}, {bin.Y, bin.X}} {
					if !isEmpty(Val{V: pr[1]}) {
						continue
					}
					if ld, ok := pr[0].(*ssa.UnOp); ok && ld.Op == token.MUL && isStrCell(ld.X) {
						cells[ld.X] = true
						tests = append(tests, bin)
					}
				}
			}
		}
		hasStore := false
		for _, b := range fn.Blocks {
			for _, in := range b.Instrs {
				if st, ok := in.(*ssa.Store); ok && cells[st.Addr] {
					if _, isK := st.Val.(*ssa.Const); isK {
						hasStore = true
					}
				}
			}
		}
		if len(tests) == 0 || !hasStore {
			continue
		}
		n++
		isFmt := func(v Val) bool {
			ld, ok := v.V.(*ssa.UnOp)
			return ok && ld.Op == token.MUL && cells[ld.X]
		}
		bad := ""
		_, over := w.enumPaths(fn, pathOpts{Inline: func(ssa.CallInstruction, *ssa.Function) bool { return false }}, func(p *Path) {
			if p.Exit != "return" || bad != "" {
				return
			}
			tested, stored := false, false
			for _, ev := range p.Events {
				switch x := ev.In.(type) {
				case *ssa.BinOp:
					for _, t := range tests {
						if x == t {
							tested = true
						}
					}
				case *ssa.Store:
					if _, spill := x.Val.(*ssa.Parameter); spill {
						continue // the parameter moved into its cell at entry
					}
					if cells[x.Addr] {
						stored = true
						if c, ok := x.Val.(*ssa.Const); !ok || isEmpty(Val{V: c}) {
							bad = "the format variable is overwritten with something else than a non-empty constant default (" + w.instrPos(x) + ")"
						}
					}
				}
			}
			if !tested {
				if stored {
					bad = "a default format is stored on a path that never tested the caller's format"
				}
				// a text producer that captures the format variable is built on this path: the other
				// paths of this function give it a default, this one does not
				for _, ev := range p.Events {
					if mc, ok := ev.In.(*ssa.MakeClosure); ok {
						for _, bnd := range mc.Bindings {
							if cells[bnd] {
								bad = "a producer using the format is built (" + w.instrPos(mc) + ") on a path that never tested the caller's format against \"\""
							}
						}
					}
				}
				return
			}
			empty := p.hasCmp(-1, token.EQL, isFmt, isEmpty)
			nonEmpty := p.hasCmp(-1, token.NEQ, isFmt, isEmpty)
			switch {
			case !empty && !nonEmpty:
				bad = "a path gets past the test of the format against \"\" without carrying its outcome (the test is constant)"
			case empty && !stored:
				bad = "a path that carries format == \"\" installs no default: fmt.Sprintf gets an empty format"
			case nonEmpty && stored:
				bad = "a path that carries format != \"\" overwrites the caller's format with the default"
			}
		})
		if over {
			r.Undecided(rule, "default format in "+fnShort(fn), w.pos(fn.Pos()), "path cap")
			continue
		}
		r.Check(bad == "", rule, "default format in "+fnShort(fn), w.pos(fn.Pos()), "default installed iff the caller's format is empty", bad)
	}
	// the same decision made by a helper: `func orDefault(format, def string) string`
	for _, fn := range w.ModFns {
		if fn.Pkg != w.Decor || fn.Synthetic != "" || fn.Signature.Results().Len() != 1 {
			continue
		}
		if b, ok := fn.Signature.Results().At(0).Type().Underlying().(*types.Basic); !ok || b.Kind() != types.String {
			continue
		}
		var par *ssa.Parameter
		for _, b := range fn.Blocks {
			for _, in := range b.Instrs {
				bin, ok := in.(*ssa.BinOp)
				if !ok || (bin.Op != token.EQL && bin.Op != token.NEQ) {
					continue
				}
				for _, pr := range [][2]ssa.Value{{bin.X, bin.Y}, {bin.Y, bin.X}} {
					if q, ok := pr[0].(*ssa.Parameter); ok && isEmpty(Val{V: pr[1]}) {
						par = q
					}
				}
			}
		}
		if par == nil {
			continue
		}
		n++
		bad := ""
		isPar := func(v Val) bool { return v.V == ssa.Value(par) }
		w.enumPaths(fn, pathOpts{Inline: func(ssa.CallInstruction, *ssa.Function) bool { return false }}, func(p *Path) {
			if p.Exit != "return" || len(p.Ret) != 1 || bad != "" {
				return
			}
			rv := p.stripR(p.Ret[0])
			switch {
			case p.hasCmp(-1, token.EQL, isPar, isEmpty):
				if rv.V == ssa.Value(par) || isEmpty(rv) {
					bad = "an empty format is handed back unchanged"
				}
			case p.hasCmp(-1, token.NEQ, isPar, isEmpty):
				if rv.V != ssa.Value(par) {
					bad = "a non-empty format of the caller is replaced"
				}
			}
		})
		r.Check(bad == "", rule, "default format in "+fnShort(fn), w.pos(fn.Pos()), "the caller's format unless it is empty", bad)
	}
	r.Floor(rule, 1, "counters, percentage and speed constructors (or the helper that picks the default for them)")
}

// ruleNormalizerGuard (V-NORMGUARD, C20): the optional time normaliser of the ETA decorators is called
// exactly when there is one: every invoke of Normalize sits on a path that carries `normalizer !=
// nil` for the value it is invoked on (the default is nil: an unguarded call panics in the first
// frame), and a path that carries `normalizer != nil` does call it.
func ruleNormalizerGuard(w *World, r *Report, pfx string) {
	rule := pfx + ".V-NORMGUARD"
	n := 0
	for _, fn := range w.ModFns {
		if fn.Pkg != w.Decor || fn.Synthetic != "" {
			continue
		}
		has := false
		for _, b := range fn.Blocks {
			for _, in := range b.Instrs {
				if c, ok := in.(*ssa.Call); ok && c.Call.IsInvoke() && c.Call.Method.Name() == "Normalize" {
					has = true
				}
			}
		}
		if !has {
			continue
		}
		n++
		bad := ""
		_, over := w.enumPaths(fn, pathOpts{Inline: func(ssa.CallInstruction, *ssa.Function) bool { return false }}, func(p *Path) {
			if p.Exit != "return" || bad != "" {
				return
			}
			called := false
			for _, ev := range p.Events {
				c, ok := ev.In.(*ssa.Call)
				if !ok || !c.Call.IsInvoke() || c.Call.Method.Name() != "Normalize" {
					continue
				}
				called = true
				recv := p.val(ev, c.Call.Value)
				same := func(v Val) bool { return v.V == recv.V || sameValueExpr(v.V, recv.V, 0) }
				if !p.hasCmp(ev.Idx, token.NEQ, same, isNilVal) {
					bad = "Normalize is invoked (" + w.instrPos(c) + ") on a path that does not carry `normalizer != nil`: with the default (no normaliser) the decorator panics"
				}
			}
			if !called {
				isNorm := func(v Val) bool {
					return typeName(v.V.Type()) == "decor.TimeNormalizer"
				}
				if p.hasCmp(-1, token.NEQ, isNorm, isNilVal) {
					bad = "a path carries `normalizer != nil` and does not apply the normaliser"
				}
			}
		})
		if over {
			r.Undecided(rule, "normaliser in "+fnShort(fn), w.pos(fn.Pos()), "path cap")
			continue
		}
		r.Check(bad == "", rule, "normaliser in "+fnShort(fn), w.pos(fn.Pos()), "called iff non-nil", bad)
	}
	r.Floor(rule, 1, "ETA decorators with an optional normaliser")
}

// ruleAverageSet (V-AVGSET, C20): no estimator is built around a nil moving average. In every decor
// function, a value of the moving-average interface type that is stored into a decorator field
// or handed to another decor function is, path by path, neither the nil constant nor a parameter
// on a path that carries `parameter == nil` (the documented default must have been installed).
func ruleAverageSet(w *World, r *Report, pfx string) {
	rule := pfx + ".V-AVGSET"
	isAvgT := func(t types.Type) bool { return strings.HasSuffix(typeName(t), "ewma.MovingAverage") }
	n := 0
	for _, fn := range w.ModFns {
		if fn.Pkg != w.Decor || fn.Synthetic != "" {
			continue
		}
		uses := false
		for _, b := range fn.Blocks {
			for _, in := range b.Instrs {
				switch x := in.(type) {
				case *ssa.Store:
					if _, isF := x.Addr.(*ssa.FieldAddr); isF && isAvgT(x.Val.Type()) {
						uses = true
					}
				case *ssa.Call:
					if sc := x.Call.StaticCallee(); sc != nil && sc.Pkg == w.Decor {
						for _, a := range x.Call.Args {
							if isAvgT(a.Type()) {
								uses = true
							}
						}
					}
				}
			}
		}
		if !uses {
			continue
		}
		n++
		bad := ""
		_, over := w.enumPaths(fn, pathOpts{Inline: func(ssa.CallInstruction, *ssa.Function) bool { return false }}, func(p *Path) {
			if p.Exit != "return" || bad != "" {
				return
			}
			check := func(ev Event, v ssa.Value) {
				rv := p.stripR(p.val(ev, v))
				if isNilConst(rv.V) {
					bad = "a nil moving average is used (" + w.instrPos(ev.In) + ") on a path: the first sample or frame panics"
					return
				}
				if par, ok := rv.V.(*ssa.Parameter); ok {
					if p.hasCmp(ev.Idx, token.EQL, func(x Val) bool { return x.V == ssa.Value(par) }, isNilVal) {
						bad = "the caller's moving average is used (" + w.instrPos(ev.In) + ") on a path that carries `average == nil`: the documented default is not installed"
					}
				}
			}
			for _, ev := range p.Events {
				switch x := ev.In.(type) {
				case *ssa.Store:
					if _, isF := x.Addr.(*ssa.FieldAddr); isF && isAvgT(x.Val.Type()) {
						check(ev, x.Val)
					}
				case *ssa.Call:
					if sc := x.Call.StaticCallee(); sc != nil && sc.Pkg == w.Decor {
						for _, a := range x.Call.Args {
							if isAvgT(a.Type()) {
								check(ev, a)
							}
						}
					}
				}
			}
		})
		if over {
			r.Undecided(rule, "moving average in "+fnShort(fn), w.pos(fn.Pos()), "path cap")
			continue
		}
		r.Check(bad == "", rule, "moving average in "+fnShort(fn), w.pos(fn.Pos()), "never nil", bad)
	}
	r.Floor(rule, 2, "estimator constructors")
}

// ruleWindowsClear (W-WINCLEAR, windows build only): clearing the previous frame on a Windows console.
// clearLines takes the ANSI fallback exactly when the output is no console, uses the console API
// only after the screen-buffer query succeeded, and moves the cursor up: the row it sets is the
// queried row minus the line count, clamped at 0.
func ruleWindowsClear(w *World, r *Report, pfx string) {
	rule := pfx + ".W-WINCLEAR"
	if w.GOOS != "windows" {
		return
	}
	fn := w.Func("cwriter.(*Writer).clearLines")
	if fn == nil || len(fn.Params) < 2 {
		r.Unresolved("anchor", "cwriter.Writer.clearLines", "not found")
		return
	}
	nP := ssa.Value(fn.Params[1])
	esc := w.Func("cwriter.(escWriter).ansiCuuAndEd")
	errT := types.Universe.Lookup("error").Type()
	isErrV := func(v Val) bool {
		_, isConst := v.V.(*ssa.Const)
		return !isConst && types.Identical(v.V.Type(), errT)
	}
	isTerm := loadOf("cwriter.Writer", "terminal")
	isRowAddr := func(a ssa.Value) bool {
		fa, ok := a.(*ssa.FieldAddr)
		if !ok {
			return false
		}
		f, ok := fieldOf(fa)
		return ok && f.Name == "Y" && strings.HasSuffix(f.Owner, "Coord")
	}
	bad := ""
	sawAnsi, sawAPI := false, false
	_, over := w.enumPaths(fn, pathOpts{InlineDepth: 2, Inline: w.helperInline(fn)}, func(p *Path) {
		if p.Exit != "return" || bad != "" {
			return
		}
		api, ansi := -1, -1
		moved, clamped := false, false
		iQuery, iSub := -1, -1
		for _, ev := range p.Events {
			switch x := ev.In.(type) {
			case *ssa.Call:
				if x.Call.StaticCallee() == esc && esc != nil {
					ansi = ev.Idx
				}
				if sc := x.Call.StaticCallee(); sc != nil && sc.Name() == "GetConsoleScreenBufferInfo" {
					iQuery = ev.Idx
				}
				if sc := x.Call.StaticCallee(); sc != nil && sc.Name() == "Call" && strings.Contains(sc.String(), "LazyProc") && api < 0 {
					api = ev.Idx
				}
			case *ssa.BinOp:
				// the new row, as a value: (queried row) - n
				if x.Op == token.SUB && p.stripR(Val{stripConv(x.Y), ev.F, ev.E}).V == nP {
					if ld, ok := x.X.(*ssa.UnOp); ok && isRowAddr(ld.X) && iQuery >= 0 {
						moved = true // computed from the row the query has just reported
						iSub = ev.Idx
					}
				}
			case *ssa.Store:
				if !isRowAddr(x.Addr) {
					continue
				}
				// clamped in place (`Y = 0`) or through a local (`y = 0; ...; Y = y`)
				if k, ok := constInt(p.stripR(p.val(ev, x.Val)).V); ok && k == 0 {
					clamped = true
				}
			}
		}
		isRow := func(v Val) bool {
			if ld, ok := v.V.(*ssa.UnOp); ok && ld.Op == token.MUL && isRowAddr(ld.X) {
				return true
			}
			if sub, ok := v.V.(*ssa.BinOp); ok && sub.Op == token.SUB {
				if ld, ok := sub.X.(*ssa.UnOp); ok && isRowAddr(ld.X) {
					return true
				}
			}
			return false
		}
		switch {
		case ansi >= 0 && api >= 0:
			bad = "a path uses both the escape sequence and the console API"
		case ansi >= 0:
			sawAnsi = true
			if !p.hasBool(ansi, false, isTerm) {
				bad = "the escape-sequence fallback is taken on a path that does not carry !terminal"
			}
		case api >= 0:
			sawAPI = true
			if !p.hasBool(api, true, isTerm) {
				bad = "the console API is used on a path that does not carry terminal"
			} else if !p.hasCmp(api, token.EQL, isErrV, isNilVal) {
				bad = "the console API is used on a path that does not carry the success of the screen-buffer query"
			} else if !moved {
				bad = "the cursor row set is not the queried row minus the number of lines to clear: the next frame is not drawn over the previous one"
			} else {
				// row < 0, row <= 0 and row < 1 all clamp the same rows to the same value
				negAt := func(upto int) bool {
					return p.hasCmp(upto, token.LSS, isRow, isConstInt(0)) || p.hasCmp(upto, token.LEQ, isRow, isConstInt(0)) || p.hasCmp(upto, token.LSS, isRow, isConstInt(1))
				}
				nonNegAt := func(upto int) bool {
					return p.hasCmp(upto, token.GEQ, isRow, isConstInt(0)) || p.hasCmp(upto, token.GTR, isRow, isConstInt(0)) || p.hasCmp(upto, token.GEQ, isRow, isConstInt(1))
				}
				neg, nonNeg := negAt(api), nonNegAt(api)
				switch {
				case (neg || nonNeg) && neg == negAt(iSub) && nonNeg == nonNegAt(iSub):
					bad = "the cursor row is compared with 0 before the lines are subtracted from it: the row that is set can be negative"
				case neg && !clamped:
					bad = "a negative cursor row is not clamped to 0"
				case !neg && !nonNeg:
					bad = "the cursor row is used without having been compared with 0"
				case nonNeg && clamped:
					bad = "a valid cursor row is overwritten with 0"
				}
			}
		default:
			if !p.hasCmp(-1, token.NEQ, isErrV, isNilVal) {
				bad = "a path clears nothing and carries no error"
			}
		}
	})
	if over {
		r.Undecided(rule, "cwriter.Writer.clearLines", w.pos(fn.Pos()), "path cap")
		return
	}
	r.Check(bad == "" && sawAnsi && sawAPI, rule, "cwriter.Writer.clearLines", w.pos(fn.Pos()), "fallback iff no console; cursor up by n, clamped", orStr(bad, "a branch is missing"))
}
