package main

import (
	"fmt"
	"go/constant"
	"go/token"
	"go/types"
	"sort"
	"strings"

	"golang.org/x/tools/go/ssa"
)

func init() { checks["C04"] = checkC04 }

// ruleCursorUp (C04.R3): the writer's Flush.
func ruleCursorUp(w *World, r *Report, pfx string) {
	rule := pfx + ".R3"
	fn := w.Func("cwriter.(*Writer).Flush")
	if fn == nil {
		r.Unresolved("anchor", "cwriter.Writer.Flush", "not found")
		return
	}
	esc := w.Func("cwriter.(escWriter).ansiCuuAndEd")
	clear := w.Func("cwriter.(*Writer).clearLines")
	linesP := ssa.Value(fn.Params[1])
	isLinesField := loadOf("cwriter.Writer", "lines")
	if w.GOOS == "windows" {
		// sibling: clearLines(w.lines) under w.lines > 0 precedes WriteTo; w.lines = lines stored
		bad := ""
		sawClear := false
		n, _ := w.enumPaths(fn, pathOpts{}, func(p *Path) {
			if p.Exit != "return" {
				return
			}
			iClear, iWrite, iStore := -1, -1, -1
			for _, ev := range p.Events {
				if c, ok := ev.In.(*ssa.Call); ok {
					if c.Call.StaticCallee() == clear && clear != nil {
						iClear = ev.Idx
						if !isLinesField(Val{V: c.Call.Args[1]}) {
							bad = "the previous frame is cleared with a count other than the remembered line count"
						}
						if !p.hasCmp(ev.Idx, token.GTR, isLinesField, isConstInt(0)) {
							bad = "the cursor is moved up without the guard lines > 0"
						}
					}
					if sc := c.Call.StaticCallee(); sc != nil && sc.Name() == "WriteTo" {
						iWrite = ev.Idx
					}
				}
				if f, v, ok := p.storeField(ev); ok && f.Owner == "cwriter.Writer" && f.Name == "lines" {
					iStore = ev.Idx
					if v.V != linesP {
						bad = "the remembered line count is not the count handed to Flush"
					}
				}
			}
			if iClear >= 0 {
				sawClear = true
				if iWrite >= 0 && iClear > iWrite {
					bad = "the previous frame is cleared after the new one was written"
				}
			}
			if iWrite >= 0 && iStore < 0 {
				bad = "the line count of the frame is not remembered for the next Flush"
			}
			if iClear >= 0 && iStore >= 0 && iStore < iClear {
				bad = "the new line count is remembered before the previous frame is cleared: the count of the frame about to be written is cleared instead of the one on screen"
			}
			if iWrite < 0 {
				// the only way out without writing the frame is the failure of the clearing step
				errT := types.Universe.Lookup("error").Type()
				isErrV := func(v Val) bool {
					_, isConst := v.V.(*ssa.Const)
					return !isConst && types.Identical(v.V.Type(), errT)
				}
				if !p.hasCmp(-1, token.NEQ, isErrV, isNilVal) {
					bad = "a path of Flush returns without writing the frame out and without carrying a clearing error (" + pathExitPos(w, p) + ")"
				}
			}
		})
		r.Check(bad == "" && n > 0 && sawClear, rule, "cwriter.Writer.Flush (windows sibling)", w.pos(fn.Pos()), "clear previous lines (guarded), remember count, write", orStr(bad, "no clearing path"))
		return
	}
	bad := ""
	sawEsc, sawSkip := false, false
	n, _ := w.enumPaths(fn, pathOpts{}, func(p *Path) {
		if bad != "" || p.Exit != "return" {
			return
		}
		iWrite, iEsc := -1, -1
		var wr *ssa.Call
		for _, ev := range p.Events {
			c, ok := ev.In.(*ssa.Call)
			if !ok {
				continue
			}
			if sc := c.Call.StaticCallee(); sc != nil && sc.Name() == "WriteTo" {
				iWrite = ev.Idx
				wr = c
				if !isLoad(Val{V: c.Call.Args[1]}, "cwriter.Writer", "out") {
					bad = "the buffer is not flushed to the writer's output"
				}
			}
			if c.Call.StaticCallee() == esc && esc != nil {
				iEsc = ev.Idx
				// destination: the writer's own buffer (the escape is emitted at the start of the next frame)
				if mi, ok := c.Call.Args[1].(*ssa.MakeInterface); !ok || mi.X != ssa.Value(fn.Params[0]) {
					bad = "the cursor-up/erase sequence is written to the output at once instead of being queued in front of the next frame: the frame just written is erased immediately"
				}
				if c.Call.Args[2] != linesP {
					bad = "the cursor-up count is not the line count handed to Flush"
				}
			}
		}
		if iWrite < 0 {
			bad = "a path of Flush does not write the buffer out"
			return
		}
		if iEsc >= 0 {
			sawEsc = true
			if iEsc < iWrite {
				bad = "the cursor-up/erase sequence is queued before the frame is written: it would be emitted after the frame it should precede"
			}
			if !p.hasCmp(iEsc, token.GTR, func(v Val) bool { return v.V == linesP }, isConstInt(0)) {
				bad = "cursor-up is emitted without the atom lines > 0: terminals read 'up 0' as 'up 1' and the last persistent line is erased"
			}
			isWriteErr := func(v Val) bool {
				ex, ok := v.V.(*ssa.Extract)
				return ok && ex.Tuple == ssa.Value(wr) && ex.Index == 1
			}
			if !p.hasCmp(iEsc, token.EQL, isWriteErr, isNilVal) {
				bad = orStr(bad, "the escape is queued although writing the frame failed")
			}
		} else {
			sawSkip = true
		}
	})
	r.Check(bad == "" && n > 0 && sawEsc && sawSkip, rule, "cwriter.Writer.Flush", w.pos(fn.Pos()), "frame written first; escape queued into the own buffer with the given count, only for lines > 0", orStr(bad, "escape or skip path missing"))
	// escape constants (E9c)
	if esc != nil {
		// on every path (private helpers inlined): one AppendInt(prefix, n, 10) of the count parameter,
		// the constant "A CSI J" appended, one Write
		okSeq := true
		nApp, nWr := 0, 0
		nPaths, _ := w.enumPaths(esc, pathOpts{InlineDepth: 2, Inline: w.helperInline(esc)}, func(p *Path) {
			if p.Exit != "return" {
				return
			}
			app, wr, seq := 0, 0, false
			for _, ev := range p.Events {
				for _, op := range ev.In.Operands(nil) {
					v := *op
					if v == nil {
						continue
					}
					if cv, ok := v.(*ssa.Convert); ok {
						v = cv.X
					}
					if c, ok := v.(*ssa.Const); ok && c.Value != nil && c.Value.Kind() == constant.String {
						if sv := constant.StringVal(c.Value); sv == "A\x1b[J" || sv == "A\x1b[0J" {
							seq = true
						}
					}
				}
				if cv, ok := ev.In.(*ssa.Convert); ok {
					if c, ok := cv.X.(*ssa.Const); ok && c.Value != nil && c.Value.Kind() == constant.String {
						if sv := constant.StringVal(c.Value); sv == "A\x1b[J" || sv == "A\x1b[0J" {
							seq = true
						}
					}
				}
				c, ok := ev.In.(*ssa.Call)
				if !ok {
					continue
				}
				if sc := c.Call.StaticCallee(); sc != nil && sc.String() == "strconv.AppendInt" {
					app++
					if k, ok := constInt(c.Call.Args[2]); !ok || k != 10 {
						okSeq = false
					}
					if p.stripR(p.val(ev, c.Call.Args[1])).V != ssa.Value(esc.Params[2]) {
						okSeq = false
					}
				}
				if c.Call.IsInvoke() && c.Call.Method.Name() == "Write" {
					wr++
				}
			}
			if !seq {
				okSeq = false
			}
			nApp, nWr = app, wr
			if app != 1 || wr != 1 {
				okSeq = false
			}
		})
		if nPaths == 0 {
			okSeq = false
		}
		r.Check(okSeq && nApp == 1 && nWr == 1, rule+"c", "cursor-up + erase sequence", w.pos(esc.Pos()), "CSI n A CSI J in one write", "the escape sequence is not CSI <n> A followed by CSI J (erase below)")
	}
	// the prefix: CSI
	okOpen := false
	if m, ok := w.Cw.Members["escOpen"].(*ssa.NamedConst); ok && m.Value.Value != nil && m.Value.Value.Kind() == constant.String && constant.StringVal(m.Value.Value) == "\x1b[" {
		okOpen = true
	}
	r.Check(okOpen, rule+"c", "escape prefix", "", "ESC [", "the escape prefix is not CSI (ESC [)")
}

// ruleRowsFit (C04.R4): every append to the row list has an atom bounding len(rows) strictly
// below height-1 (each row ends with a new line); the other branch drains the reader.
func ruleRowsFit(w *World, r *Report, pfx string) {
	rule := pfx + ".R4"
	fi := w.analyseFlush()
	if fi.Undecided != "" {
		r.Undecided(rule, "flush", "", fi.Undecided)
		return
	}
	var heightP ssa.Value
	for _, p := range fi.Fn.Params {
		if b, ok := p.Type().Underlying().(*types.Basic); ok && b.Kind() == types.Int {
			heightP = p
		}
	}
	if heightP == nil {
		r.Undecided(rule, "flush", w.pos(fi.Fn.Pos()), "height parameter not found")
		return
	}
	bad := ""
	nApp := 0
	// flush and its private helpers; in a helper the height is the parameter that flush passes its own height to
	var fns []*ssa.Function
	for f := range w.unit(fi.Fn) {
		fns = append(fns, f)
	}
	sort.Slice(fns, func(i, j int) bool { return fns[i].Pos() < fns[j].Pos() })
	flushHeight := heightP
	for _, fn := range fns {
		heightP := flushHeight
		if fn != fi.Fn {
			heightP = nil
			for i, par := range fn.Params {
				sites := w.callers[fn]
				all := len(sites) > 0
				for _, site := range sites {
					if site.Parent() != fi.Fn || i >= len(site.Common().Args) || w.origin(site.Common().Args[i]) != flushHeight {
						all = false
					}
				}
				if all {
					heightP = par
				}
			}
		}
		for _, b := range fn.Blocks {
			for _, in := range b.Instrs {
				c, ok := in.(*ssa.Call)
				if !ok || !isBuiltinCall(&c.Call, "append") {
					continue
				}
				if _, ok := c.Type().Underlying().(*types.Slice).Elem().Underlying().(*types.Interface); !ok {
					continue // not the []io.Reader row list
				}
				nApp++
				rows := c.Call.Args[0]
				// the block must be the true successor of a bound test on len(rows)
				okBound := false
				var other *ssa.BasicBlock
				for _, x := range fn.Blocks {
					ifi, ok := x.Instrs[len(x.Instrs)-1].(*ssa.If)
					if !ok || !(x.Succs[0] == b || (x.Succs[0].Dominates(b) && len(x.Succs[0].Preds) == 1)) {
						continue
					}
					if heightP != nil && boundsRows(ifi.Cond, rows, heightP) {
						okBound = true
						other = x.Succs[1]
					}
				}
				if !okBound {
					bad = "a row is appended without the atom len(rows) < height-1: rows are terminated by new lines, so height rows scroll the topmost bar into the scrollback (and more rows than the height push bar rows off screen)"
					continue
				}
				// the other branch drains the clipped reader
				drains := false
				if other != nil {
					for _, in2 := range other.Instrs {
						if c2, ok := in2.(*ssa.Call); ok && c2.Call.StaticCallee() != nil && c2.Call.StaticCallee().String() == "io.Copy" {
							drains = true
						}
					}
				}
				if !drains {
					bad = "a clipped row is not drained: the bar's buffers keep its bytes and prepend them to the next frame's row"
				}
			}
		}
	}
	r.Check(bad == "" && nApp >= 1, rule, "row clipping in flush", w.pos(fi.Fn.Pos()), "rows appended only while len(rows) < height-1; clipped readers drained", orStr(bad, "no row append found"))
	// the discard path after an error drains all rows of the frame too
}

// boundsRows: cond is len(rows) < height - k (k >= 1), len(rows)+k < height, or len(rows) <= height - k (k >= 2).
func boundsRows(cond ssa.Value, rows, height ssa.Value) bool {
	bin, ok := cond.(*ssa.BinOp)
	if !ok {
		return false
	}
	isLen := func(v ssa.Value) (bool, int64) {
		if c, ok := v.(*ssa.Call); ok && isBuiltinCall(&c.Call, "len") && c.Call.Args[0] == rows {
			return true, 0
		}
		if add, ok := v.(*ssa.BinOp); ok && add.Op == token.ADD {
			for _, pr := range [][2]ssa.Value{{add.X, add.Y}, {add.Y, add.X}} {
				if c, ok := pr[0].(*ssa.Call); ok && isBuiltinCall(&c.Call, "len") && c.Call.Args[0] == rows {
					if k, ok := constInt(pr[1]); ok {
						return true, k
					}
				}
			}
		}
		return false, 0
	}
	isHeight := func(v ssa.Value) (bool, int64) {
		if v == height {
			return true, 0
		}
		if sub, ok := v.(*ssa.BinOp); ok && sub.Op == token.SUB && sub.X == height {
			if k, ok := constInt(sub.Y); ok {
				return true, k
			}
		}
		return false, 0
	}
	op := bin.Op
	okL, kl := isLen(bin.X)
	okH, kh := isHeight(bin.Y)
	if !okL || !okH {
		// the mirrored form: height-1 > len(rows)
		okL, kl = isLen(bin.Y)
		okH, kh = isHeight(bin.X)
		op = swapOp(op)
		if !okL || !okH {
			return false
		}
	}
	slack := kl + kh // len(rows) + slack  op  height
	switch op {
	case token.LSS:
		return slack >= 1
	case token.LEQ:
		return slack >= 2
	}
	return false
}

// ruleNoListenerNoOutput (C04.R2): a refresh listener is started only for manual refresh, or for
// a terminal / forced auto refresh; otherwise done is the context's Done and autoRefresh is off.
func ruleNoListenerNoOutput(w *World, r *Report, pfx string) {
	rule := pfx + ".R2"
	nw := w.Func("mpb.NewWithContext")
	if nw == nil {
		r.Unresolved("anchor", "mpb.NewWithContext", "not found")
		return
	}
	bad := ""
	sawManual, sawAuto, sawNone := false, false, false
	isTermCall := func(v Val) bool {
		c, ok := v.V.(*ssa.Call)
		return ok && c.Call.StaticCallee() != nil && c.Call.StaticCallee().Name() == "IsTerminal"
	}
	n, over := w.enumPaths(nw, pathOpts{InlineDepth: 3, Inline: w.helperInline(nw), MaxPaths: 50000}, func(p *Path) {
		if bad != "" || p.Exit != "return" {
			return
		}
		listeners := 0
		for _, ev := range p.Events {
			if g, ok := ev.In.(*ssa.Go); ok {
				for _, t := range p.goTargetsOn(ev, g) {
					if w.fnSendsOn(t, "pState.renderReq") {
						listeners++
					}
				}
			}
		}
		stAuto := p.storesTo(tPState, "autoRefresh")
		manual := p.hasCmp(-1, token.NEQ, loadOf(tPState, "manualRC"), isNilVal)
		term := p.hasBool(-1, true, isTermCall)
		forced := p.hasBool(-1, true, loadOf(tPState, "autoRefresh"))
		lastAuto := tri(triUnknown)
		if len(stAuto) > 0 {
			if bv, ok := constBool(stAuto[len(stAuto)-1].Val.V); ok {
				if bv {
					lastAuto = triTrue
				} else {
					lastAuto = triFalse
				}
			}
		}
		switch {
		case listeners > 1:
			bad = "more than one refresh listener is started"
		case listeners == 1 && manual:
			sawManual = true
			if lastAuto != triFalse {
				bad = "manual refresh does not switch auto refresh off"
			}
		case listeners == 1 && (term || forced):
			sawAuto = true
			if lastAuto != triTrue {
				bad = "the auto refresh listener is started without marking the container as auto-refreshing (no final render, no early refresh)"
			}
		case listeners == 1:
			bad = "a refresh listener is started although the output is not a terminal and neither auto nor manual refresh was requested: bar rows and cursor controls are written to a file or pipe"
		default:
			sawNone = true
			if lastAuto != triFalse {
				bad = "without a listener the container is still marked auto-refreshing (bars would spawn early refreshes nobody serves and a final frame is written)"
			}
			// done must be the context's Done
			okDone := false
			for _, s := range p.storesTo("mpb.Progress", "done") {
				if c, ok := stripConv(s.Val.V).(*ssa.Call); ok && c.Call.IsInvoke() && c.Call.Method.Name() == "Done" {
					okDone = true
				}
			}
			if !okDone {
				bad = orStr(bad, "without a listener nobody closes done, and it is not the context's Done channel")
			}
		}
	})
	if over {
		r.Undecided(rule, "container constructor", w.pos(nw.Pos()), "path cap")
		return
	}
	r.Check(bad == "" && n > 0 && sawManual && sawAuto && sawNone, rule, "container constructor", w.pos(nw.Pos()), fmt.Sprintf("%d paths: listener iff manual || terminal || forced auto; flags and done consistent", n), orStr(bad, "branch missing"))
}

// C04 — frames redraw in place.
func checkC04(w *World, r *Report) {
	r.Explain = "Structural clauses of in-place redraw: (R1) nothing is written before the render delay ends (the writer variable of the container loop is the discarding one while delayRC is pending); (R2) a refresh listener is started only for manual refresh or a terminal / forced auto refresh, the final render and early refresh are under autoRefresh; (R3) the writer's Flush writes the frame first and queues cursor-up(lines)+erase-below into its own buffer for the next frame, only for lines > 0 and with the escape constants CSI n A CSI J (windows sibling in the thorough tier); (R4) rows are appended only while len(rows) < height-1 (each row ends with a new line) and clipped readers are drained; (R5) used rows are counted with each append, popped rows accumulate exactly on the pop-out arm, Flush receives (rows written) - (popped rows) and the output loop writes every collected row; every non-error path of flush ends in the writer's Flush. Decides these on all paths; the screen state is not computed by interpreting bytes, column widths are C07, and that each row reader holds exactly one line is the user's contract."
	r.Assume = append(r.Assume, "a terminal scrolls when a new line is written on its last row", "each bar row reader holds exactly one line")
	ruleDelayWriter(w, r, "C04")
	ruleNoListenerNoOutput(w, r, "C04")
	ruleTriggerCancels(w, r, "C04")
	ruleFinalRender(w, r, "C04")
	ruleCursorUp(w, r, "C04")
	ruleFlushReturnsErrors(w, r, "C04")
	ruleOptionTable(w, r, "C04", map[string][3]string{"WithRenderDelay": {tPState, "delayRC", "param"}, "WithManualRefresh": {tPState, "manualRC", "param"}, "WithAutoRefresh": {tPState, "autoRefresh", "true"}, "WithOutput": {tPState, "output", "paramOrDefault"}, "WithRefreshRate": {tPState, "refreshRate", "param"}})
	ruleFillGuards(w, r, "C04")
	ruleRowsFit(w, r, "C04")
	fi := w.analyseFlush()
	ruleFlushCount(w, r, "C04", fi)
	rulePopMode(w, r, "C04", fi)
	ruleFlushWrites(w, r, "C04")
	ruleRenderSize(w, r, "C04")
	ruleTermSize(w, r, "C04")
	ruleWriterNew(w, r, "C04")
	ruleIsTerminal(w, r, "C04")
	ruleWindowsClear(w, r, "C04")
	ruleRowsAreLines(w, r, "C04")
	ruleFormatExchange(w, r, "C04")
	ruleDecorWidthAccounting(w, r, "C04")
	ruleStateAgrees(w, r, "C04")
}

// ruleRenderSize: the width/height handed on come from the terminal size query for terminals and from
// the requested width (default 80) otherwise; both reach the renderers and flush unchanged.
func ruleRenderSize(w *World, r *Report, pfx string) {
	rule := pfx + ".R6"
	render := w.renderFn()
	fl := w.flushFn()
	if render == nil || fl == nil {
		return
	}
	bad := ""
	n, _ := w.enumPaths(render, pathOpts{InlineDepth: 2, Inline: func(_ ssa.CallInstruction, c *ssa.Function) bool { return c.Pkg == w.Mpb && c != fl }}, func(p *Path) {
		if bad != "" || p.Exit != "return" {
			return
		}
		var size *ssa.Call
		for _, ev := range p.Events {
			if c, ok := ev.In.(*ssa.Call); ok && c.Call.StaticCallee() != nil && c.Call.StaticCallee().Name() == "GetTermSize" {
				size = c
			}
		}
		for _, ev := range p.Events {
			c, ok := ev.In.(*ssa.Call)
			if !ok || c.Call.StaticCallee() != fl {
				continue
			}
			h := p.val(ev, c.Call.Args[2])
			if size != nil {
				ex, ok := h.V.(*ssa.Extract)
				if !ok || ex.Tuple != ssa.Value(size) || ex.Index != 1 {
					bad = "for a terminal the height handed to flush is not the terminal's height"
				}
			} else {
				// not a terminal: no height to respect - the row limit must not cut bars off: a positive
				// constant or the (positive) width stand-in the code uses
				okH := isLoad(Val{V: stripConv(h.V)}, tPState, "reqWidth") && p.hasCmp(-1, token.GTR, loadOf(tPState, "reqWidth"), isConstInt(0))
				if k, ok := constInt(h.V); ok && k > 1 {
					okH = true
				}
				if !okH {
					bad = "for a non-terminal output the row limit handed to flush is not a positive stand-in (bars would be clipped away from files and pipes)"
				}
			}
		}
		for _, ev := range p.Events {
			g, ok := ev.In.(*ssa.Go)
			if !ok {
				continue
			}
			wv := p.val(ev, g.Call.Args[len(g.Call.Args)-1])
			if size != nil {
				ex, ok := wv.V.(*ssa.Extract)
				if !ok || ex.Tuple != ssa.Value(size) || ex.Index != 0 {
					bad = "for a terminal the width handed to the renderers is not the terminal's width"
				}
			} else {
				// the requested width exactly when one was requested, the positive default otherwise
				okW := isLoad(Val{V: stripConv(wv.V)}, tPState, "reqWidth") && p.hasCmp(-1, token.GTR, loadOf(tPState, "reqWidth"), isConstInt(0))
				if k, ok := constInt(wv.V); ok && k > 0 && p.hasCmp(-1, token.LEQ, loadOf(tPState, "reqWidth"), isConstInt(0)) {
					okW = true
				}
				if !okW {
					bad = "for a non-terminal the width is neither the requested width nor the default"
				}
			}
		}
	})
	r.Check(bad == "" && n > 0, rule, "render sizes", w.pos(render.Pos()), "terminal size for terminals, requested/default width otherwise", bad)
	_ = strings.TrimSpace
}

// ruleFlushReturnsErrors (W-ERRRET): the writer's Flush drops no error. For every call in it
// that yields an error e, every path from that call to a return either has tested e == nil or
// returns e itself (an untested or non-nil write error answered with nil would let a failed
// frame pass as written: the container never learns about the render error).
func ruleFlushReturnsErrors(w *World, r *Report, pfx string) {
	rule := pfx + ".W-ERRRET"
	fn := w.Func("cwriter.(*Writer).Flush")
	if fn == nil {
		r.Unresolved("anchor", "cwriter.(*Writer).Flush", "not found")
		return
	}
	errT := types.Universe.Lookup("error").Type()
	bad := ""
	nErr := 0
	nP, over := w.enumPaths(fn, pathOpts{}, func(p *Path) {
		if p.Exit != "return" || len(p.Ret) != 1 || bad != "" {
			return
		}
		ret := p.R(p.Ret[0])
		for _, ev := range p.Events {
			c, ok := ev.In.(*ssa.Call)
			if !ok {
				continue
			}
			// the error value(s) of this call
			var errs []ssa.Value
			if types.Identical(c.Type(), errT) {
				errs = append(errs, c)
			} else if tup, ok := c.Type().(*types.Tuple); ok && c.Referrers() != nil {
				for _, ref := range *c.Referrers() {
					if ex, ok := ref.(*ssa.Extract); ok && types.Identical(tup.At(ex.Index).Type(), errT) {
						errs = append(errs, ex)
					}
				}
				if len(errs) == 0 && tup.Len() > 0 && types.Identical(tup.At(tup.Len()-1).Type(), errT) {
					bad = "the error result of " + c.Call.String() + " (" + w.instrPos(c) + ") is discarded"
					return
				}
			}
			for _, e := range errs {
				nErr++
				isE := func(v Val) bool { return v.V == e }
				if ret.V == e {
					continue
				}
				if p.hasCmp(-1, token.EQL, isE, isNilVal) {
					continue
				}
				bad = "a path returns without the error of " + c.Call.String() + " (" + w.instrPos(c) + ") although it was not found nil on that path: a failed write is reported as success"
			}
		}
	})
	if over {
		r.Undecided(rule, "cwriter.(*Writer).Flush", w.pos(fn.Pos()), "path cap")
		return
	}
	r.Check(bad == "" && nP > 0 && nErr > 0, rule, "cwriter.(*Writer).Flush", w.pos(fn.Pos()), "every error arising in Flush is returned unless tested nil", orStr(bad, "no error-producing call found in Flush"))
}
