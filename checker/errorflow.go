package main

import (
	"fmt"
	"go/token"
	"go/types"

	"golang.org/x/tools/go/ssa"
)

// Render-error flow (C15.R3/R3p, C02.R5d): inter-procedural over the container loop and the
// helpers it calls, so that extracting the final loop or the error handling into a helper does
// not change the verdict.

type errSite struct {
	Fn      *ssa.Function
	Call    *ssa.Call
	Block   *ssa.BasicBlock
	ErrSucc *ssa.BasicBlock
}

// renderLike: render, and module functions that return (as an error result) the result of a renderLike call.
func (w *World) renderLike() map[*ssa.Function]bool {
	out := map[*ssa.Function]bool{}
	render := w.renderFn()
	if render == nil {
		return out
	}
	out[render] = true
	errT := types.Universe.Lookup("error").Type()
	changed := true
	for changed {
		changed = false
		for _, fn := range w.ModFns {
			if out[fn] || fn.Signature.Results().Len() == 0 {
				continue
			}
			res := fn.Signature.Results()
			if !types.Identical(res.At(res.Len()-1).Type(), errT) {
				continue
			}
			for _, b := range fn.Blocks {
				ret, ok := b.Instrs[len(b.Instrs)-1].(*ssa.Return)
				if !ok {
					continue
				}
				v := ret.Results[len(ret.Results)-1]
				seen := map[ssa.Value]bool{}
				var from func(v ssa.Value) bool
				from = func(v ssa.Value) bool {
					if seen[v] {
						return false
					}
					seen[v] = true
					switch x := v.(type) {
					case *ssa.Call:
						return out[x.Call.StaticCallee()]
					case *ssa.Phi:
						for _, e := range x.Edges {
							if from(e) {
								return true
							}
						}
					}
					return false
				}
				if from(v) && fn != w.flushFn() {
					out[fn] = true
					changed = true
				}
			}
		}
	}
	return out
}

// contHelpers: functions statically called (depth <= 2) from the container loop, excluding renderLike ones.
func (w *World) contHelpers(cont *ssa.Function, rl map[*ssa.Function]bool) map[*ssa.Function]bool {
	out := map[*ssa.Function]bool{}
	var rec func(fn *ssa.Function, d int)
	rec = func(fn *ssa.Function, d int) {
		if d > 2 {
			return
		}
		for _, b := range fn.Blocks {
			for _, in := range b.Instrs {
				if c, ok := in.(*ssa.Call); ok {
					if sc := c.Call.StaticCallee(); sc != nil && w.modSet[sc] && !rl[sc] && !out[sc] {
						out[sc] = true
						rec(sc, d+1)
					}
				}
			}
		}
	}
	rec(cont, 0)
	return out
}

func (w *World) errSites() (sites []errSite, cont *ssa.Function, rl, helpers map[*ssa.Function]bool) {
	cont = w.containerLoop()
	if cont == nil {
		return
	}
	rl = w.renderLike()
	helpers = w.contHelpers(cont, rl)
	fns := []*ssa.Function{cont}
	for h := range helpers {
		fns = append(fns, h)
	}
	for _, fn := range fns {
		for _, b := range fn.Blocks {
			for _, in := range b.Instrs {
				c, ok := in.(*ssa.Call)
				if !ok || !rl[c.Call.StaticCallee()] {
					continue
				}
				s := errSite{Fn: fn, Call: c, Block: b}
				// the error result is tested at the end of the calling block
				if ifi, ok := b.Instrs[len(b.Instrs)-1].(*ssa.If); ok {
					if bin, ok := ifi.Cond.(*ssa.BinOp); ok && (bin.Op == token.NEQ || bin.Op == token.EQL) && isNilConst(bin.Y) {
						x := bin.X
						if ex, ok := x.(*ssa.Extract); ok {
							x = ex.Tuple
						}
						if x == ssa.Value(c) {
							if bin.Op == token.NEQ {
								s.ErrSucc = b.Succs[0]
							} else {
								s.ErrSucc = b.Succs[1]
							}
						}
					}
				}
				sites = append(sites, s)
			}
		}
	}
	return
}

// helperReachesRender: a void helper that contains a render site.
func helperHasSite(sites []errSite, fn *ssa.Function) bool {
	for _, s := range sites {
		if s.Fn == fn {
			return true
		}
	}
	return false
}

func (w *World) isDebugPrint(in ssa.Instruction) bool {
	c, ok := in.(*ssa.Call)
	if !ok || c.Call.StaticCallee() == nil || c.Call.StaticCallee().Pkg == nil || c.Call.StaticCallee().Pkg.Pkg.Path() != "fmt" {
		return false
	}
	return len(c.Call.Args) > 0 && isLoad(Val{V: c.Call.Args[0]}, tPState, "debugOut")
}

// exploreAfterError walks from the error edge of site s to the return of the container loop
// (through the helper's return and its call sites in the container loop when the site is in a
// helper). visit sees every instruction; count is the saturating counter.
// Returns false when the abstract state cap was hit.
func (w *World) exploreAfterError(s errSite, cont *ssa.Function, visit func(in ssa.Instruction, st *absState, inCont bool)) bool {
	facts := map[ssa.Value]absVal{s.Call: absYes}
	for _, ref := range *s.Call.Referrers() {
		if ex, ok := ref.(*ssa.Extract); ok {
			facts[ex] = absYes
		}
	}
	okAll := true
	desc := w.errDescend(cont, visit, &okAll)
	if s.Fn == cont {
		_, ok := w.absExploreX(cont, s.ErrSucc, s.Block, facts, 0, func(x ssa.Instruction, st *absState) { visit(x, st, true) }, desc)
		return ok && okAll
	}
	// inside a helper: explore to its returns, collecting the counter values
	counts := map[int]bool{}
	_, ok := w.absExploreX(s.Fn, s.ErrSucc, s.Block, facts, 0, func(x ssa.Instruction, st *absState) {
		visit(x, st, false)
		if _, isRet := x.(*ssa.Return); isRet {
			counts[st.Count] = true
		}
	}, desc)
	if !ok || !okAll {
		return false
	}
	// continue in the container loop after every call of the helper
	for _, site := range w.callers[s.Fn] {
		call, isCall := site.(*ssa.Call)
		if !isCall || site.Parent() != cont {
			// helper called from another helper: follow one more level
			if isCall && site.Parent() != cont {
				for c0 := range counts {
					for _, s2 := range w.callers[site.Parent()] {
						if c2, ok := s2.(*ssa.Call); ok && s2.Parent() == cont {
							if !w.exploreAfterCall(cont, c2, c0, visit) {
								return false
							}
						}
					}
				}
			}
			continue
		}
		for c0 := range counts {
			if !w.exploreAfterCall(cont, call, c0, visit) {
				return false
			}
		}
	}
	return true
}

// errDescendable: private helpers of the container loop whose bodies the error-flow rules look into.
func (w *World) errDescendable(cont, callee *ssa.Function) bool {
	return callee != nil && callee.Blocks != nil && w.unit(cont)[callee] && !w.renderLike()[callee] && callee != cont
}

// errDescend: descend into the container loop's private helpers with the facts known about
// the arguments (an error handed to a shutdown helper is still known to be non-nil there).
func (w *World) errDescend(cont *ssa.Function, visit func(in ssa.Instruction, st *absState, inCont bool), okAll *bool) absDescend {
	depth := 0
	var desc absDescend
	desc = func(call *ssa.Call, st *absState) ([]int, bool) {
		callee := call.Call.StaticCallee()
		if !w.errDescendable(cont, callee) || depth >= 3 {
			return nil, false
		}
		depth++
		counts, ok := w.absSummary(callee, call, st, func(x ssa.Instruction, s2 *absState) { visit(x, s2, false) }, desc)
		depth--
		if !ok {
			*okAll = false
		}
		return counts, true
	}
	return desc
}

func (w *World) exploreAfterCall(cont *ssa.Function, call *ssa.Call, count0 int, visit func(in ssa.Instruction, st *absState, inCont bool)) bool {
	started := false
	b := call.Block()
	okAll := true
	_, ok := w.absExploreX(cont, b, nil, nil, count0, func(x ssa.Instruction, st *absState) {
		if !started {
			if x == ssa.Instruction(call) {
				started = true
			}
			return
		}
		visit(x, st, true)
	}, func(c *ssa.Call, st *absState) ([]int, bool) {
		if !started || c == call {
			return nil, false
		}
		return w.errDescend(cont, visit, &okAll)(c, st)
	})
	return ok && okAll
}

// checkNoRenderAfterError: from every edge on which a render(-like) call returned a non-nil
// error, no further render is reachable.
func checkNoRenderAfterError(w *World, r *Report, rule string) {
	sites, cont, rl, _ := w.errSites()
	if cont == nil || len(rl) == 0 {
		r.Unresolved("anchor", "container loop / render", "not found")
		return
	}
	for i, s := range sites {
		construct := fmt.Sprintf("render call #%d (in %s)", i+1, fnShort(s.Fn))
		if s.ErrSucc == nil {
			r.Undecided(rule, construct, w.instrPos(s.Call), "the error result of render is not tested in the calling block")
			continue
		}
		bad := ""
		ok := w.exploreAfterError(s, cont, func(x ssa.Instruction, st *absState, inCont bool) {
			c2, isCall := x.(*ssa.Call)
			if !isCall {
				return
			}
			if rl[c2.Call.StaticCallee()] || (c2.Call.StaticCallee() != nil && helperHasSite(sites, c2.Call.StaticCallee()) && !w.errDescendable(cont, c2.Call.StaticCallee())) {
				bad = "render (" + w.instrPos(x) + ") is reachable after a render error: the abandon channel would be closed twice and frames written after the error"
			}
		})
		if !ok {
			r.Undecided(rule, construct, w.instrPos(s.Call), "abstract state cap")
			continue
		}
		r.Check(bad == "", rule, construct, w.instrPos(s.Call), "no render reachable from the error edge (inboxes nil-ed / loop left)", bad)
	}
	r.Floor(rule, 2, "render calls of the container role (refresh arm, final loop)")
}

// ruleErrorPrintedOnce (C15.R3p): from each error edge, every path to the container loop's return
// writes the error to the debug output exactly once.
func ruleErrorPrintedOnce(w *World, r *Report, pfx string) {
	rule := pfx + ".R3p"
	sites, cont, rl, _ := w.errSites()
	if cont == nil || len(rl) == 0 {
		return
	}
	for i, s := range sites {
		construct := fmt.Sprintf("render error #%d reported (in %s)", i+1, fnShort(s.Fn))
		if s.ErrSucc == nil {
			r.Undecided(rule, construct, w.instrPos(s.Call), "the error result of render is not tested in the calling block")
			continue
		}
		bad := ""
		ok := w.exploreAfterError(s, cont, func(x ssa.Instruction, st *absState, inCont bool) {
			if w.isDebugPrint(x) {
				st.Count++
				if st.Count > 1 {
					bad = "the render error is written to the debug output more than once"
				}
			}
			if _, isRet := x.(*ssa.Return); isRet && inCont && x.Block() != cont.Recover && st.Count != 1 {
				bad = fmt.Sprintf("a path from the render error to the container loop's return writes the error %d times to the debug output (must be exactly once)", st.Count)
			}
		})
		if !ok {
			r.Undecided(rule, construct, w.instrPos(s.Call), "abstract state cap")
			continue
		}
		r.Check(bad == "", rule, construct, w.instrPos(s.Call), "exactly one debug-output write on every path to return", bad)
	}
	r.Floor(rule, 2, "refresh arm and final loop")
}
