package main

import (
	"fmt"
	"go/token"
	"go/types"

	"golang.org/x/tools/go/ssa"
)

func init() {
	checks["C05"] = checkC05
	checks["C17"] = checkC17
	checks["C18"] = checkC18
}

// heapCell: the local priority queue of the heap loop (Alloc whose address is passed to container/heap).
func (w *World) heapCell() *ssa.Alloc {
	loop := w.heapLoop()
	if loop == nil {
		return nil
	}
	for _, b := range loop.Blocks {
		for _, in := range b.Instrs {
			if a, ok := in.(*ssa.Alloc); ok && typeName(a.Type()) == "mpb.priorityQueue" {
				return a
			}
		}
	}
	return nil
}

func isHeapCall(c *ssa.Call, name string) bool {
	sc := c.Call.StaticCallee()
	return sc != nil && sc.String() == "container/heap."+name
}

// ruleHeapIteration (C05.R2): in the ordered phase every popped bar is delivered or pushed back;
// in the unordered phase each heap element is offered once.
func ruleHeapIteration(w *World, r *Report, pfx string) {
	rule := pfx + ".H-ITER"
	loop, _, _ := w.heapArms()
	if loop == nil {
		r.Unresolved("anchor", "heap loop", "not found")
		return
	}
	ct := w.Comm()
	nOrdered, nUnordered := 0, 0
	hunit := w.unit(loop)
	for _, op := range ct.Ops {
		if op.Kind != "select" || !hunit[op.Fn] {
			continue
		}
		sel := op.Instr.(*ssa.Select)
		var sendState, dropState = -1, -1
		for i, s := range op.States {
			if s.Dir == types.SendOnly && (s.Class.has("iterData.iterPop") || s.Class.has("iterData.iter")) {
				sendState = i
			}
			if s.Dir == types.RecvOnly && s.Class.has("iterData.drop") {
				dropState = i
			}
		}
		if sendState < 0 {
			continue
		}
		ordered := op.States[sendState].Class.has("iterData.iterPop")
		l := innermostLoop(naturalLoops(op.Fn), sel.Block())
		if l == nil {
			r.Undecided(rule, "iterator send outside a loop", w.instrPos(sel), "unexpected shape")
			continue
		}
		sent := op.States[sendState].Send
		if ordered {
			nOrdered++
			// the sent value is the bar popped in this iteration
			okPop := false
			if ta, ok := sent.(*ssa.TypeAssert); ok {
				if c, ok := ta.X.(*ssa.Call); ok && isHeapCall(c, "Pop") && l.Blocks[c.Block()] {
					okPop = true
				}
			}
			if !okPop {
				r.Violated(rule, "ordered iteration", w.instrPos(sel), "the bar offered on the ordered iterator is not the one popped from the heap in this iteration")
				continue
			}
			// every path of the loop body: exactly one Pop; send arm -> nothing else; drop arm -> Push of the same bar
			bad := ""
			var body *ssa.BasicBlock
			for _, s := range l.Header.Succs {
				if l.Blocks[s] {
					body = s
				}
			}
			n, _ := w.enumPaths(op.Fn, pathOpts{Start: body, StopAt: func(b *ssa.BasicBlock) bool { return b == l.Header || (!l.Blocks[b] && len(b.Preds) > 1) }}, func(p *Path) {
				pops, pushes := 0, 0
				pushedSame := false
				for _, ev := range p.Events {
					if c, ok := ev.In.(*ssa.Call); ok {
						if isHeapCall(c, "Pop") {
							pops++
						}
						if isHeapCall(c, "Push") {
							pushes++
							if mi, ok := c.Call.Args[1].(*ssa.MakeInterface); ok && mi.X == sent {
								pushedSame = true
							}
						}
					}
				}
				k := p.armTaken(sel)
				switch {
				case pops != 1:
					bad = fmt.Sprintf("%d pops in one iteration of the ordered phase", pops)
				case k == sendState && pushes != 0:
					bad = "a delivered bar is also pushed back (it would be drawn twice)"
				case k == dropState && !(pushes == 1 && pushedSame):
					bad = "a bar popped but not delivered because the consumer dropped the cycle is not pushed back: it vanishes from the container"
				case k != sendState && k != dropState:
					bad = "iteration path takes neither the send nor the drop arm"
				}
			})
			r.Check(bad == "" && n > 0, rule, "ordered iteration", w.instrPos(sel), fmt.Sprintf("%d body paths: popped bar delivered or re-pushed", n), bad)
		} else {
			nUnordered++
			// the sent value is the range element of the heap slice
			okElem := false
			if ld, ok := sent.(*ssa.UnOp); ok && ld.Op == token.MUL {
				if ia, ok := ld.X.(*ssa.IndexAddr); ok {
					if w.isWholeHeap(ia.X, 0) {
						okElem = true
					}
				}
			}
			r.Check(okElem, rule, "unordered iteration", w.instrPos(sel), "each heap element offered once (range over the heap)", "the unordered iterator does not offer the elements of the heap one by one")
		}
	}
	if nOrdered != 1 || nUnordered != 1 {
		r.Undecided(rule, "heap iteration phases", w.pos(loop.Pos()), fmt.Sprintf("expected one ordered and one unordered phase, found %d/%d", nOrdered, nUnordered))
	}
	// push arm: the pushed bar is the payload's bar
	// notifier: the end arm hands the heap itself, in a goroutine, only when the channel is non-nil
	cell := w.heapCell()
	for _, op := range ct.Ops {
		if op.Kind != "send" || !op.Class.has("pState.shutdownNotifier") {
			continue
		}
		s := op.Instr.(*ssa.Send)
		okHeap := false
		v := stripConv(s.X)
		if ld, ok := v.(*ssa.UnOp); ok && ld.Op == token.MUL {
			if fv, ok := ld.X.(*ssa.FreeVar); ok {
				for _, b := range freeVarBindings(fv) {
					if b == ssa.Value(cell) {
						okHeap = true
					}
				}
			}
			if ld.X == ssa.Value(cell) {
				okHeap = true
			}
		}
		r.Check(okHeap && cell != nil, pfx+".H-NOTIFY", "shutdown notification payload", w.instrPos(s), "the heap's own slice", "the value handed to the shutdown notifier is not the heap manager's bar list")
	}
}

// C05 — every bar is drawn exactly once per frame.
func checkC05(w *World, r *Report) {
	r.Explain = "Per-bar outcome exactness of one render cycle, by path enumeration (guarded effects, no solver): (R1) in flush's collection loop every bar taken from the ordered iterator is retained at most once, and exactly once unless the path carries a drop reason (frame error, replaced by its queued successor, removed on completion, popped out); the decision table must be complete; (R2) the heap loop delivers or re-pushes every popped bar and offers each heap element once in the unordered phase; (R3) one renderer and one frame per bar (one-frame rules); (R4) pushes and the next cycle's requests travel one FIFO from one goroutine (heap send discipline, no request while iterating); (R5) the notifier receives the heap itself, once, after the last request. Decides these counting facts on all paths; frame contents are not examined."
	r.Assume = append(r.Assume, "container/heap implements a heap", "heap loop handles requests in FIFO order (Go channel semantics)")
	fi := w.analyseFlush()
	ruleFlushOutcome(w, r, "C05", fi)
	ruleSuccessorSwap(w, r, "C05", fi)
	ruleRenderSize(w, r, "C05")
	checkIteratorConsumers(w, r, "C05")
	ruleRowsFit(w, r, "C05")
	ruleHeapIteration(w, r, "C05")
	checkOneFrame(w, r, "C05")
	checkHeapSendDiscipline(w, r, "C05.R4")
	checkNoRequestWhileIterating(w, r, "C05")
	checkEndOnExit(w, r, "C05")
	ruleAddPushesOrParks(w, r, "C05")
	ruleFlushDrainsPending(w, r, "C05", fi)
	ruleStateAgrees(w, r, "C05")
	if trig, pred := w.triggerFn(), w.completionPredicate(); trig != nil && pred != nil {
		ruleAbort(w, r, "C05", trig, pred, pathOpts{InlineDepth: 3, Inline: noInline(trig, pred)})
	}
	ruleRenderTerminal(w, r, "C05")
	ruleOptionTable(w, r, "C05", map[string][3]string{"BarRemoveOnComplete": {tBState, "rmOnComplete", "true"}})
}

// ruleAddPushesOrParks (C17.R1, C01.R10, C05): in the Add closure every created bar is pushed
// (with sync=true) or parked in the successor queue, exactly one of the two, on every path;
// the id counter advances on every path.
func ruleAddPushesOrParks(w *World, r *Report, pfx string) {
	rule := pfx + ".A-ADD"
	clo, _ := w.apiClosure(r, "mpb.(*Progress).Add")
	pushFn := w.heapPushFn()
	if clo == nil || pushFn == nil {
		return
	}
	newBar := w.barConstructor()
	if newBar == nil {
		r.Unresolved("anchor", "bar constructor", "function allocating Bar not found")
		return
	}
	bad := ""
	var wit []string
	sawPush, sawPark := false, false
	n, over := w.enumPaths(clo, pathOpts{InlineDepth: 0}, func(p *Path) {
		if bad != "" || p.Exit != "return" {
			return
		}
		var bar ssa.Value
		pushes, parks, idInc := 0, 0, 0
		for _, ev := range p.Events {
			switch x := ev.In.(type) {
			case *ssa.Call:
				if x.Call.StaticCallee() == newBar {
					bar = x
				}
				if x.Call.StaticCallee() == pushFn {
					pushes++
					if len(x.Call.Args) == 3 {
						if x.Call.Args[1] != bar {
							bad = "the Add closure pushes a bar other than the one it created"
						}
						if bv, ok := constBool(x.Call.Args[2]); !ok || !bv {
							bad = "a new bar is pushed without the sync flag: with an unchanged heap length the width matrices stay stale and the bar blocks forever in its first synchronised decorator"
						}
					}
				}
			case *ssa.MapUpdate:
				if isLoad(Val{V: x.Map}, tPState, "queueBars") {
					parks++
					if x.Value != bar {
						bad = "the Add closure parks a bar other than the one it created"
					}
					// key = the bar state's waitBar
					if !isLoad(Val{V: x.Key}, tBState, "waitBar") {
						bad = "a bar is parked under a key other than the bar it waits for"
					}
				}
			case *ssa.Store:
				if f, ok := fieldOf(x.Addr); ok && f.Owner == tPState && f.Name == "idCount" {
					if incrOf(x.Val, tPState, "idCount") {
						idInc++
					}
				}
			}
		}
		if bad != "" {
			wit = p.describe()
			return
		}
		if bar == nil {
			bad = "a path of the Add closure creates no bar"
		} else if pushes+parks != 1 {
			bad = fmt.Sprintf("a created bar is pushed %d times and parked %d times on a path (must be exactly one of the two): a lost bar keeps Wait blocked, a doubled one is drawn twice", pushes, parks)
		} else if idInc != 1 {
			bad = "the id/priority counter does not advance by one on every Add (default priority = creation order)"
		}
		if pushes == 1 {
			sawPush = true
			if !p.hasCmp(-1, token.EQL, loadOf(tBState, "waitBar"), isNilVal) {
				bad = orStr(bad, "a bar is pushed on a path that does not carry waitBar == nil")
			}
		}
		if parks == 1 {
			sawPark = true
			if !p.hasCmp(-1, token.NEQ, loadOf(tBState, "waitBar"), isNilVal) {
				bad = orStr(bad, "a bar is parked on a path that does not carry waitBar != nil")
			}
		}
		if bad != "" {
			wit = p.describe()
		}
	})
	if over {
		r.Undecided(rule, "API:Progress.Add closure", w.pos(clo.Pos()), "path cap")
		return
	}
	r.Check(bad == "" && n > 0 && sawPush && sawPark, rule, "API:Progress.Add closure", w.pos(clo.Pos()), "created bar pushed (sync=true) or parked, exactly one; id counter advances", orStr(bad, "push or park branch missing"), wit...)
}

// barConstructor = the function that allocates a Bar.
func (w *World) barConstructor() *ssa.Function {
	var out []*ssa.Function
	for _, fn := range w.ModFns {
		if fn.Parent() != nil {
			continue
		}
		for _, b := range fn.Blocks {
			for _, in := range b.Instrs {
				if a, ok := in.(*ssa.Alloc); ok && a.Heap && typeName(a.Type()) == tBar {
					if _, isPtrPtr := a.Type().Underlying().(*types.Pointer).Elem().Underlying().(*types.Struct); isPtrPtr {
						out = appendUniqueFn(out, fn)
					}
				}
			}
		}
	}
	if len(out) == 1 {
		return out[0]
	}
	return nil
}

// C17 — a queued bar always gets its turn.
func checkC17(w *World, r *Report) {
	r.Explain = "Guarded-effect facts about the two sites that implement queueing: (R1) the Add closure pushes or parks every created bar, exactly one of the two; (R2) parking must not overwrite an earlier successor of the same predecessor; (R3) parking must be conditioned on the predecessor not yet having passed its cancelling frame; (R4) in flush, at the predecessor's cancelling frame the queue is consulted and the successor is swapped in: entry deleted, predecessor's current priority inherited before the push, pushed once with sync=true, predecessor not retained. R2 and R3 are violated by the pinned tree (recorded known findings, reproduced against the real code). Decides these structural necessary conditions; does not replay orders of create/finish/flush events."
	r.Assume = append(r.Assume, "the bar actor discipline of C10", "render cycles keep coming while bars are unfinished (C01)")
	fi := w.analyseFlush()
	ruleAddPushesOrParks(w, r, "C17")
	ruleSuccessorSwap(w, r, "C17", fi)
	ruleFlushOutcome(w, r, "C17", fi)
	ruleTerminalCancel(w, r, "C17", fi)
	ruleParkingSound(w, r, "C17")
	rulePopMode(w, r, "C17", fi)
	ruleStateAgrees(w, r, "C17")
	ruleFinalRender(w, r, "C17")
	// the successor is pushed with sync=true: the heap loop must honour that request, or the successor's
	// width-synchronised decorators wait for a matrix that never lists them and it is never displayed
	ruleSyncArm(w, r, "C17")
	// the hand-over push must not be sent while the heap loop is iterating for flush, and the frame that
	// triggers the hand-over is the one flush treats as the cancelling frame
	checkHeapSendDiscipline(w, r, "C17.R4")
	checkNoRequestWhileIterating(w, r, "C17")
	ruleRenderTerminal(w, r, "C17")
	ruleOptionTable(w, r, "C17", map[string][3]string{"BarQueueAfter": {tBState, "waitBar", "param"}})
}

// ruleParkingSound: R2 (no overwrite) and R3 (predecessor liveness) in the Add closure.
func ruleParkingSound(w *World, r *Report, pfx string) {
	clo, _ := w.apiClosure(r, "mpb.(*Progress).Add")
	if clo == nil {
		return
	}
	nPark := 0
	w.enumPathsOnce(clo, func(p *Path) {
		for _, ev := range p.Events {
			mu, ok := ev.In.(*ssa.MapUpdate)
			if !ok || !isLoad(Val{V: mu.Map}, tPState, "queueBars") {
				continue
			}
			nPark++
			if nPark > 1 {
				continue
			}
			// R2: a prior-entry atom: a comma-ok lookup of the same map with the same key tested before the store
			prior := false
			for _, a := range p.Atoms {
				c := p.cmpOf(a)
				var ex *ssa.Extract
				if c.Op == token.ILLEGAL {
					ex, _ = c.X.V.(*ssa.Extract)
				}
				if ex != nil {
					if lk, ok := ex.Tuple.(*ssa.Lookup); ok && lk.CommaOk && isLoad(Val{V: lk.X}, tPState, "queueBars") {
						prior = true
					}
				}
				// or: lookup result compared with nil
				if c.Op == token.EQL || c.Op == token.NEQ {
					if lk, ok := stripConv(c.X.V).(*ssa.Lookup); ok && isLoad(Val{V: lk.X}, tPState, "queueBars") {
						prior = true
					}
				}
			}
			r.Check(prior, "C17.R2", "API:Progress.Add closure: mapupdate pState.queueBars", w.instrPos(mu),
				"store guarded by a test for an existing successor",
				"queueBars[waitBar] is stored without testing for an existing entry: a second bar queued after the same predecessor overwrites the first, which is then never displayed nor cancelled (Wait never returns)")
			// R3: the park branch must carry an atom about the predecessor's liveness (its ctx / ready channel / a flushed marker)
			live := false
			for _, pe := range p.Events[:ev.Idx] {
				switch x := pe.In.(type) {
				case *ssa.Select:
					for _, st := range x.States {
						cs := (&classResolver{w: w, memo: map[ssa.Value]classSet{}}).classOf(st.Chan)
						if cs.has("Done(Bar.ctx)") || cs.has("Bar.bsOk") {
							live = true
						}
					}
				case *ssa.Call:
					if sc := x.Call.StaticCallee(); sc != nil && (sc.Name() == "IsRunning" || sc.Name() == "Completed" || sc.Name() == "Aborted") {
						live = true
					}
				}
			}
			r.Check(live, "C17.R3", "API:Progress.Add closure: park branch", w.instrPos(mu),
				"parking conditioned on the predecessor's liveness",
				"the new bar is parked whenever waitBar != nil, without testing whether the predecessor's cancelling frame was already flushed: a successor created after that is never displayed (Wait never returns)")
		}
	})
	if nPark == 0 {
		r.Undecided("C17.R2", "API:Progress.Add closure: mapupdate pState.queueBars", w.pos(clo.Pos()), "no parking store found")
	}
}

// enumPathsOnce: plain enumeration without inlining.
func (w *World) enumPathsOnce(fn *ssa.Function, visit func(p *Path)) {
	w.enumPaths(fn, pathOpts{InlineDepth: 0}, visit)
}

// C18 — pop-completed mode.
func checkC18(w *World, r *Report) {
	r.Explain = "Guarded-effect analysis of flush's decision arms in pop-completed mode (path enumeration, no solver): at the cancelling frame a poppable bar without successor takes the pop priority (assigned, then advanced by one) and is retained once; at the next terminal frame its used rows are added to the popped-row count and it is not retained; no-pop bars and non-pop containers keep the default arm; the amount accumulated is the per-bar counter incremented with each appended row; the count handed to the writer's Flush is (rows written) minus (popped rows); the initial pop priority is below every default priority. Decides the bookkeeping on all paths; the persisted screen region is not interpreted."
	r.Assume = append(r.Assume, "rows of a bar are single lines (user-supplied text is not inspected)")
	fi := w.analyseFlush()
	rulePopMode(w, r, "C18", fi)
	ruleFlushOutcome(w, r, "C18", fi)
	ruleFlushCount(w, r, "C18", fi)
	rulePopPriorityInit(w, r, "C18")
	ruleHeapOrder(w, r, "C18")
	ruleFinalRender(w, r, "C18")
	ruleStateAgrees(w, r, "C18")
	// the shutdown counter that drives popping advances with every frame, also the frames of a bar whose
	// goroutine has exited (manual refresh), and a new bar is announced to the width matrices although
	// a popped bar has just left the heap with the same length
	checkOneFrame(w, r, "C18")
	ruleAddPushesOrParks(w, r, "C18")
	ruleRowsAreLines(w, r, "C18")
	checkHeapSendDiscipline(w, r, "C18.R4")
	checkNoRequestWhileIterating(w, r, "C18")
	ruleOptionTable(w, r, "C18", map[string][3]string{"BarNoPop": {tBState, "noPop", "true"}, "PopCompletedMode": {tPState, "popCompleted", "true"}})
}

// ruleFlushCount (C04.R5, C18): the argument of the writer's Flush is len(rows written) - popCount,
// where rows written is the slice the output loop iterates completely.
func ruleFlushCount(w *World, r *Report, pfx string, fi *flushInfo) {
	rule := pfx + ".F-COUNT"
	if fi.Undecided != "" {
		r.Undecided(rule, "Flush argument", "", fi.Undecided)
		return
	}
	if fi.FlushCall == nil {
		r.Violated(rule, "Flush argument", w.pos(fi.Fn.Pos()), "flush never calls the writer's Flush")
		return
	}
	okShape := fi.PopCount != nil && fi.RowsPhi != nil
	r.Check(okShape, rule, "Flush argument", w.instrPos(fi.FlushCall), "len(collected rows) - popped rows", "the line count handed to the writer is not (rows written) minus (rows popped): the next frame's cursor-up would be wrong by the popped rows (duplicated or overwritten lines)")
	if !okShape {
		return
	}
	// every collected row is written: a loop that reads rows[e(i)] into the writer and whose index walks the whole slice
	okLoop := false
	why := "no loop writes the collected rows"
	for _, l := range naturalLoops(fi.Fn) {
		if l.Blocks[fi.Header] || l.Header == fi.Header {
			continue
		}
		reads := false
		for b := range l.Blocks {
			for _, in := range b.Instrs {
				if c, ok := in.(*ssa.Call); ok {
					if sc := c.Call.StaticCallee(); sc != nil && sc.Name() == "ReadFrom" {
						reads = true
					}
				}
			}
		}
		if !reads {
			continue
		}
		iw := w.loopIndexWalk(l, fi.RowsPhi)
		if iw.OK && iw.CoversAll {
			okLoop = true
		} else {
			why = orStr(iw.Why, "the output loop does not visit every index of the collected rows")
		}
	}
	r.Check(okLoop, rule, "output loop", w.pos(fi.Fn.Pos()), "writes every collected row (index walks the whole slice)", "the output loop does not write every collected row exactly once: "+why)
}

type countingLoop struct {
	ok    bool
	phi   *ssa.Phi
	start ssa.Value
	step  int64
	cmpOp token.Token
	bound ssa.Value
	desc  bool
}

// classifyCountingLoop recognises `for i := a; i >= 0; i--` and `for i := 0; i < n; i++` (incl. range-index loops).
func classifyCountingLoop(l *loopInfo) countingLoop {
	var out countingLoop
	ifi, ok := l.Header.Instrs[len(l.Header.Instrs)-1].(*ssa.If)
	if !ok {
		return out
	}
	bin, ok := ifi.Cond.(*ssa.BinOp)
	if !ok {
		return out
	}
	var phi *ssa.Phi
	var next *ssa.BinOp
	switch x := bin.X.(type) {
	case *ssa.Phi:
		phi = x
	case *ssa.BinOp: // range-index: t = phi + 1; t < len
		if p, ok := x.X.(*ssa.Phi); ok {
			phi = p
			next = x
		}
	}
	if phi == nil || phi.Block() != l.Header {
		return out
	}
	out.phi = phi
	out.cmpOp = bin.Op
	out.bound = bin.Y
	for i, e := range phi.Edges {
		pred := l.Header.Preds[i]
		if !l.Blocks[pred] {
			out.start = e
			continue
		}
		step, ok := e.(*ssa.BinOp)
		if !ok {
			return out
		}
		k, isK := constInt(step.Y)
		if !isK || step.X != ssa.Value(phi) && !(next != nil && e == ssa.Value(next)) {
			return out
		}
		switch step.Op {
		case token.ADD:
			out.step = k
		case token.SUB:
			out.step = -k
		default:
			return out
		}
	}
	out.desc = out.step < 0
	out.ok = out.step != 0 && out.start != nil
	return out
}

// coversAll: the loop index runs over every index of slice s (descending from len(s)-1 to 0, or ascending 0..len(s)-1).
func (c countingLoop) coversAll(s ssa.Value) bool {
	isLenOf := func(v ssa.Value) bool {
		lc, ok := v.(*ssa.Call)
		return ok && isBuiltinCall(&lc.Call, "len") && lc.Call.Args[0] == s
	}
	if c.desc && c.step == -1 {
		// start = len(s) - 1, cond i >= 0
		sub, ok := c.start.(*ssa.BinOp)
		if !ok || sub.Op != token.SUB || !isLenOf(sub.X) {
			return false
		}
		if k, ok := constInt(sub.Y); !ok || k != 1 {
			return false
		}
		k, ok := constInt(c.bound)
		return ok && ((c.cmpOp == token.GEQ && k == 0) || (c.cmpOp == token.GTR && k == -1))
	}
	if !c.desc && c.step == 1 {
		k, ok := constInt(c.start)
		if !ok {
			return false
		}
		return (k == 0 || k == -1) && c.cmpOp == token.LSS && isLenOf(c.bound)
	}
	return false
}

// rulePopPriorityInit: the initial pop priority is a constant below every default priority (ids start at 0).
func rulePopPriorityInit(w *World, r *Report, pfx string) {
	n := 0
	for _, fn := range w.ModFns {
		if fn.Parent() != nil {
			continue
		}
		for _, b := range fn.Blocks {
			for _, in := range b.Instrs {
				st, ok := in.(*ssa.Store)
				if !ok {
					continue
				}
				f, ok := fieldOf(st.Addr)
				if !ok || f.Owner != tPState || f.Name != "popPriority" {
					continue
				}
				if k, ok := constInt(st.Val); ok {
					n++
					r.Check(k < 0, pfx+".P-INIT", "initial pop priority", w.instrPos(in), fmt.Sprintf("%d < 0 = first default priority", k), "the initial pop priority is not below the first default priority: popped bars would not rise above running bars")
				}
			}
		}
	}
	if n == 0 {
		r.Undecided(pfx+".P-INIT", "initial pop priority", "", "constant initialisation of popPriority not found")
	}
}
