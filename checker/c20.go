package main

import (
	"fmt"
	"go/constant"
	"go/token"
	"go/types"
	"sort"
	"strings"

	"golang.org/x/tools/go/ssa"
)

func init() { checks["C20"] = checkC20 }

// ruleUnitTable (E9b): the unit chosen by a size type's Format is the largest unit not above the
// value: on every path, unit == the greatest threshold the value is known to reach (1 if none),
// thresholds are tested in increasing order, every unit has a name in String.
func ruleUnitTable(w *World, r *Report, pfx string) map[string][]int64 {
	rule := pfx + ".U-TABLE"
	tables := map[string][]int64{}
	for _, tn := range []string{"SizeB1024", "SizeB1000"} {
		fn := w.Func("decor.(" + tn + ").Format")
		str := w.Func("decor.(" + tn + ").String")
		if fn == nil || str == nil {
			r.Unresolved("anchor", "decor."+tn+".Format/String", "not found")
			continue
		}
		s := ssa.Value(fn.Params[0])
		units := map[int64]bool{}
		bad := ""
		n, over := w.enumPaths(fn, pathOpts{MaxPaths: 50000, InlineDepth: 2, Inline: func(_ ssa.CallInstruction, c *ssa.Function) bool { return c.Pkg == w.Decor && c != str }}, func(p *Path) {
			if bad != "" {
				return
			}
			// the division
			var quo *ssa.BinOp
			var quoEv Event
			for _, ev := range p.Events {
				if b, ok := ev.In.(*ssa.BinOp); ok && b.Op == token.QUO {
					quo = b
					quoEv = ev
				}
			}
			if quo == nil {
				return
			}
			numV := p.val(quoEv, quo.X)
			for {
				cv, ok := numV.V.(*ssa.Convert)
				if !ok {
					break
				}
				numV = p.R(Val{cv.X, numV.F, numV.E})
			}
			num := numV.V
			den := p.val(quoEv, quo.Y)
			dv := den.V
			for {
				cv, ok := dv.(*ssa.Convert)
				if !ok {
					break
				}
				dv = p.R(Val{cv.X, den.F, den.E}).V
			}
			if num != s {
				bad = "the printed number is not the value divided by the unit"
				return
			}
			unit, ok := constInt(dv)
			if !ok {
				bad = "the unit divisor is not a constant on this path"
				return
			}
			units[unit] = true
			lower, upper := int64(1), int64(-1)
			for _, a := range p.Atoms {
				c := p.cmpOf(a)
				if p.R(c.X).V != s {
					// the mirrored form: threshold > s
					if p.R(c.Y).V == s {
						c.X, c.Y = c.Y, c.X
						c.Op = swapOp(c.Op)
					} else {
						continue
					}
				}
				k, ok := constInt(c.Y.V)
				if !ok {
					continue
				}
				switch c.Op {
				case token.LSS:
					if upper < 0 || k < upper {
						upper = k
					}
				case token.GEQ:
					if k > lower {
						lower = k
					}
				case token.LEQ, token.GTR:
					bad = "unit thresholds are compared with <= / > (a value equal to a unit would print as 1024 of the smaller unit or 0.99 of the larger one inconsistently)"
					return
				}
			}
			if unit != lower {
				bad = fmt.Sprintf("a value known to be >= %d (and < %d) is printed in unit %d: not the largest unit that fits", lower, upper, unit)
				return
			}
			if upper >= 0 && upper <= lower {
				bad = "unit thresholds are not tested in increasing order"
			}
			// the suffix is the unit's own name
			okName := false
			for _, ev := range p.Events {
				c, ok := ev.In.(*ssa.Call)
				if !ok {
					continue
				}
				if c.Call.StaticCallee() == str {
					if k, ok := constInt(p.val(ev, c.Call.Args[0]).V); ok && k == unit {
						okName = true
					}
				}
				// through fmt.Stringer: the receiver is the unit constant of this size type boxed into an interface
				if c.Call.IsInvoke() && c.Call.Method.Name() == "String" {
					rv := p.val(ev, c.Call.Value)
					if mi, ok := rv.V.(*ssa.MakeInterface); ok && types.Identical(mi.X.Type(), fn.Params[0].Type()) {
						if k, ok := constInt(p.R(Val{mi.X, rv.F, rv.E}).V); ok && k == unit {
							okName = true
						}
					}
				}
			}
			if !okName {
				bad = "the unit suffix printed is not the name of the unit used for the division"
			}
		})
		if over {
			r.Undecided(rule, "decor."+tn+".Format", w.pos(fn.Pos()), "path cap")
			continue
		}
		var us []int64
		for u := range units {
			us = append(us, u)
		}
		sort.Slice(us, func(i, j int) bool { return us[i] < us[j] })
		tables[tn] = us
		if len(us) < 5 && bad == "" {
			bad = fmt.Sprintf("only %d units reachable", len(us))
		}
		r.Check(bad == "" && n > 0, rule, "decor."+tn+".Format", w.pos(fn.Pos()), fmt.Sprintf("%d paths; units %v each chosen exactly on [unit, next unit)", n, us), bad)
		// String names every unit
		named := map[int64]string{}
		w.enumPaths(str, pathOpts{}, func(p *Path) {
			if p.Exit != "return" || len(p.Ret) != 1 {
				return
			}
			c, ok := p.Ret[0].V.(*ssa.Const)
			if !ok || c.Value == nil || c.Value.Kind() != constant.String {
				return
			}
			for _, a := range p.Atoms {
				cm := p.cmpOf(a)
				if cm.Op == token.EQL {
					if k, ok := constInt(cm.Y.V); ok {
						named[k] = constant.StringVal(c.Value)
					}
				}
			}
		})
		bad = ""
		seen := map[string]bool{}
		for _, u := range us {
			nm, ok := named[u]
			if !ok || nm == "" {
				bad = fmt.Sprintf("unit %d has no name in String(): it would print as %s(%d)", u, tn, u)
			}
			if seen[nm] {
				bad = "two units share a name"
			}
			seen[nm] = true
		}
		r.Check(bad == "", rule+"n", "decor."+tn+".String", w.pos(str.Pos()), fmt.Sprintf("names %v", named), bad)
	}
	// sibling agreement: the two tables have the same length and are geometric with ratios 1024 / 1000
	a, b := tables["SizeB1024"], tables["SizeB1000"]
	okSib := len(a) == len(b) && len(a) >= 2
	for i := 1; okSib && i < len(a); i++ {
		if a[i] != a[i-1]*1024 || b[i] != b[i-1]*1000 {
			okSib = false
		}
	}
	r.Check(okSib, rule+"s", "unit tables of SizeB1024 / SizeB1000", "", "same number of units, ratios 1024 and 1000", "the binary and decimal unit tables disagree (different number of units or a ratio other than 1024 / 1000)")
	return tables
}

// ruleDivisorGuards (E6c): float divisions in decor/internal need a non-zero divisor.
func ruleDivisorGuards(w *World, r *Report, pfx string) {
	rule := pfx + ".D-DIV"
	n := 0
	for _, fn := range w.ModFns {
		if fn.Pkg != w.Decor && fn.Pkg != w.Intern {
			continue
		}
		for _, b := range fn.Blocks {
			for _, in := range b.Instrs {
				q, ok := in.(*ssa.BinOp)
				if !ok || q.Op != token.QUO {
					continue
				}
				bt, ok := q.Type().Underlying().(*types.Basic)
				if !ok || bt.Info()&types.IsFloat == 0 {
					// integer divisions by constants (durations) are fine; by variables must be guarded too
					if _, isK := q.Y.(*ssa.Const); isK {
						continue
					}
				}
				if c, isK := q.Y.(*ssa.Const); isK && c.Value != nil && constant.Sign(c.Value) != 0 {
					continue
				}
				n++
				construct := "division in " + fnShort(fn) + " by " + describeVal(Val{V: q.Y})
				why, ok := w.divisorNonZero(fn, q)
				r.Check(ok, rule, construct, w.instrPos(in), why, "the divisor can be zero on some path: the decorator would print NaN/Inf or feed it to the moving average ("+why+")")
			}
		}
	}
	r.Floor(rule, 5, "speed, eta x2, ewma updates x2, percentage, size formats")
}

func (w *World) divisorNonZero(fn *ssa.Function, q *ssa.BinOp) (string, bool) {
	d := q.Y
	src := d
	if cv, ok := d.(*ssa.Convert); ok {
		src = cv.X
	}
	// phi of non-zero constants (unit tables)
	if phi, ok := src.(*ssa.Phi); ok {
		all := len(phi.Edges) > 0
		for _, e := range phi.Edges {
			if k, ok := constInt(e); !ok || k == 0 {
				all = false
			}
		}
		if all {
			return "unit: phi of non-zero constants", true
		}
	}
	// call of a module function that returns only non-zero constants (unit selection helper)
	if c, ok := src.(*ssa.Call); ok && c.Call.StaticCallee() != nil && w.modSet[c.Call.StaticCallee()] {
		all, n := true, 0
		for _, b := range c.Call.StaticCallee().Blocks {
			if ret, ok := b.Instrs[len(b.Instrs)-1].(*ssa.Return); ok {
				for _, rv := range ret.Results {
					n++
					vals := []ssa.Value{rv}
					if phi, ok := rv.(*ssa.Phi); ok {
						vals = phi.Edges
					}
					for _, v := range vals {
						if k, ok := constInt(v); !ok || k == 0 {
							all = false
						}
					}
				}
			}
		}
		if all && n > 0 {
			return "unit helper returns only non-zero constants", true
		}
	}
	// time.Since(start): non-zero by the monotonic clock (table entry)
	if c, ok := src.(*ssa.Call); ok && c.Call.StaticCallee() != nil && c.Call.StaticCallee().String() == "time.Since" {
		return "time.Since(start): non-zero elapsed time on a monotonic clock (table entry; a zero reading yields +Inf speed, which is not printed as a size)", true
	}
	// every path to the division carries src != 0 / src > 0
	bad := ""
	reached := false
	_, over := w.enumPaths(fn, pathOpts{MaxPaths: 50000}, func(p *Path) {
		idx := -1
		for _, ev := range p.Events {
			if ev.In == ssa.Instruction(q) {
				idx = ev.Idx
			}
		}
		if idx < 0 {
			return
		}
		reached = true
		is := func(v Val) bool {
			if v.V == src {
				return true
			}
			// loads of the same field are the same quantity (no store in between in these tiny functions)
			f1, ok1 := loadedField(stripConv(v.V))
			f2, ok2 := loadedField(stripConv(src))
			return ok1 && ok2 && f1.Owner == f2.Owner && f1.Name == f2.Name
		}
		zero := func(v Val) bool {
			if k, ok := constInt(v.V); ok {
				return k == 0
			}
			if c, ok := v.V.(*ssa.Const); ok && c.Value != nil && c.Value.Kind() == constant.Float {
				return constant.Sign(c.Value) == 0
			}
			return false
		}
		if p.hasCmp(idx, token.NEQ, is, zero) || p.hasCmp(idx, token.GTR, is, zero) {
			return
		}
		bad = "a path reaches the division without the atom divisor != 0"
	})
	if over {
		return "path cap", false
	}
	if !reached {
		return "division unreachable", false
	}
	return orStr(bad, "guarded on every path by divisor != 0 / > 0"), bad == ""
}

// ruleTimeConservation: every path of EwmaUpdate either carries the sample's duration over
// (zDur += dur, nothing added) or adds (zDur+dur)/n and resets zDur; siblings agree.
func ruleTimeConservation(w *World, r *Report, pfx string) {
	rule := pfx + ".E-CONSERVE"
	n := 0
	for _, fn := range w.ModFns {
		if fn.Pkg != w.Decor || fn.Name() != "EwmaUpdate" || fn.Parent() != nil {
			continue
		}
		n++
		owner := typeName(fn.Signature.Recv().Type())
		nP, durP := ssa.Value(fn.Params[1]), ssa.Value(fn.Params[2])
		// the carried time: the duration-typed field of the estimator that EwmaUpdate (or a helper it
		// hands the field's address to) stores to - found by what is done with it, not by its name
		carry := ""
		if st := structOf(fn.Signature.Recv().Type()); st != nil {
			for _, g := range sortedFns(w.unit(fn)) {
				for _, b := range g.Blocks {
					for _, in := range b.Instrs {
						if s2, ok := in.(*ssa.Store); ok {
							if f, ok := fieldOf(s2.Addr); ok && f.Owner == owner {
								carry = f.Name
							}
						}
						if c, ok := in.(*ssa.Call); ok && g == fn {
							for _, a := range c.Call.Args {
								if f, ok := fieldOf(a); ok && f.Owner == owner {
									if b, ok := st.Field(fieldIndex(st, f.Name)).Type().Underlying().(*types.Basic); ok && b.Info()&types.IsInteger != 0 {
										carry = f.Name
									}
								}
							}
						}
					}
				}
			}
		}
		if carry == "" {
			carry = "zDur"
		}
		bad := ""
		sawCarry, sawAdd := false, false
		w.enumPaths(fn, pathOpts{InlineDepth: 2, Inline: func(_ ssa.CallInstruction, c *ssa.Function) bool { return c.Pkg == w.Decor }}, func(p *Path) {
			if bad != "" || p.Exit != "return" {
				return
			}
			isCarry := func(v Val) bool { // zDur + dur, with dur resolved to this method's parameter
				add, ok := stripConv(v.V).(*ssa.BinOp)
				if !ok || add.Op != token.ADD {
					return false
				}
				x, y := p.stripR(Val{add.X, v.F, v.E}), p.stripR(Val{add.Y, v.F, v.E})
				return (p.loadsField(x, owner, carry) && y.V == durP) || (p.loadsField(y, owner, carry) && x.V == durP)
			}
			st := p.storesTo(owner, carry)
			type addCall struct {
				c  *ssa.Call
				ev Event
			}
			var adds []addCall
			for _, ev := range p.Events {
				if c, ok := ev.In.(*ssa.Call); ok && c.Call.IsInvoke() && c.Call.Method.Name() == "Add" {
					adds = append(adds, addCall{c, ev})
				}
			}
			isUnusable := func(v Val) bool {
				c, ok := v.V.(*ssa.Call)
				if !ok {
					return false
				}
				switch staticCalleeName(&c.Call) {
				case "math.IsInf", "math.IsNaN":
					return true
				}
				return false
			}
			switch {
			case len(adds) == 0:
				sawCarry = true
				if len(st) != 1 || !isCarry(st[0].Val) {
					bad = "a sample without progress (or with an unusable quotient) is not carried into the next one as zDur += dur: its time is dropped and the next estimate is too optimistic"
				}
				// ... and only such a sample is: the path carries n <= 0 or a positive IsInf / IsNaN
				if bad == "" && !p.hasCmp(-1, token.LEQ, func(v Val) bool { return v.V == nP }, isConstInt(0)) && !p.hasBool(-1, true, isUnusable) {
					bad = "a sample is carried instead of added on a path that carries neither n <= 0 nor an infinite / NaN quotient: usable samples never reach the moving average"
				}
			case len(adds) == 1:
				sawAdd = true
				if p.hasBool(-1, true, isUnusable) {
					bad = "a quotient known to be infinite or NaN is added to the moving average"
					return
				}
				if !p.hasCmp(-1, token.GTR, func(v Val) bool { return v.V == nP }, isConstInt(0)) {
					bad = "a duration-per-item is added on a path without the atom n > 0 (division by zero or negative progress)"
					return
				}
				av := p.val(adds[0].ev, adds[0].c.Call.Args[0])
				q, ok := av.V.(*ssa.BinOp)
				if !ok || q.Op != token.QUO {
					bad = "the value added to the moving average is not a quotient"
					return
				}
				num := p.stripR(Val{q.X, av.F, av.E})
				den := p.stripR(Val{q.Y, av.F, av.E})
				if !isCarry(num) || den.V != nP {
					bad = "the value added is not (carried time + this sample's time) / n"
					return
				}
				if len(st) != 1 || !isConstInt(0)(st[0].Val) {
					bad = "the carried time is not reset after it was added"
				}
			default:
				bad = "more than one Add per sample"
			}
		})
		r.Check(bad == "" && sawCarry && sawAdd, rule, "EwmaUpdate of "+strings.TrimPrefix(owner, "decor."), w.pos(fn.Pos()), "carry (zDur += dur) or add (zDur+dur)/n and reset", orStr(bad, "branch missing"))
	}
	r.Floor(rule, 2, "eta and speed estimators")
}

// ruleSamplesReach: makeBarState collects unwrap(d).(EwmaDecorator) over both groups; each Ewma
// closure calls EwmaUpdate(n, iterDur) once per collected decorator.
func ruleSamplesReach(w *World, r *Report, pfx string) {
	rule := pfx + ".E-REACH"
	mk := w.makeBarStateFn()
	unwrap := w.Func("mpb.unwrap")
	if mk == nil || unwrap == nil {
		r.Unresolved("anchor", "bar state constructor / unwrap", "not found")
		return
	}
	var ta *ssa.TypeAssert
	var units []*ssa.Function
	for f := range w.unit(mk) {
		units = append(units, f)
	}
	sort.Slice(units, func(i, j int) bool { return units[i].Pos() < units[j].Pos() })
	for _, f := range units {
		for _, b := range f.Blocks {
			for _, in := range b.Instrs {
				if t, ok := in.(*ssa.TypeAssert); ok && t.CommaOk && typeName(t.AssertedType) == "decor.EwmaDecorator" {
					ta = t
				}
			}
		}
	}
	bad := ""
	if ta == nil {
		bad = "the constructor never looks for moving-average decorators"
	} else {
		c, ok := ta.X.(*ssa.Call)
		if !ok || c.Call.StaticCallee() != unwrap {
			bad = "moving-average decorators are not looked up through unwrap: a wrapped estimator (OnComplete(EwmaETA(...))) never receives a sample"
		} else {
			// nested range loops: inner over the group, outer over decorGroups (array of length 2)
			loops := naturalLoops(ta.Parent())
			inner := innermostLoop(loops, ta.Block())
			var outer *loopInfo
			for _, l := range loops {
				if inner != nil && l.Header != inner.Header && l.Blocks[inner.Header] {
					outer = l
				}
			}
			if inner == nil || outer == nil {
				bad = "the lookup is not done for every decorator of every group"
			} else {
				ci := classifyCountingLoop(inner)
				if !ci.ok || ci.step != 1 || !w.loopCoversGroups(outer) {
					bad = "the lookup loops do not cover both groups completely"
				}
			}
			// appended under ok to bState.ewmaDecorators
			// (directly, or as the result of the helper that does the lookup and appends)
			okApp := false
			hasAppend := func(f *ssa.Function) bool {
				for _, b := range f.Blocks {
					for _, in := range b.Instrs {
						if ac, ok := in.(*ssa.Call); ok && isBuiltinCall(&ac.Call, "append") && strings.Contains(ac.Type().String(), "EwmaDecorator") {
							return true
						}
					}
				}
				return false
			}
			for _, f := range units {
				for _, b := range f.Blocks {
					for _, in := range b.Instrs {
						if st, ok := in.(*ssa.Store); ok {
							if fr, ok := fieldOf(st.Addr); ok && fr.Owner == tBState && fr.Name == "ewmaDecorators" {
								if ac, ok := st.Val.(*ssa.Call); ok {
									if isBuiltinCall(&ac.Call, "append") && f == ta.Parent() {
										okApp = true
									}
									if ac.Call.StaticCallee() == ta.Parent() && f != ta.Parent() && hasAppend(ta.Parent()) {
										okApp = true
									}
								}
							}
						}
					}
				}
			}
			if !okApp {
				bad = orStr(bad, "found estimators are not collected")
			}
			// ... after the options were applied (they fill the decorator groups): in the function that
			// applies them, the option calls come first
			for _, b := range ta.Parent().Blocks {
				for _, in := range b.Instrs {
					oc, ok := in.(*ssa.Call)
					if !ok || oc.Call.IsInvoke() || oc.Call.StaticCallee() != nil || typeName(oc.Call.Value.Type()) != "mpb.BarOption" {
						continue
					}
					// the option loop's header (the block that decides to leave it) dominates the lookup
					hdr := b
					for _, l := range naturalLoops(ta.Parent()) {
						if l.Blocks[b] {
							hdr = l.Header
						}
					}
					if !(hdr.Dominates(ta.Block()) && !ta.Block().Dominates(hdr)) {
						bad = orStr(bad, "moving-average decorators are looked up before the options that install the decorators are applied: none is ever found")
					}
				}
			}
			// ... under the ok of that assertion, and the value collected is the asserted one
			for _, b := range ta.Parent().Blocks {
				for _, in := range b.Instrs {
					ac, ok := in.(*ssa.Call)
					if !ok || !isBuiltinCall(&ac.Call, "append") || !strings.Contains(ac.Type().String(), "EwmaDecorator") {
						continue
					}
					underOk := false
					for _, ref := range *ta.Referrers() {
						ex, ok := ref.(*ssa.Extract)
						if !ok || ex.Index != 1 || ex.Referrers() == nil {
							continue
						}
						for _, r2 := range *ex.Referrers() {
							if ifi, ok := r2.(*ssa.If); ok {
								t := ifi.Block().Succs[0]
								if t == b || (t.Dominates(b) && len(t.Preds) == 1) {
									underOk = true
								}
							}
						}
					}
					if !underOk {
						bad = orStr(bad, "the collection is not guarded by the success of the assertion (a decorator that is no estimator is collected as a nil estimator, the estimators themselves are not)")
					}
				}
			}
		}
	}
	r.Check(bad == "", rule, "collection at bar creation", w.pos(mk.Pos()), "unwrap(d).(EwmaDecorator) for every decorator of both groups", bad)
	for _, spec := range []string{"mpb.(*Bar).EwmaIncrInt64", "mpb.(*Bar).EwmaSetCurrent"} {
		clo, off := w.apiClosure(r, spec)
		if clo == nil {
			continue
		}
		bad := ""
		seen := false
		// the closure (or a helper it calls) spawns, once per collected estimator, a
		// goroutine that calls EwmaUpdate(amount, iterDur)
		_, over := w.enumPaths(clo, pathOpts{InlineDepth: 3, Inline: w.helperInline(clo)}, func(p *Path) {
			if bad != "" {
				return
			}
			for _, ev := range p.Events {
				g, ok := ev.In.(*ssa.Go)
				if !ok {
					continue
				}
				for _, t := range w.goTargets(g) {
					upd := ewmaUpdateCall(t)
					if upd == nil {
						continue
					}
					seen = true
					// origin of an argument, followed through the frames of inlined helpers
					trace := func(v ssa.Value) (ssa.Value, *Frame) {
						fr := ev.F
						for i := 0; i < 8; i++ {
							o := w.origin(v)
							par, isP := o.(*ssa.Parameter)
							if !isP {
								return o, fr
							}
							var hf *Frame
							for f := ev.F; f != nil; f = f.Parent {
								if f.Fn == par.Parent() && f.Parent != nil {
									hf = f
								}
							}
							if hf == nil {
								return o, fr
							}
							idx := -1
							for k, q := range hf.Fn.Params {
								if q == par {
									idx = k
								}
							}
							if idx < 0 || idx >= len(hf.Args) {
								return o, fr
							}
							v, fr = hf.Args[idx].V, hf.Args[idx].F
						}
						return v, fr
					}
					isAPIParam := func(v ssa.Value, idx int) bool {
						o, _ := trace(v)
						par, ok := o.(*ssa.Parameter)
						return ok && par.Parent() == off.Fn && idx < len(off.Fn.Params) && off.Fn.Params[idx] == par
					}
					if !isAPIParam(upd.Call.Args[1], len(off.Fn.Params)-1) {
						bad = "the duration handed to the estimators is not the caller's iteration duration"
					}
					if strings.HasSuffix(spec, "EwmaIncrInt64") {
						if !isAPIParam(upd.Call.Args[0], 1) {
							bad = "the amount handed to the estimators is not the increment"
						}
					} else {
						o, _ := trace(upd.Call.Args[0])
						sub, ok := o.(*ssa.BinOp)
						if !ok || sub.Op != token.SUB || !isAPIParam(sub.X, 1) || !isLoad(Val{V: sub.Y}, tBState, "current") {
							bad = "the amount handed to the estimators is not (new current - old current)"
						} else if sub.Parent() == t {
							bad = "the amount (new current - old current) is computed inside the spawned goroutine: it reads current concurrently with the closure's own store (data race; estimators usually see 0)"
						} else {
							// no store to current precedes the subtraction on this path
							si := -1
							for _, e2 := range p.Events {
								if e2.In == ssa.Instruction(sub) {
									si = e2.Idx
								}
							}
							for _, e2 := range p.Events {
								if f, _, ok := p.storeField(e2); ok && f.Owner == tBState && f.Name == "current" && si >= 0 && e2.Idx < si {
									bad = "the amount is computed after current was overwritten"
								}
							}
							if si < 0 {
								bad = "the subtraction (new current - old current) is not executed by the closure before the spawn"
							}
						}
					}
					// one goroutine per collected decorator: the spawn sits in a unit-step loop over s.ewmaDecorators
					okRange := false
					for _, l := range naturalLoops(g.Parent()) {
						if !l.Blocks[g.Block()] {
							continue
						}
						cl := classifyCountingLoop(l)
						if cl.ok && cl.step == 1 {
							if lc, ok := cl.bound.(*ssa.Call); ok && isBuiltinCall(&lc.Call, "len") && isLoad(Val{V: lc.Call.Args[0]}, tBState, "ewmaDecorators") {
								okRange = true
							}
						}
					}
					if !okRange {
						bad = orStr(bad, "the update is not issued once for every collected estimator")
					}
				}
			}
		})
		if over {
			r.Undecided(rule, "API:"+spec+" closure", w.pos(clo.Pos()), "path cap")
			continue
		}
		if !seen {
			bad = "no EwmaUpdate call: moving-average decorators never receive samples from this entry point"
		}
		r.Check(bad == "", rule, "API:"+spec+" closure", w.pos(clo.Pos()), "EwmaUpdate(amount, iterDur) once per collected estimator", bad)
	}
}

// ewmaUpdateCall: the EwmaUpdate invocation in fn, if any.
func ewmaUpdateCall(fn *ssa.Function) *ssa.Call {
	for _, b := range fn.Blocks {
		for _, in := range b.Instrs {
			if call, ok := in.(*ssa.Call); ok && call.Call.IsInvoke() && call.Call.Method.Name() == "EwmaUpdate" {
				return call
			}
		}
	}
	return nil
}

// fnStoresBefore: a store to bState.current precedes instruction at in its function.
func fnStoresBefore(fn *ssa.Function, at ssa.Instruction) bool {
	for _, b := range fn.Blocks {
		for _, in := range b.Instrs {
			if st, ok := in.(*ssa.Store); ok {
				if f, ok := fieldOf(st.Addr); ok && f.Owner == tBState && f.Name == "current" && instrReaches(st, at) {
					return true
				}
			}
		}
	}
	return false
}

// ruleFrozen: the cached message of the elapsed decorator is updated only under !Completed && !Aborted,
// that of the average speed decorator only under !Completed.
func ruleFrozen(w *World, r *Report, pfx string) {
	rule := pfx + ".F-FROZEN"
	// NewElapsed's closure: store to the captured msg cell
	n := 0
	for _, fn := range w.ModFns {
		if fn.Pkg != w.Decor {
			continue
		}
		// candidates: functions that read Statistics.Completed and cache a string (store of a string
		// into a captured cell or a struct field of their receiver)
		readsCompleted, cachesString := false, false
		for _, b := range fn.Blocks {
			for _, in := range b.Instrs {
				switch x := in.(type) {
				case *ssa.Field:
					if f, ok := fieldOf(x); ok && f.Owner == tStat && f.Name == "Completed" {
						readsCompleted = true
					}
				case *ssa.UnOp:
					if f, ok := loadedField(x); ok && f.Owner == tStat && f.Name == "Completed" {
						readsCompleted = true
					}
				case *ssa.Store:
					if !types.Identical(x.Val.Type(), types.Typ[types.String]) {
						continue
					}
					if _, ok := x.Addr.(*ssa.FreeVar); ok {
						cachesString = true
					}
					if fa, ok := x.Addr.(*ssa.FieldAddr); ok {
						if _, isParam := w.origin(fa.X).(*ssa.Parameter); isParam {
							cachesString = true
						}
					}
				}
			}
		}
		if !readsCompleted || !cachesString {
			continue
		}
		isAvgSpeed := fn.Signature.Recv() != nil && typeName(fn.Signature.Recv().Type()) == "decor.averageSpeed"
		isElapsed := !isAvgSpeed
		n++
		bad := ""
		sawStore, sawKeep := false, false
		w.enumPaths(fn, pathOpts{}, func(p *Path) {
			if p.Exit != "return" {
				return
			}
			stores := 0
			for _, ev := range p.Events {
				st, ok := ev.In.(*ssa.Store)
				if !ok {
					continue
				}
				if !types.Identical(st.Val.Type(), types.Typ[types.String]) {
					continue
				}
				if _, isFV := st.Addr.(*ssa.FreeVar); isFV {
					stores++
				}
				if fa, ok := st.Addr.(*ssa.FieldAddr); ok {
					if _, isParam := w.origin(fa.X).(*ssa.Parameter); isParam {
						stores++
					}
				}
			}
			notCompleted := p.hasBool(-1, false, loadOf(tStat, "Completed"))
			notAborted := p.hasBool(-1, false, loadOf(tStat, "Aborted"))
			if stores > 0 {
				sawStore = true
				if !notCompleted {
					bad = "the cached text is refreshed on a path without the atom !Completed: the value keeps changing after the bar completed"
				}
				if isElapsed && !notAborted {
					bad = orStr(bad, "the elapsed time keeps running after the bar was aborted")
				}
			} else {
				sawKeep = true
			}
		})
		name := "elapsed decorator"
		if isAvgSpeed {
			name = "average speed decorator"
		}
		r.Check(bad == "" && sawStore && sawKeep, rule, name, w.pos(fn.Pos()), "cached text updated only while the bar is running", orStr(bad, "update or keep branch missing"))
	}
	r.Floor(rule, 2, "elapsed, average speed")
}

// ruleTimeProducers: h/m/s components are (d / unit) % 60 with the right units.
func ruleTimeProducers(w *World, r *Report, pfx string) {
	rule := pfx + ".T-HMS"
	var cands []*ssa.Function
	for _, fn := range w.ModFns {
		if fn.Pkg != w.Decor || fn.Signature.Params().Len() != 1 || fn.Signature.Results().Len() != 1 {
			continue
		}
		if typeName(fn.Signature.Params().At(0).Type()) == "time.Duration" && types.Identical(fn.Signature.Results().At(0).Type(), types.Typ[types.String]) && fn.Signature.Recv() == nil {
			cands = append(cands, fn)
		}
	}
	units := map[int64]string{3600e9: "h", 60e9: "m", 1e9: "s"}
	n := 0
	for _, fn0 := range cands {
		comps := map[string]int{}
		// components may be computed by a shared helper
		fns := []*ssa.Function{fn0}
		for h := range w.unit(fn0) {
			if h != fn0 {
				fns = append(fns, h)
			}
		}
		fn := fn0
		bad := ""
		for _, ff := range fns {
			for _, b := range ff.Blocks {
				for _, in := range b.Instrs {
					rem, ok := in.(*ssa.BinOp)
					if !ok || rem.Op != token.REM {
						continue
					}
					k, ok := constInt(rem.Y)
					if !ok || k != 60 {
						bad = "a time component is not taken modulo 60"
						continue
					}
					q, ok := stripConv(rem.X).(*ssa.BinOp)
					if !ok || q.Op != token.QUO || q.X != ssa.Value(ff.Params[0]) {
						bad = "a time component is not (duration / unit) % 60"
						continue
					}
					u, ok := constInt(q.Y)
					if !ok || units[u] == "" {
						bad = "a time component divides by something other than hour / minute / second"
						continue
					}
					comps[units[u]]++
				}
			}
		}
		if len(comps) == 0 {
			continue // the Go-style producer (Truncate(second).String())
		}
		n++
		if comps["m"] != 1 || comps["h"] > 1 || comps["s"] > 1 {
			bad = orStr(bad, "hours/minutes/seconds are not each derived once")
		}
		r.Check(bad == "", rule, fmt.Sprintf("time producer #%d", n), w.pos(fn.Pos()), fmt.Sprintf("components %v", comps), bad)
		// what is printed, path by path: the arguments of the one Sprintf are (d/unit)%60 components in
		// descending, contiguous units starting at hours - or at minutes only on a path that carries
		// hours <= 0 (the MM:SS style shows hours once there are any)
		bad2 := ""
		unitOf := func(p *Path, v Val) string {
			x := p.R(v)
			rem, ok := stripConv(x.V).(*ssa.BinOp)
			if !ok || rem.Op != token.REM {
				return ""
			}
			if k, ok := constInt(rem.Y); !ok || k != 60 {
				return ""
			}
			q, ok := stripConv(p.R(Val{rem.X, x.F, x.E}).V).(*ssa.BinOp)
			if !ok || q.Op != token.QUO {
				return ""
			}
			if _, isPar := p.R(Val{q.X, x.F, x.E}).V.(*ssa.Parameter); !isPar {
				return ""
			}
			u, _ := constInt(q.Y)
			return units[u]
		}
		_, over := w.enumPaths(fn0, pathOpts{InlineDepth: 2, Inline: w.helperInline(fn0)}, func(p *Path) {
			if p.Exit != "return" || bad2 != "" {
				return
			}
			var us []string
			nSprintf := 0
			for _, ev := range p.Events {
				switch x := ev.In.(type) {
				case *ssa.Call:
					if staticCalleeName(&x.Call) == "fmt.Sprintf" {
						nSprintf++
					}
				case *ssa.Store:
					ia, ok := x.Addr.(*ssa.IndexAddr)
					if !ok {
						continue
					}
					if al, ok := ia.X.(*ssa.Alloc); !ok || al.Comment != "varargs" {
						continue
					}
					mi, ok := x.Val.(*ssa.MakeInterface)
					if !ok {
						us = append(us, "?")
						continue
					}
					us = append(us, orStr(unitOf(p, Val{mi.X, ev.F, ev.E}), "?"))
				}
			}
			if nSprintf != 1 {
				bad2 = fmt.Sprintf("a path formats %d times", nSprintf)
				return
			}
			switch strings.Join(us, "") {
			case "hms", "hm":
			case "ms":
				isHours := func(v Val) bool { return unitOf(p, v) == "h" }
				atMost := func(n int64) func(Val) bool {
					return func(v Val) bool { k, ok := constInt(v.V); return ok && k <= n }
				}
				if !p.hasCmp(-1, token.LEQ, isHours, atMost(0)) && !p.hasCmp(-1, token.LSS, isHours, atMost(1)) {
					bad2 = "minutes:seconds are printed without the hours on a path that does not carry hours <= 0: a remaining time of an hour or more reads back an hour short"
				}
			default:
				bad2 = "the printed components are [" + strings.Join(us, " ") + "]: not hours, minutes, seconds each as (d / unit) % 60 in this order"
			}
		})
		if over {
			r.Undecided(rule, fmt.Sprintf("time producer #%d components", n), w.pos(fn.Pos()), "path cap")
		} else {
			r.Check(bad2 == "", rule, fmt.Sprintf("time producer #%d components", n), w.pos(fn.Pos()), "h:m:s / h:m, or m:s under hours <= 0", bad2)
		}
	}
	r.Floor(rule, 3, "HHMMSS, HHMM, MMSS producers")
}

// rulePercentageDecor: NewPercentage's closure computes Percentage(Total, Current, 100).
func rulePercentageDecor(w *World, r *Report, pfx string) {
	rule := pfx + ".P-PERCENT"
	helper := w.Func("internal.Percentage")
	root := w.Func("decor.NewPercentage")
	if helper == nil || root == nil {
		r.Unresolved("anchor", "NewPercentage / internal.Percentage", "not found")
		return
	}
	ok := false
	for _, fn := range root.AnonFuncs {
		for _, b := range fn.Blocks {
			for _, in := range b.Instrs {
				c, isC := in.(*ssa.Call)
				if !isC || c.Call.StaticCallee() != helper || len(c.Call.Args) != 3 {
					continue
				}
				k, isK := constInt(c.Call.Args[2])
				ok = isLoad(Val{V: stripConv(c.Call.Args[0])}, tStat, "Total") && isLoad(Val{V: stripConv(c.Call.Args[1])}, tStat, "Current") && isK && k == 100
			}
		}
	}
	r.Check(ok, rule, "percentage decorator", w.pos(root.Pos()), "Percentage(Total, Current, 100)", "the percentage decorator does not compute Percentage(Total, Current, 100)")
	// the formatter prints the percentage it is given, unscaled, followed by the percent sign
	for _, fn := range w.ModFns {
		if fn.Pkg != w.Decor || fn.Name() != "Format" || fn.Signature.Recv() == nil || fn.Parent() != nil {
			continue
		}
		if b, isB := fn.Signature.Recv().Type().Underlying().(*types.Basic); !isB || b.Info()&types.IsFloat == 0 {
			continue // the percentage type is the float-based formatter
		}
		recv := ssa.Value(fn.Params[0])
		bad := ""
		n := 0
		for _, g := range sortedFns(w.unit(fn)) {
			for _, b := range g.Blocks {
				for _, in := range b.Instrs {
					c, isC := in.(*ssa.Call)
					if !isC || c.Call.StaticCallee() == nil || c.Call.StaticCallee().String() != "strconv.AppendFloat" {
						continue
					}
					n++
					v := c.Call.Args[1]
					for i := 0; i < 6; i++ {
						v = stripConv(w.origin(v))
						if par, isP := v.(*ssa.Parameter); isP && par.Parent() != fn {
							// a helper's parameter: the single caller's argument
							h := par.Parent()
							var sites []ssa.CallInstruction
							for _, st := range w.callers[h] {
								if st.Parent().Synthetic == "" { // not the pointer-receiver wrapper of a value method
									sites = append(sites, st)
								}
							}
							if len(sites) == 1 {
								for k, q := range h.Params {
									if q == par && k < len(sites[0].Common().Args) {
										v = sites[0].Common().Args[k]
									}
								}
								continue
							}
						}
						break
					}
					if v != recv {
						bad = "the number printed is not the percentage the formatter was given (scaled or replaced)"
					}
				}
			}
		}
		hasSign := false
		var signBlocks []*ssa.BasicBlock
		for _, g := range sortedFns(w.unit(fn)) {
			signBlocks = append(signBlocks, g.Blocks...)
		}
		for _, b := range signBlocks {
			for _, in := range b.Instrs {
				for _, op := range in.Operands(nil) {
					if k, isK := (*op).(*ssa.Const); isK && k.Value != nil {
						if k.Value.Kind() == constant.Int {
							if iv, exact := constant.Int64Val(k.Value); exact && iv == '%' {
								hasSign = true
							}
						}
						if k.Value.Kind() == constant.String && strings.Contains(constant.StringVal(k.Value), "%") {
							hasSign = true
						}
					}
				}
			}
		}
		if !hasSign {
			bad = orStr(bad, "no percent sign is appended")
		}
		r.Check(bad == "" && n > 0, rule, "percentage formatter", w.pos(fn.Pos()), "prints the given percentage followed by %", orStr(bad, "no AppendFloat call found"))
	}
}

// C20 — decorators print the true value.
func checkC20(w *World, r *Report) {
	r.Explain = "Table-agreement, arithmetic-safety and estimator rules: (E9b) on every path of SizeB1024/SizeB1000.Format the divisor is the greatest threshold the value is known to reach (1 if none), thresholds are strict and increasing, the printed suffix is that unit's own name and String names every unit; the two tables are siblings (same length, ratios 1024/1000); (E6a) no integer product of progress quantities in the percentage path, the percentage decorator computes Percentage(Total, Current, 100); (E6c) every float division in decor/internal has a divisor that is non-zero on every path (guard atom, non-zero unit constants, or the time.Since table entry); time conservation: every path of each EwmaUpdate carries the sample's time (zDur += dur) or adds (zDur+dur)/n under n > 0 and resets the carry - siblings agree; samples reach every estimator: collected through the recursive unwrap over both groups at bar creation, one EwmaUpdate(amount, iterDur) per collected estimator in both Ewma entry points; every embedding wrapper implements Unwrap; elapsed and average speed freeze their text after completion (and abort); h/m/s components are (d/unit)%60. Read-back accuracy of printed numbers and printf verb handling are value-level and not decided."
	r.Assume = append(r.Assume, "strconv.AppendFloat formats correctly", "durations under 60 hours (statement)", "monotonic clock: time.Since(start) > 0")
	ruleUnitTable(w, r, "C20")
	ruleNoIntegerProduct(w, r, "C20")
	rulePercentageDecor(w, r, "C20")
	ruleMonotone(w, r, "C20")
	ruleDivisorGuards(w, r, "C20")
	ruleTimeConservation(w, r, "C20")
	ruleProxyForward(w, r, "C20")
	ruleFormulas(w, r, "C20")
	ruleCounterQuantities(w, r, "C20")
	ruleSpeedText(w, r, "C20")
	ruleSamplesReach(w, r, "C20")
	ruleUnwrap(w, r, "C20")
	ruleWrappersUnwrap(w, r, "C20")
	ruleFrozen(w, r, "C20")
	ruleTimeProducers(w, r, "C20")
	ruleStatisticsFaithful(w, r, "C20")
	checkWaitGroups(w, r, "C20")
	ruleMedianReadOnly(w, r, "C20")
	ruleDefaultFormat(w, r, "C20")
	ruleNormalizerGuard(w, r, "C20")
	ruleAverageSet(w, r, "C20")
	ruleLoopVarCapture(w, r, "C20.LOOPVAR")
}

func fieldIndex(st *types.Struct, name string) int {
	for i := 0; i < st.NumFields(); i++ {
		if st.Field(i).Name() == name {
			return i
		}
	}
	return 0
}
