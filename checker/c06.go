package main

import (
	"fmt"
	"go/token"
	"sort"

	"golang.org/x/tools/go/ssa"
)

func init() { checks["C06"] = checkC06 }

// pqElemField: v is a load of field `name` of pq[idx] where idx is the given parameter.
func pqElemField(v ssa.Value, name string, idx ssa.Value) bool {
	f, ok := loadedField(v)
	if !ok || f.Owner != tBar || f.Name != name {
		return false
	}
	ld, ok := f.Base.(*ssa.UnOp)
	if !ok || ld.Op != token.MUL {
		return false
	}
	ia, ok := ld.X.(*ssa.IndexAddr)
	return ok && ia.Index == idx
}

// C06 — layout by priority.
func checkC06(w *World, r *Report) {
	r.Explain = "Orientation and bookkeeping rules (E10) on SSA: (a) parity: the heap comparison is a direct comparison of the two bars' priorities (no arithmetic that could overflow) and pops the greater priority first; the output loop is reversed and each bar's rows are collected reversed - the two equalities that put rows in non-decreasing priority with each bar's rows in natural order; consistent refactors keep parity; (b) the fix arm is guarded by index >= 0, stores the priority before heap.Fix and skips Fix only under lazy; the heap keeps Bar.index consistent (Push/Swap/Pop); (c) the default priority is the creation counter, advanced on every Add, copied into Bar.priority by the constructor; (d) a queued successor inherits the predecessor's current priority at the swap; (e) pop priority is assigned then advanced from an initial value below all defaults; (f) UpdateBarPriority/SetPriority forward (bar, priority, lazy) unchanged. Decides these structural conditions; per-frame order under racing updates is not decided."
	r.Assume = append(r.Assume, "container/heap implements a binary heap given a consistent Less/Swap/Push/Pop", "ordered iteration delivers bars in pop order (C05)")
	// (a) Less
	less := w.Func("mpb.(priorityQueue).Less")
	greaterFirst, lessOK := false, false
	if less == nil {
		r.Unresolved("anchor", "priorityQueue.Less", "not found")
	} else {
		bad := ""
		if len(less.Blocks) != 1 {
			bad = "Less is not a single comparison"
		} else {
			ret, _ := less.Blocks[0].Instrs[len(less.Blocks[0].Instrs)-1].(*ssa.Return)
			bin, ok := ret.Results[0].(*ssa.BinOp)
			i, j := ssa.Value(less.Params[1]), ssa.Value(less.Params[2])
			switch {
			case !ok:
				bad = "Less does not return a comparison"
			case pqElemField(bin.X, "priority", i) && pqElemField(bin.Y, "priority", j):
				switch bin.Op {
				case token.GTR:
					greaterFirst, lessOK = true, true
				case token.LSS:
					greaterFirst, lessOK = false, true
				default:
					bad = "Less is not a strict order"
				}
			case pqElemField(bin.X, "priority", j) && pqElemField(bin.Y, "priority", i):
				switch bin.Op {
				case token.LSS:
					greaterFirst, lessOK = true, true
				case token.GTR:
					greaterFirst, lessOK = false, true
				default:
					bad = "Less is not a strict order"
				}
			default:
				bad = "Less does not compare pq[i].priority with pq[j].priority directly (arithmetic such as a difference overflows for distant priorities and flips the order)"
			}
		}
		r.Check(bad == "" && lessOK, "C06.O-LESS", "priorityQueue.Less", w.pos(less.Pos()), "direct strict comparison of the two priorities", bad)
	}
	// output loop / per-bar rows orientation in flush
	fi := w.analyseFlush()
	if fi.Undecided != "" {
		r.Undecided("C06.O-PARITY", "flush", "", fi.Undecided)
	} else {
		var outLoop, rowLoop *loopInfo
		var ufns []*ssa.Function
		for f := range w.unit(fi.Fn) {
			ufns = append(ufns, f)
		}
		sort.Slice(ufns, func(i, j int) bool { return ufns[i].Pos() < ufns[j].Pos() })
		var allLoops []*loopInfo
		for _, f := range ufns {
			allLoops = append(allLoops, naturalLoops(f)...)
		}
		for _, l := range allLoops {
			if l.Header == fi.Header {
				continue
			}
			reads, appends, discard := false, false, false
			for b := range l.Blocks {
				for _, in := range b.Instrs {
					if c, ok := in.(*ssa.Call); ok {
						if sc := c.Call.StaticCallee(); sc != nil && sc.Name() == "ReadFrom" {
							reads = true
						}
						if isBuiltinCall(&c.Call, "append") {
							appends = true
						}
						if sc := c.Call.StaticCallee(); sc != nil && sc.String() == "io.Copy" {
							discard = true
						}
					}
				}
			}
			if reads {
				outLoop = l
			}
			if appends && discard {
				rowLoop = l
			}
		}
		if outLoop == nil || rowLoop == nil || !lessOK {
			r.Undecided("C06.O-PARITY", "flush loops", w.pos(fi.Fn.Pos()), "output loop / per-bar row loop not identified")
		} else {
			bad := ""
			// direction in which each loop walks its slice (index grows or shrinks from iteration to iteration)
			var frameRows ssa.Value
			for b := range rowLoop.Blocks {
				for _, in := range b.Instrs {
					ia, ok := in.(*ssa.IndexAddr)
					if !ok {
						continue
					}
					if isLoad(Val{V: ia.X}, tFrame, "rows") {
						frameRows = ia.X
					}
					// in a private helper: the parameter that flush passes the frame's rows to
					if par, isP := ia.X.(*ssa.Parameter); isP && par.Parent() != fi.Fn {
						h := par.Parent()
						idx := -1
						for i, q := range h.Params {
							if q == par {
								idx = i
							}
						}
						sites := w.callers[h]
						all := len(sites) > 0 && idx >= 0
						for _, site := range sites {
							if site.Parent() != fi.Fn || idx >= len(site.Common().Args) || !isLoad(Val{V: site.Common().Args[idx]}, tFrame, "rows") {
								all = false
							}
						}
						if all {
							frameRows = ia.X
						}
					}
				}
			}
			wo := w.loopIndexWalk(outLoop, fi.RowsPhi)
			wr := indexWalk{}
			if frameRows != nil {
				wr = w.loopIndexWalk(rowLoop, frameRows)
			}
			if !wo.OK || !wr.OK || fi.RowsPhi == nil {
				bad = "the row loops do not walk their slices by a unit-step index (" + orStr(wo.Why, wr.Why) + ")"
			} else {
				outReversed, rowsReversed := !wo.Ascending, !wr.Ascending
				if greaterFirst != outReversed {
					bad = fmt.Sprintf("orientation parity broken: heap pops the %s priority first but the output loop is %s - bars would appear in decreasing priority (bottom-up)", map[bool]string{true: "greater", false: "smaller"}[greaterFirst], map[bool]string{true: "reversed", false: "forward"}[outReversed])
				}
				if rowsReversed != outReversed {
					bad = orStr(bad, "a bar's own rows are collected in the opposite sense to the output loop's reversal: extended bars would be drawn upside down")
				}
				if !wr.CoversAll {
					bad = orStr(bad, "not every row of a bar's frame is collected or drained")
				}
			}
			r.Check(bad == "", "C06.O-PARITY", "heap order vs. output order", w.pos(fi.Fn.Pos()), "greater-first pops + reversed output + reversed per-bar collection", bad)
		}
	}
	// (b) fix arm
	loop, arms, _ := w.heapArms()
	fixFn := (*ssa.Function)(nil)
	for fn := range w.heapSenders() {
		if fn.Signature.Params().Len() == 3 && typeName(fn.Signature.Params().At(0).Type()) == tBar {
			fixFn = fn
		}
	}
	if loop != nil && fixFn != nil {
		fixCmd := w.heapSenders()[fixFn]
		var outer *loopInfo
		for _, l := range naturalLoops(loop) {
			if outer == nil || len(l.Blocks) > len(outer.Blocks) {
				outer = l
			}
		}
		bad := ""
		sawFix, sawLazy, sawGone := false, false, false
		n, _ := w.enumPaths(loop, pathOpts{Start: arms[fixCmd], StopAt: func(b *ssa.BasicBlock) bool { return b == outer.Header }}, func(p *Path) {
			if bad != "" {
				return
			}
			st := []fieldStore{}
			for _, ev := range p.Events {
				if f, v, ok := p.storeField(ev); ok && f.Owner == tBar && f.Name == "priority" {
					st = append(st, fieldStore{ev.Idx, ev, f, v})
				}
			}
			fixes := []int{}
			for _, ev := range p.Events {
				if c, ok := ev.In.(*ssa.Call); ok && isHeapCall(c, "Fix") {
					fixes = append(fixes, ev.Idx)
					if !isLoad(Val{V: c.Call.Args[1]}, tBar, "index") {
						bad = "heap.Fix is not called with the bar's heap index"
					}
				}
			}
			neg := p.hasCmp(-1, token.LSS, loadOf(tBar, "index"), isConstInt(0))
			nonneg := p.hasCmp(-1, token.GEQ, loadOf(tBar, "index"), isConstInt(0))
			lazy := p.hasBool(-1, true, loadOf("mpb.fixData", "lazy"))
			notLazy := p.hasBool(-1, false, loadOf("mpb.fixData", "lazy"))
			switch {
			case neg:
				sawGone = true
				if len(st)+len(fixes) != 0 {
					bad = "a bar that is not in the heap (index < 0) is modified / fixed: heap.Fix(-1) panics"
				}
			case !nonneg:
				bad = "the fix arm does not test the bar's heap index"
			default:
				if len(st) != 1 || !isLoad(Val{V: stripConv(st[0].Val.V)}, "mpb.fixData", "priority") {
					bad = "the new priority is not stored into the bar"
					return
				}
				switch {
				case lazy:
					sawLazy = true
					if len(fixes) != 0 {
						bad = "a lazy priority change re-heapifies at once"
					}
				case notLazy:
					sawFix = true
					if len(fixes) != 1 || fixes[0] < st[0].Idx {
						bad = "an immediate priority change does not call heap.Fix after storing the priority: it would only take effect after an unspecified number of frames"
					}
				default:
					bad = "the fix arm does not test the lazy flag"
				}
			}
		})
		r.Check(bad == "" && n > 0 && sawFix && sawLazy && sawGone, "C06.O-FIX", "heap loop fix arm", w.instrPos(arms[fixCmd].Instrs[0]), "index >= 0 guard; priority stored, then Fix unless lazy", orStr(bad, "branch missing"))
		// constructor of the request forwards (bar, priority, lazy)
		okFwd := false
		for _, b := range fixFn.Blocks {
			for _, in := range b.Instrs {
				if st, ok := in.(*ssa.Store); ok {
					if f, ok := fieldOf(st.Addr); ok && f.Owner == "mpb.fixData" {
						switch f.Name {
						case "bar":
							okFwd = st.Val == ssa.Value(fixFn.Params[1])
						}
					}
				}
			}
		}
		nF := 0
		for _, b := range fixFn.Blocks {
			for _, in := range b.Instrs {
				if st, ok := in.(*ssa.Store); ok {
					if f, ok := fieldOf(st.Addr); ok && f.Owner == "mpb.fixData" {
						want := map[string]int{"bar": 1, "priority": 2, "lazy": 3}[f.Name]
						if want > 0 && st.Val == ssa.Value(fixFn.Params[want]) {
							nF++
						}
					}
				}
			}
		}
		r.Check(okFwd && nF == 3, "C06.O-FIX", "fix request constructor", w.pos(fixFn.Pos()), "payload = (bar, priority, lazy)", "the fix request does not carry (bar, priority, lazy) unchanged")
		// API forwarding
		if clo, off := w.apiClosure(r, "mpb.(*Progress).UpdateBarPriority"); clo != nil {
			meth := off.Fn
			ok := false
			for _, b := range clo.Blocks {
				for _, in := range b.Instrs {
					if c, okc := in.(*ssa.Call); okc && c.Call.StaticCallee() == fixFn && len(c.Call.Args) == 4 {
						ok = w.isParamOf(c.Call.Args[1], meth, 1) && w.isParamOf(c.Call.Args[2], meth, 2) && w.isParamOf(c.Call.Args[3], meth, 3)
					}
				}
			}
			r.Check(ok, "C06.O-API", "API:Progress.UpdateBarPriority", w.pos(meth.Pos()), "forwards (bar, priority, lazy)", "UpdateBarPriority does not forward its arguments unchanged to the heap manager")
		}
		if sp := w.Func("mpb.(*Bar).SetPriority"); sp != nil {
			ok := false
			upd := w.Func("mpb.(*Progress).UpdateBarPriority")
			for _, b := range sp.Blocks {
				for _, in := range b.Instrs {
					if c, okc := in.(*ssa.Call); okc && c.Call.StaticCallee() == upd && len(c.Call.Args) == 4 {
						lazy, isC := constBool(c.Call.Args[3])
						ok = c.Call.Args[1] == ssa.Value(sp.Params[0]) && c.Call.Args[2] == ssa.Value(sp.Params[1]) && isC && !lazy
					}
				}
			}
			r.Check(ok, "C06.O-API", "API:Bar.SetPriority", w.pos(sp.Pos()), "immediate flavour of UpdateBarPriority on this bar", "SetPriority is not UpdateBarPriority(b, priority, false)")
		}
	} else {
		r.Unresolved("anchor", "heap loop / fix request", "not found")
	}
	// index bookkeeping
	ruleHeapIndex(w, r, "C06")
	ruleOptionTable(w, r, "C06", map[string][3]string{"BarPriority": {tBState, "priority", "param"}, "BarID": {tBState, "id", "param"}})
	// (c) default priority
	if mk := w.makeBarStateFn(); mk != nil {
		okP, okI := false, false
		for _, b := range mk.Blocks {
			for _, in := range b.Instrs {
				if st, ok := in.(*ssa.Store); ok {
					if f, ok := fieldOf(st.Addr); ok && f.Owner == tBState {
						if src, ok := loadedField(stripConv(st.Val)); ok && src.Owner == tPState && src.Name == "idCount" {
							if f.Name == "priority" {
								okP = true
							}
							if f.Name == "id" {
								okI = true
							}
						}
					}
				}
			}
		}
		r.Check(okP && okI, "C06.O-DEFAULT", "bar state constructor", w.pos(mk.Pos()), "id and default priority = creation counter", "the default priority (and id) is not the container's creation counter: bars would not be laid out in creation order")
	}
	if ctor := w.barConstructor(); ctor != nil {
		ok := false
		for _, b := range ctor.Blocks {
			for _, in := range b.Instrs {
				if st, isSt := in.(*ssa.Store); isSt {
					if f, isF := fieldOf(st.Addr); isF && f.Owner == tBar && f.Name == "priority" && isLoad(Val{V: stripConv(st.Val)}, tBState, "priority") {
						ok = true
					}
				}
			}
		}
		r.Check(ok, "C06.O-DEFAULT", "bar constructor", w.pos(ctor.Pos()), "Bar.priority <- bState.priority", "the bar does not take the priority chosen at construction (BarPriority option / default)")
	}
	ruleAddPushesOrParks(w, r, "C06")
	// (d)(e)
	ruleSuccessorSwap(w, r, "C06", fi)
	rulePopMode(w, r, "C06", fi)
	rulePopPriorityInit(w, r, "C06")
	ruleHeapIteration(w, r, "C06")
	checkHeapSendDiscipline(w, r, "C06.R4")
	checkNoRequestWhileIterating(w, r, "C06")
}

// ruleHeapIndex: Push sets index = len, Swap keeps both indices, Pop marks -1 and returns the last element.
func ruleHeapIndex(w *World, r *Report, pfx string) {
	rule := pfx + ".O-INDEX"
	if sw := w.Func("mpb.(priorityQueue).Swap"); sw != nil {
		i, j := ssa.Value(sw.Params[1]), ssa.Value(sw.Params[2])
		// symbolic execution of every path (private helpers inlined) over the two slots: slot -> which original element it holds
		const (
			origI = 1
			origJ = 2
		)
		type vkey struct {
			v ssa.Value
			f *Frame
		}
		ok := true
		nP, over := w.enumPaths(sw, pathOpts{InlineDepth: 2, Inline: w.helperInline(sw)}, func(p *Path) {
			if p.Exit != "return" {
				ok = false
				return
			}
			slot := map[ssa.Value]int{i: origI, j: origJ} // current content of pq[i], pq[j]
			loaded := map[vkey]int{}                      // loaded *Bar value -> original element
			index := map[int]ssa.Value{}                  // original element -> last index stored into it
			okShape := true
			which := func(ev Event, idx ssa.Value) (ssa.Value, bool) {
				r := p.stripR(p.val(ev, idx)).V
				return r, r == i || r == j
			}
			for _, ev := range p.Events {
				switch x := ev.In.(type) {
				case *ssa.UnOp:
					if x.Op == token.MUL {
						if ia, isIA := x.X.(*ssa.IndexAddr); isIA {
							if k, isK := which(ev, ia.Index); isK {
								loaded[vkey{x, ev.F}] = slot[k]
							}
						}
					}
				case *ssa.Store:
					if ia, isIA := x.Addr.(*ssa.IndexAddr); isIA {
						if k, isK := which(ev, ia.Index); isK {
							sv := p.R(p.val(ev, x.Val))
							if e, found := loaded[vkey{sv.V, sv.F}]; found {
								slot[k] = e
							} else {
								okShape = false
							}
							continue
						}
					}
					if f, isF := fieldOf(x.Addr); isF && f.Owner == tBar && f.Name == "index" {
						bv := p.R(p.val(ev, f.Base))
						if e, found := loaded[vkey{bv.V, bv.F}]; found {
							index[e] = p.stripR(p.val(ev, x.Val)).V
						} else {
							okShape = false
						}
					}
				}
			}
			// afterwards: pq[i] holds the original j with index i, pq[j] the original i with index j
			if !(okShape && slot[i] == origJ && slot[j] == origI && index[origJ] == i && index[origI] == j) {
				ok = false
			}
		})
		r.Check(ok && nP > 0 && !over, rule, "priorityQueue.Swap", w.pos(sw.Pos()), "elements exchanged, both heap indices updated", "Swap does not exchange the two bars and record their new indices: heap.Fix / UpdateBarPriority would act on the wrong element")
	}
	if pu := w.Func("mpb.(*priorityQueue).Push"); pu != nil {
		ok := false
		for _, b := range pu.Blocks {
			for _, in := range b.Instrs {
				if st, isSt := in.(*ssa.Store); isSt {
					if f, isF := fieldOf(st.Addr); isF && f.Owner == tBar && f.Name == "index" {
						if c, isC := st.Val.(*ssa.Call); isC && isBuiltinCall(&c.Call, "len") {
							ok = true
						}
					}
				}
			}
		}
		r.Check(ok, rule, "priorityQueue.Push", w.pos(pu.Pos()), "index = previous length", "Push does not record the new element's index")
	}
	if po := w.Func("mpb.(*priorityQueue).Pop"); po != nil {
		ok := false
		for _, b := range po.Blocks {
			for _, in := range b.Instrs {
				if st, isSt := in.(*ssa.Store); isSt {
					if f, isF := fieldOf(st.Addr); isF && f.Owner == tBar && f.Name == "index" {
						if k, isK := constInt(st.Val); isK && k < 0 {
							ok = true
						}
					}
				}
			}
		}
		r.Check(ok, rule, "priorityQueue.Pop", w.pos(po.Pos()), "popped bar marked index < 0", "Pop does not mark the popped bar as outside the heap: a priority update while the bar is handed out would corrupt the heap")
	}
	r.Floor(rule, 3, "Swap, Push, Pop")
}

// ruleHeapOrder: the comparison rule alone (direct strict comparison), for properties that depend on heap order.
func ruleHeapOrder(w *World, r *Report, pfx string) {
	less := w.Func("mpb.(priorityQueue).Less")
	if less == nil || len(less.Blocks) != 1 {
		r.Unresolved("anchor", "priorityQueue.Less", "not found")
		return
	}
	ret, _ := less.Blocks[0].Instrs[len(less.Blocks[0].Instrs)-1].(*ssa.Return)
	bin, ok := ret.Results[0].(*ssa.BinOp)
	i, j := ssa.Value(less.Params[1]), ssa.Value(less.Params[2])
	good := ok && (bin.Op == token.GTR || bin.Op == token.LSS) &&
		((pqElemField(bin.X, "priority", i) && pqElemField(bin.Y, "priority", j)) || (pqElemField(bin.X, "priority", j) && pqElemField(bin.Y, "priority", i)))
	r.Check(good, pfx+".O-LESS", "priorityQueue.Less", w.pos(less.Pos()), "direct strict comparison of the two priorities", "Less does not compare pq[i].priority with pq[j].priority directly (arithmetic such as a difference overflows for distant priorities, e.g. the pop priority against a bar pinned with MaxInt, and flips the order)")
}

// ruleFixArm: the heap loop's fix arm never calls heap.Fix for a bar that is not in the heap.
func ruleFixArm(w *World, r *Report, pfx string) {
	loop, arms, outer, _, _ := w.heapLoopState()
	if loop == nil || outer == nil {
		return
	}
	bad := ""
	n := 0
	for k, ab := range arms {
		hasFix := false
		for _, b := range loop.Blocks {
			if !armContains(loop, arms, k, ab, b) {
				continue
			}
			for _, in := range b.Instrs {
				if c, ok := in.(*ssa.Call); ok && isHeapCall(c, "Fix") {
					hasFix = true
				}
			}
		}
		if !hasFix {
			continue
		}
		w.enumPaths(loop, pathOpts{Start: ab, StopAt: func(b *ssa.BasicBlock) bool { return b == outer.Header }}, func(p *Path) {
			for _, ev := range p.Events {
				if c, ok := ev.In.(*ssa.Call); ok && isHeapCall(c, "Fix") {
					n++
					if !p.hasCmp(ev.Idx, token.GEQ, loadOf(tBar, "index"), isConstInt(0)) {
						bad = "heap.Fix is reached on a path without the atom index >= 0: for a bar that left the heap this panics the heap loop (index out of range)"
					}
					if !isLoad(Val{V: c.Call.Args[1]}, tBar, "index") {
						bad = "heap.Fix is not called with the bar's recorded heap index"
					}
				}
			}
		})
	}
	r.Check(bad == "" && n > 0, pfx+".O-FIXGUARD", "heap loop fix arm", w.pos(loop.Pos()), "Fix only for bars in the heap (index >= 0)", orStr(bad, "no Fix call found"))
}
