package main

import (
	"fmt"
	"os"
	"sort"
	"strings"

	"golang.org/x/tools/go/ssa"
)

func dump(w *World, args []string) {
	what := "comm"
	if len(args) > 0 {
		what = args[0]
	}
	switch what {
	case "comm":
		t := w.Comm()
		for _, op := range t.Ops {
			switch op.Kind {
			case "select":
				var ss []string
				for _, s := range op.States {
					d := "recv"
					if s.Dir == 1 { // types.SendOnly
						d = "send"
					}
					ss = append(ss, d+" "+s.Class.String())
				}
				fmt.Printf("%-18s %-8s blocking=%v [%s]  in %s\n", w.instrPos(op.Instr), op.Kind, op.Blocking, strings.Join(ss, " ; "), fnShort(op.Fn))
			case "go":
				var ts []string
				for _, f := range op.GoTarget {
					ts = append(ts, fnShort(f))
				}
				fmt.Printf("%-18s %-8s -> %s  in %s\n", w.instrPos(op.Instr), op.Kind, strings.Join(ts, ","), fnShort(op.Fn))
			default:
				fmt.Printf("%-18s %-8s %s commaok=%v deferred=%v in %s\n", w.instrPos(op.Instr), op.Kind, op.Class, op.CommaOk, op.Deferred, fnShort(op.Fn))
			}
		}
		inv := t.inventory()
		var ks []string
		for k := range inv {
			ks = append(ks, k)
		}
		sort.Strings(ks)
		for _, k := range ks {
			fmt.Printf("# %s: %d\n", k, inv[k])
		}
	case "roles":
		ri := w.Roles()
		for _, role := range ri.Order {
			fmt.Printf("role %s: %d functions\n", role, len(ri.Reach[role]))
		}
		if len(args) > 1 {
			for _, fn := range w.ModFns {
				if strings.Contains(fn.String(), args[1]) {
					fmt.Printf("%s: %v\n", fnShort(fn), ri.RolesOf(fn))
				}
			}
		}
	case "fns":
		for _, fn := range w.ModFns {
			fmt.Println(fnShort(fn), w.pos(fn.Pos()))
		}
	case "ssa":
		for _, fn := range w.ModFns {
			if len(args) > 1 && strings.Contains(fn.String(), args[1]) {
				fn.WriteTo(os.Stdout)
			}
		}
	case "callees":
		for _, fn := range w.ModFns {
			if len(args) > 1 && !strings.Contains(fn.String(), args[1]) {
				continue
			}
			for _, b := range fn.Blocks {
				for _, in := range b.Instrs {
					if site, ok := in.(ssa.CallInstruction); ok {
						var cs []string
						for _, c := range w.Callees(site) {
							cs = append(cs, fnShort(c))
						}
						fmt.Printf("%s %s: %s -> %v\n", fnShort(fn), w.instrPos(in), site.Common().String(), cs)
					}
				}
			}
		}
	}
}
