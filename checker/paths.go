package main

import (
	"go/constant"
	"fmt"
	"go/token"
	"go/types"
	"strings"

	"golang.org/x/tools/go/ssa"
)

// E3 — guarded effects: path-sensitive enumeration of a function's acyclic unrolling
// (every CFG edge at most once per activation, every block at most twice), with
// bounded inlining of resolved static callees. Per path: ordered events (instructions)
// and the branch atoms taken. No solver: queries are containment of normalised atoms.

type Frame struct {
	Fn      *ssa.Function
	Parent  *Frame
	Site    ssa.CallInstruction
	Args    []Val // parameter bindings (resolved in the caller), receiver first
	Clo     *ssa.MakeClosure
	CloF    *Frame
	depth   int
	edges   map[[2]int]int
	visits  map[int]int
	calleeF *ssa.Function
}

// env is a persistent association list: phi choices and inlined-call results on the path so far.
type env struct {
	key  interface{}
	val  interface{}
	next *env
}

func (e *env) lookup(k interface{}) (interface{}, bool) {
	for ; e != nil; e = e.next {
		if e.key == k {
			return e.val, true
		}
	}
	return nil, false
}

type phiKey struct {
	f   *Frame
	phi *ssa.Phi
}
type callKey struct {
	f    *Frame
	call ssa.Value
}

type Val struct {
	V ssa.Value
	F *Frame
	E *env
}

type Atom struct {
	Cond Val
	Pol  bool
	If   *ssa.If
}

type Event struct {
	In  ssa.Instruction
	F   *Frame
	E   *env
	Idx int // position on the path
}

type Path struct {
	Events []Event
	Atoms  []Atom
	Exit   string // "return", "panic", "stop"
	Ret    []Val
	Blocks []*ssa.BasicBlock // root-frame blocks in order
	EndEnv *env
	eng    *pathEngine
}

type pathOpts struct {
	MaxPaths    int
	InlineDepth int
	Inline      func(site ssa.CallInstruction, callee *ssa.Function) bool // nil: inline module callees
	Start       *ssa.BasicBlock
	StopAt      func(b *ssa.BasicBlock) bool // in the root frame: end the path before entering b
	// AssumeEdge: optional pruning of infeasible edges (from -> to) in the root frame
	SkipEdge func(from, to *ssa.BasicBlock) bool
	// Unroll: extra traversals allowed per edge (and visits per block) in the root frame, for
	// rules about loop-carried variables (default 0: every edge once, every block twice)
	Unroll int
	// EmitCut: also report the prefixes that end where the unrolling bound is reached (Exit "cut")
	EmitCut bool
}

type pathEngine struct {
	w         *World
	opts      pathOpts
	events    []Event
	atoms     []Atom
	blocks    []*ssa.BasicBlock
	count     int
	over      bool
	visit     func(p *Path)
	root      *Frame
	atomSet   map[*ssa.If]bool
	foldArith bool
}

var errTooManyPaths = fmt.Errorf("path cap exceeded")

// enumPaths enumerates the paths of fn and calls visit for each complete one.
// Returns the number of paths and whether the cap was hit (in which case the
// caller must report UNDECIDED).
func (w *World) enumPaths(fn *ssa.Function, opts pathOpts, visit func(p *Path)) (int, bool) {
	if opts.MaxPaths == 0 {
		opts.MaxPaths = 20000
	}
	e := &pathEngine{w: w, opts: opts, visit: visit}
	root := &Frame{Fn: fn, edges: map[[2]int]int{}, visits: map[int]int{}}
	e.root = root
	start := fn.Blocks[0]
	if opts.Start != nil {
		start = opts.Start
	}
	e.walkBlock(root, nil, start, nil, func(en *env, ret []Val) {
		e.emit("return", ret, en)
	})
	w.statPaths += e.count
	w.statPathFns++
	return e.count, e.over
}

func (e *pathEngine) emit(exit string, ret []Val, en *env) {
	if e.over {
		return
	}
	e.count++
	if e.count > e.opts.MaxPaths {
		e.over = true
		return
	}
	p := &Path{Exit: exit, Ret: ret, eng: e, EndEnv: en}
	p.Events = append([]Event(nil), e.events...)
	p.Atoms = append([]Atom(nil), e.atoms...)
	p.Blocks = append([]*ssa.BasicBlock(nil), e.blocks...)
	e.visit(p)
}

func (e *pathEngine) shouldInline(fr *Frame, site ssa.CallInstruction) *ssa.Function {
	c := site.Common()
	callee := c.StaticCallee()
	if callee == nil || callee.Blocks == nil {
		return nil
	}
	if fr.depth >= e.opts.InlineDepth {
		return nil
	}
	if !e.w.modSet[callee] {
		return nil
	}
	for f := fr; f != nil; f = f.Parent {
		if f.Fn == callee {
			return nil // recursion
		}
	}
	if e.opts.Inline != nil && !e.opts.Inline(site, callee) {
		return nil
	}
	return callee
}

// walkBlock continues the DFS at block b (entered from pred) of frame fr.
// k is invoked when the frame returns.
func (e *pathEngine) walkBlock(fr *Frame, pred, b *ssa.BasicBlock, en *env, k func(en *env, ret []Val)) {
	if e.over {
		return
	}
	if fr == e.root && pred != nil && e.opts.StopAt != nil && e.opts.StopAt(b) {
		e.emit("stop", nil, en)
		return
	}
	if pred != nil {
		ek := [2]int{pred.Index, b.Index}
		el, bl := 1, 2
		if fr == e.root && e.opts.Unroll > 0 {
			el, bl = 1+e.opts.Unroll, 2+e.opts.Unroll
		}
		if fr.edges[ek] >= el || fr.visits[b.Index] >= bl {
			if fr == e.root && e.opts.EmitCut {
				e.emit("cut", nil, en)
			}
			return
		}
		if fr == e.root && e.opts.SkipEdge != nil && e.opts.SkipEdge(pred, b) {
			return
		}
		fr.edges[ek]++
		defer func() { fr.edges[ek]-- }()
	}
	fr.visits[b.Index]++
	defer func() { fr.visits[b.Index]-- }()
	if fr == e.root {
		e.blocks = append(e.blocks, b)
		defer func() { e.blocks = e.blocks[:len(e.blocks)-1] }()
	}
	// phi choices
	if pred != nil {
		pi := -1
		for i, p := range b.Preds {
			if p == pred {
				pi = i
			}
		}
		// resolve the chosen edges eagerly, all in the *old* env (parallel assignment semantics)
		old := en
		for _, in := range b.Instrs {
			phi, ok := in.(*ssa.Phi)
			if !ok {
				break
			}
			if pi >= 0 {
				chosen := e.resolve(Val{phi.Edges[pi], fr, old})
				en = &env{phiKey{fr, phi}, chosen, en}
			}
		}
	}
	e.walkInstrs(fr, b, 0, en, k)
}

func (e *pathEngine) walkInstrs(fr *Frame, b *ssa.BasicBlock, idx int, en *env, k func(en *env, ret []Val)) {
	nEv := len(e.events)
	defer func() { e.events = e.events[:nEv] }()
	for i := idx; i < len(b.Instrs); i++ {
		in := b.Instrs[i]
		switch x := in.(type) {
		case *ssa.DebugRef:
			continue
		case *ssa.Phi:
			continue
		case *ssa.Call:
			if callee := e.shouldInline(fr, x); callee != nil {
				e.events = append(e.events, Event{In: in, F: fr, E: en, Idx: len(e.events)})
				nf := e.newFrame(fr, x, callee, en)
				bi, ii := b, i
				e.walkBlock(nf, nil, callee.Blocks[0], en, func(en2 *env, ret []Val) {
					en3 := &env{callKey{fr, x}, ret, en2}
					e.walkInstrs(fr, bi, ii+1, en3, k)
				})
				return
			}
			e.events = append(e.events, Event{In: in, F: fr, E: en, Idx: len(e.events)})
		case *ssa.If:
			e.events = append(e.events, Event{In: in, F: fr, E: en, Idx: len(e.events)})
			for si, succ := range b.Succs {
				pol := si == 0
				// prune constant conditions
				if cv, ok := e.evalCond(Val{x.Cond, fr, en}); ok && cv != pol {
					continue
				}
				// a counting loop whose first test folds (index phi(-1)+1 < 3): the exit taken before the
				// body ever ran is infeasible. Only that: forcing later iterations would need more
				// unrolling than the engine does.
				if len(b.Succs) == 2 {
					other := b.Succs[1-si]
					if fr.visits[other.Index] == 0 && fr.visits[succ.Index] == 0 {
						e.foldArith = true
						cv, ok := e.evalCond(Val{x.Cond, fr, en})
						e.foldArith = false
						if ok && cv != pol && e.leavesLoopOf(b, succ, other) {
							continue
						}
					}
				}
				// prune a branch that contradicts an atom already taken on this path for the same value instance
				en2 := en
				if key, truth, ok := e.atomKey(Val{x.Cond, fr, en}, pol); ok {
					if prev, found := en.lookup(key); found {
						if prev.(bool) != truth {
							continue
						}
					} else {
						en2 = &env{key, truth, en}
					}
				}
				e.atoms = append(e.atoms, Atom{Cond: Val{x.Cond, fr, en}, Pol: pol, If: x})
				e.walkBlock(fr, b, succ, en2, k)
				e.atoms = e.atoms[:len(e.atoms)-1]
			}
			return
		case *ssa.Jump:
			e.walkBlock(fr, b, b.Succs[0], en, k)
			return
		case *ssa.Return:
			e.events = append(e.events, Event{In: in, F: fr, E: en, Idx: len(e.events)})
			var ret []Val
			for _, r := range x.Results {
				ret = append(ret, e.resolve(Val{r, fr, en}))
			}
			k(en, ret)
			return
		case *ssa.Panic:
			if isSelectFallthroughPanic(x) {
				return // "blocking select matched no case": infeasible
			}
			e.events = append(e.events, Event{In: in, F: fr, E: en, Idx: len(e.events)})
			e.emit("panic", nil, en)
			return
		default:
			e.events = append(e.events, Event{In: in, F: fr, E: en, Idx: len(e.events)})
		}
	}
}

func (e *pathEngine) newFrame(parent *Frame, site ssa.CallInstruction, callee *ssa.Function, en *env) *Frame {
	nf := &Frame{Fn: callee, Parent: parent, Site: site, depth: parent.depth + 1, edges: map[[2]int]int{}, visits: map[int]int{}}
	c := site.Common()
	for _, a := range c.Args {
		nf.Args = append(nf.Args, e.resolve(Val{a, parent, en}))
	}
	if mc, ok := c.Value.(*ssa.MakeClosure); ok {
		nf.Clo = mc
		nf.CloF = parent
	} else if rv := e.resolve(Val{c.Value, parent, en}); rv.V != nil {
		if mc, ok := rv.V.(*ssa.MakeClosure); ok {
			nf.Clo = mc
			nf.CloF = rv.F
		}
	}
	return nf
}

// resolve follows phi choices, parameter and free-variable bindings and inlined call
// results as far as the path determines them.
func (e *pathEngine) resolve(v Val) Val {
	for i := 0; i < 64; i++ {
		switch x := v.V.(type) {
		case *ssa.Phi:
			if c, ok := v.E.lookup(phiKey{v.F, x}); ok {
				v = c.(Val)
				continue
			}
			return v
		case *ssa.Parameter:
			if v.F != nil && v.F.Parent != nil {
				idx := -1
				for j, p := range v.F.Fn.Params {
					if p == x {
						idx = j
					}
				}
				if idx >= 0 && idx < len(v.F.Args) {
					v = v.F.Args[idx]
					continue
				}
			}
			return v
		case *ssa.FreeVar:
			if v.F != nil && v.F.Clo != nil {
				idx := -1
				for j, p := range v.F.Fn.FreeVars {
					if p == x {
						idx = j
					}
				}
				if idx >= 0 && idx < len(v.F.Clo.Bindings) {
					v = Val{v.F.Clo.Bindings[idx], v.F.CloF, v.E}
					continue
				}
			}
			return v
		case *ssa.Call:
			if r, ok := v.E.lookup(callKey{v.F, x}); ok {
				rs := r.([]Val)
				if len(rs) == 1 {
					v = rs[0]
					continue
				}
			}
			return v
		case *ssa.Field:
			// field of a struct value built in a local, non-escaping variable (a small helper type
			// carrying a few values: `span := begin(bar)` ... `span.end(n)`)
			if fv, ok := e.structField(Val{x.X, v.F, v.E}, x.Field, 0); ok {
				v = fv
				continue
			}
			return v
		case *ssa.UnOp:
			if x.Op == token.MUL {
				if fa, ok := x.X.(*ssa.FieldAddr); ok {
					base := e.resolve(Val{fa.X, v.F, v.E})
					if al, ok := base.V.(*ssa.Alloc); ok {
						if fv, ok := e.allocField(Val{al, base.F, base.E}, al, fa.Field, 0); ok {
							v = fv
							continue
						}
					}
				}
			}
			return v
		case *ssa.Extract:
			if call, ok := x.Tuple.(*ssa.Call); ok {
				if r, ok := v.E.lookup(callKey{v.F, call}); ok {
					rs := r.([]Val)
					if x.Index < len(rs) {
						v = rs[x.Index]
						continue
					}
				}
			}
			return v
		default:
			return v
		}
	}
	return v
}

// Path helpers -----------------------------------------------------------

func (p *Path) R(v Val) Val { return p.eng.resolve(v) }

// operand returns operand value of an event's instruction, resolved.
func (p *Path) val(ev Event, v ssa.Value) Val { return p.eng.resolve(Val{v, ev.F, ev.E}) }

// cmpAtom normalises a branch atom to (op, x, y): for a plain boolean condition op is
// token.ILLEGAL and x is the value (polarity in pol).
type cmp struct {
	Op   token.Token // EQL NEQ LSS LEQ GTR GEQ, or ILLEGAL for a boolean value
	X, Y Val
	Pol  bool // for boolean values: the value is true (Pol) or false
}

func negOp(op token.Token) token.Token {
	switch op {
	case token.EQL:
		return token.NEQ
	case token.NEQ:
		return token.EQL
	case token.LSS:
		return token.GEQ
	case token.GEQ:
		return token.LSS
	case token.GTR:
		return token.LEQ
	case token.LEQ:
		return token.GTR
	}
	return op
}

func swapOp(op token.Token) token.Token {
	switch op {
	case token.LSS:
		return token.GTR
	case token.GTR:
		return token.LSS
	case token.LEQ:
		return token.GEQ
	case token.GEQ:
		return token.LEQ
	}
	return op
}

func (p *Path) cmpOf(a Atom) cmp {
	v := p.R(a.Cond)
	pol := a.Pol
	for {
		if u, ok := v.V.(*ssa.UnOp); ok && u.Op == token.NOT {
			v = p.R(Val{u.X, v.F, v.E})
			pol = !pol
			continue
		}
		break
	}
	if b, ok := v.V.(*ssa.BinOp); ok {
		switch b.Op {
		case token.EQL, token.NEQ, token.LSS, token.LEQ, token.GTR, token.GEQ:
			op := b.Op
			if !pol {
				op = negOp(op)
			}
			x, y := p.R(Val{b.X, v.F, v.E}), p.R(Val{b.Y, v.F, v.E})
			// integer comparisons against +-1 are brought to their form against 0
			// (x >= 1 is x > 0, x < 1 is x <= 0, x > -1 is x >= 0, x <= -1 is x < 0)
			if k, ok := constInt(y.V); ok && isIntegerType(y.V.Type()) {
				var nop token.Token
				switch {
				case k == 1 && op == token.GEQ:
					nop = token.GTR
				case k == 1 && op == token.LSS:
					nop = token.LEQ
				case k == -1 && op == token.GTR:
					nop = token.GEQ
				case k == -1 && op == token.LEQ:
					nop = token.LSS
				}
				if nop != token.ILLEGAL {
					op = nop
					y = Val{ssa.NewConst(constant.MakeInt64(0), y.V.Type()), y.F, y.E}
				}
			}
			return cmp{Op: op, X: x, Y: y, Pol: true}
		}
	}
	return cmp{Op: token.ILLEGAL, X: v, Pol: pol}
}

// hasCmp: does the path carry an atom `X op Y` (or the equivalent swapped form) with
// X matching mx and Y matching my?
func (p *Path) hasCmp(upto int, op token.Token, mx, my func(Val) bool) bool {
	for _, a := range p.Atoms {
		if upto >= 0 && p.atomIdx(a) >= upto {
			continue
		}
		c := p.cmpOf(a)
		if c.Op == token.ILLEGAL {
			continue
		}
		if c.Op == op && mx(c.X) && my(c.Y) {
			return true
		}
		if swapOp(c.Op) == op && c.Op != op && mx(c.Y) && my(c.X) {
			return true
		}
		if (op == token.EQL || op == token.NEQ) && c.Op == op && mx(c.Y) && my(c.X) {
			return true
		}
	}
	return false
}

// hasBool: does the path carry the atom "value matching m is pol" before event index upto (-1: anywhere)?
func (p *Path) hasBool(upto int, pol bool, m func(Val) bool) bool {
	for _, a := range p.Atoms {
		if upto >= 0 && p.atomIdx(a) >= upto {
			continue
		}
		c := p.cmpOf(a)
		if c.Op == token.ILLEGAL && c.Pol == pol && m(c.X) {
			return true
		}
		// x == true / x != false forms
		if c.Op == token.EQL || c.Op == token.NEQ {
			if bv, ok := constBool(c.Y.V); ok && m(c.X) {
				truth := bv
				if c.Op == token.NEQ {
					truth = !bv
				}
				if truth == pol {
					return true
				}
			}
		}
	}
	return false
}

// atomIdx: event index of the If that produced the atom (so "atoms known before event i").
func (p *Path) atomIdx(a Atom) int {
	for _, ev := range p.Events {
		if ev.In == a.If && ev.F == a.Cond.F && ev.E == a.Cond.E {
			return ev.Idx
		}
	}
	// fall back: first event of that If in that frame
	for _, ev := range p.Events {
		if ev.In == a.If && ev.F == a.Cond.F {
			return ev.Idx
		}
	}
	return -1
}

// field matchers on resolved values ------------------------------------------

// isLoad: v is a load of field owner.name (pointer deref of FieldAddr, or Field of a struct value).
func isLoad(v Val, owner, name string) bool {
	f, ok := loadedField(v.V)
	return ok && f.Owner == owner && f.Name == name
}

func loadOf(owner, name string) func(Val) bool {
	return func(v Val) bool { return isLoad(Val{stripConv(v.V), v.F, v.E}, owner, name) }
}

func isConstInt(n int64) func(Val) bool {
	return func(v Val) bool {
		c, ok := constInt(stripConv(v.V))
		return ok && c == n
	}
}

func anyVal(Val) bool { return true }

func isNilVal(v Val) bool { return isNilConst(v.V) }

// callTo: v is the result of a call whose (static or resolved) callee is fn.
func (p *Path) callTo(fn *ssa.Function) func(Val) bool {
	return func(v Val) bool {
		c, ok := v.V.(*ssa.Call)
		if !ok {
			return false
		}
		if sc := c.Call.StaticCallee(); sc != nil {
			return sc == fn
		}
		return false
	}
}

// store helpers
func (p *Path) storeField(ev Event) (fieldRef, Val, bool) {
	st, ok := ev.In.(*ssa.Store)
	if !ok {
		return fieldRef{}, Val{}, false
	}
	f, ok := fieldOf(st.Addr)
	if !ok {
		// a store through a pointer the path resolves to a field address (`*z += d` in a helper
		// called with &x.f)
		if a := p.val(ev, st.Addr); a.V != st.Addr {
			f, ok = fieldOf(a.V)
		}
		if !ok {
			return fieldRef{}, Val{}, false
		}
	}
	return f, p.val(ev, st.Val), true
}

// loadsField: v is a load of owner.name, directly or through a pointer that the path resolves
// to that field's address; conversions around the load are ignored.
func (p *Path) loadsField(v Val, owner, name string) bool {
	for i := 0; i < 4; i++ {
		sv := stripConv(v.V)
		if sv == v.V {
			break
		}
		v = p.R(Val{sv, v.F, v.E})
	}
	if isLoad(v, owner, name) {
		return true
	}
	u, ok := v.V.(*ssa.UnOp)
	if !ok || u.Op != token.MUL {
		return false
	}
	a := p.R(Val{u.X, v.F, v.E})
	f, ok := fieldOf(a.V)
	return ok && f.Owner == owner && f.Name == name
}

// stripR: resolve, strip value-preserving conversions, resolve again.
func (p *Path) stripR(v Val) Val {
	v = p.R(v)
	for i := 0; i < 4; i++ {
		sv := stripConv(v.V)
		if sv == v.V {
			break
		}
		v = p.R(Val{sv, v.F, v.E})
	}
	return v
}

func (p *Path) describe() []string {
	var out []string
	w := p.eng.w
	for _, a := range p.Atoms {
		c := p.cmpOf(a)
		if c.Op == token.ILLEGAL {
			out = append(out, fmt.Sprintf("atom %v: %s @%s", c.Pol, describeVal(c.X), w.instrPos(a.If)))
		} else {
			out = append(out, fmt.Sprintf("atom %s %s %s @%s", describeVal(c.X), c.Op, describeVal(c.Y), w.instrPos(a.If)))
		}
	}
	return out
}

func describeVal(v Val) string {
	x := stripConv(v.V)
	if f, ok := loadedField(x); ok {
		return f.String()
	}
	if c, ok := x.(*ssa.Const); ok {
		return c.String()
	}
	if c, ok := x.(*ssa.Call); ok {
		if sc := c.Call.StaticCallee(); sc != nil {
			return fnShort(sc) + "()"
		}
		return "call " + c.Call.String()
	}
	s := x.String()
	if len(s) > 60 {
		s = s[:60]
	}
	return strings.TrimSpace(x.Name() + "=" + s)
}

// calleeOf returns the static callee of a call event (nil if dynamic).
func calleeOf(ev Event) *ssa.Function {
	if c, ok := ev.In.(ssa.CallInstruction); ok {
		return c.Common().StaticCallee()
	}
	return nil
}

func isType(t types.Type, name string) bool { return typeName(t) == name }

func isSelectFallthroughPanic(p *ssa.Panic) bool {
	if mi, ok := p.X.(*ssa.MakeInterface); ok {
		if c, ok := mi.X.(*ssa.Const); ok && c.Value != nil && strings.Contains(c.Value.String(), "blocking select") {
			return true
		}
	}
	return false
}

// evalCond folds a branch condition whose operands resolve to constants on this path
// (boolean constants, integer comparisons of constants such as a first-iteration flag i == 0).
func (e *pathEngine) evalCond(v Val) (bool, bool) {
	r := e.resolve(v)
	if b, ok := constBool(r.V); ok {
		return b, true
	}
	if u, ok := r.V.(*ssa.UnOp); ok && u.Op == token.NOT {
		if b, ok := e.evalCond(Val{u.X, r.F, r.E}); ok {
			return !b, true
		}
	}
	bin, ok := r.V.(*ssa.BinOp)
	if !ok {
		return false, false
	}
	// x == nil / x != nil where x resolves on the path to a value that is nil or cannot be nil
	if bin.Op == token.EQL || bin.Op == token.NEQ {
		xv, yv := e.resolve(Val{bin.X, r.F, r.E}), e.resolve(Val{bin.Y, r.F, r.E})
		if isNilConst(xv.V) {
			xv, yv = yv, xv
		}
		if isNilConst(yv.V) {
			known, isNil := false, false
			if _, isMI := xv.V.(*ssa.MakeInterface); isMI {
				return bin.Op == token.NEQ, true // an interface made from a concrete value is never nil
			}
			switch sv := stripConv(xv.V).(type) {
			case *ssa.MakeClosure, *ssa.Function, *ssa.Alloc, *ssa.MakeChan, *ssa.MakeMap, *ssa.MakeSlice:
				known = true
			case *ssa.Const:
				if sv.Value == nil {
					if _, isBasic := sv.Type().Underlying().(*types.Basic); !isBasic {
						known, isNil = true, true
					}
				}
			}
			if known {
				return (bin.Op == token.EQL) == isNil, true
			}
		}
	}
	var x, y int64
	var okx, oky bool
	if e.foldArith {
		x, okx = e.evalInt(Val{bin.X, r.F, r.E}, 0)
		y, oky = e.evalInt(Val{bin.Y, r.F, r.E}, 0)
	} else {
		x, okx = constInt(e.resolve(Val{bin.X, r.F, r.E}).V)
		y, oky = constInt(e.resolve(Val{bin.Y, r.F, r.E}).V)
	}
	if !okx || !oky {
		return false, false
	}
	switch bin.Op {
	case token.EQL:
		return x == y, true
	case token.NEQ:
		return x != y, true
	case token.LSS:
		return x < y, true
	case token.LEQ:
		return x <= y, true
	case token.GTR:
		return x > y, true
	case token.GEQ:
		return x >= y, true
	}
	return false, false
}

// atomKey canonicalises a branch condition on the current path: "value instance == nil" or
// "boolean value instance", so that a later test of the very same value instance (e.g. an error
// returned by an inlined helper and re-tested by its caller) cannot take the opposite branch.
type atomKeyT struct {
	v     ssa.Value
	f     *Frame
	visit int
	kind  string
}

func (e *pathEngine) atomKey(c Val, pol bool) (atomKeyT, bool, bool) {
	r := e.resolve(c)
	for {
		if u, ok := r.V.(*ssa.UnOp); ok && u.Op == token.NOT {
			r = e.resolve(Val{u.X, r.F, r.E})
			pol = !pol
			continue
		}
		break
	}
	inst := func(v Val) (atomKeyT, bool) {
		switch v.V.(type) {
		case *ssa.Parameter, *ssa.FreeVar:
			return atomKeyT{v: v.V, f: v.F}, v.F != nil
		}
		in, ok := v.V.(ssa.Instruction)
		if !ok || v.F == nil || in.Block() == nil {
			return atomKeyT{}, false
		}
		return atomKeyT{v: v.V, f: v.F, visit: v.F.visits[in.Block().Index]}, true
	}
	if bin, ok := r.V.(*ssa.BinOp); ok && (bin.Op == token.EQL || bin.Op == token.NEQ) {
		x, y := e.resolve(Val{bin.X, r.F, r.E}), e.resolve(Val{bin.Y, r.F, r.E})
		if isNilConst(x.V) {
			x, y = y, x
		}
		if isNilConst(y.V) {
			if k, ok := inst(x); ok {
				k.kind = "nil"
				return k, (bin.Op == token.EQL) == pol, true
			}
		}
		return atomKeyT{}, false, false
	}
	if _, isBin := r.V.(*ssa.BinOp); isBin {
		return atomKeyT{}, false, false
	}
	// v, ok := x.(T): two tests of the same value instance against the same type agree
	if ex, ok := r.V.(*ssa.Extract); ok && ex.Index == 1 {
		if ta, ok := ex.Tuple.(*ssa.TypeAssert); ok && ta.CommaOk {
			if k, ok := inst(e.resolve(Val{ta.X, r.F, r.E})); ok {
				k.kind = "is:" + ta.AssertedType.String()
				return k, pol, true
			}
		}
	}
	if k, ok := inst(r); ok {
		k.kind = "bool"
		return k, pol, true
	}
	return atomKeyT{}, false, false
}

// localStruct: al is a struct variable whose address never leaves its function: every use is a
// field address that is only stored to / loaded from, or a load/store of the whole value.
func localStruct(al *ssa.Alloc) bool {
	if structOf(al.Type()) == nil || al.Referrers() == nil {
		return false
	}
	switch typeName(al.Type()) {
	case tBState, tPState, tBar, "mpb.Progress":
		return false // actor-owned state is reasoned about by the confinement rules, not by value
	}
	for _, ref := range *al.Referrers() {
		switch x := ref.(type) {
		case *ssa.FieldAddr:
			if x.Referrers() == nil {
				continue
			}
			for _, r2 := range *x.Referrers() {
				switch y := r2.(type) {
				case *ssa.Store:
					if y.Addr != ssa.Value(x) {
						return false
					}
				case *ssa.UnOp, *ssa.DebugRef:
				default:
					return false
				}
			}
		case *ssa.Store:
			if x.Addr != ssa.Value(al) {
				return false
			}
		case *ssa.UnOp, *ssa.DebugRef:
		default:
			return false
		}
	}
	return true
}

// allocField: the value of field idx of the local struct variable al (resolved in frame av.F):
// its single field store, or the field of the single whole value stored into it.
func (e *pathEngine) allocField(av Val, al *ssa.Alloc, idx int, depth int) (Val, bool) {
	if depth > 4 || !localStruct(al) {
		return Val{}, false
	}
	var fieldStores, wholeStores []*ssa.Store
	for _, ref := range *al.Referrers() {
		switch x := ref.(type) {
		case *ssa.FieldAddr:
			if x.Field != idx || x.Referrers() == nil {
				continue
			}
			for _, r2 := range *x.Referrers() {
				if st, ok := r2.(*ssa.Store); ok {
					fieldStores = append(fieldStores, st)
				}
			}
		case *ssa.Store:
			wholeStores = append(wholeStores, x)
		}
	}
	switch {
	case len(fieldStores) == 1 && len(wholeStores) == 0:
		return e.resolve(Val{fieldStores[0].Val, av.F, av.E}), true
	case len(fieldStores) == 0 && len(wholeStores) == 1:
		return e.structField(Val{wholeStores[0].Val, av.F, av.E}, idx, depth+1)
	}
	return Val{}, false
}

// structField: field idx of the struct value sv, when sv resolves to the content of a local struct variable.
func (e *pathEngine) structField(sv Val, idx int, depth int) (Val, bool) {
	if depth > 4 {
		return Val{}, false
	}
	sv = e.resolve(sv)
	ld, ok := sv.V.(*ssa.UnOp)
	if !ok || ld.Op != token.MUL {
		return Val{}, false
	}
	base := e.resolve(Val{ld.X, sv.F, sv.E})
	al, ok := base.V.(*ssa.Alloc)
	if !ok {
		return Val{}, false
	}
	return e.allocField(Val{al, base.F, base.E}, al, idx, depth)
}

// goTargetsOn: the functions a go statement starts on this path: when the spawned function value
// resolves on the path to one function or closure (a method value chosen by a helper), that one;
// otherwise every target of the call graph.
func (p *Path) goTargetsOn(ev Event, g *ssa.Go) []*ssa.Function {
	w := p.eng.w
	if g.Call.StaticCallee() == nil && !g.Call.IsInvoke() {
		switch x := p.stripR(p.val(ev, g.Call.Value)).V.(type) {
		case *ssa.MakeClosure:
			if f, ok := x.Fn.(*ssa.Function); ok {
				return []*ssa.Function{boundTarget(f)}
			}
		case *ssa.Function:
			return []*ssa.Function{boundTarget(x)}
		}
	}
	return w.goTargets(g)
}

// evalInt folds an integer expression whose leaves resolve to constants on this path (the index
// of a range-over-array loop in its first iterations: phi(-1) + 1).
func (e *pathEngine) evalInt(v Val, depth int) (int64, bool) {
	r := e.resolve(v)
	if k, ok := constInt(r.V); ok {
		return k, true
	}
	if depth > 3 {
		return 0, false
	}
	if b, ok := r.V.(*ssa.BinOp); ok && (b.Op == token.ADD || b.Op == token.SUB) {
		x, okx := e.evalInt(Val{b.X, r.F, r.E}, depth+1)
		y, oky := e.evalInt(Val{b.Y, r.F, r.E}, depth+1)
		if okx && oky {
			if b.Op == token.ADD {
				return x + y, true
			}
			return x - y, true
		}
	}
	return 0, false
}

// leavesLoopOf: b is the header of a natural loop, `out` leaves it and `in` stays inside.
func (e *pathEngine) leavesLoopOf(b, out, in *ssa.BasicBlock) bool {
	for _, l := range naturalLoops(b.Parent()) {
		if l.Header == b && l.Blocks[in] && !l.Blocks[out] {
			return true
		}
	}
	return false
}


func isIntegerType(t types.Type) bool {
	b, ok := t.Underlying().(*types.Basic)
	return ok && b.Info()&types.IsInteger != 0
}
