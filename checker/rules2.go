package main

import (
	"fmt"
	"go/token"
	"go/types"
	"sort"
	"strings"

	"golang.org/x/tools/go/ssa"
)

// Rules added after the second round of seeded changes.

// heapLoopState returns the heap loop's outer loop and its loop-carried re-sync flag and cached length.
func (w *World) heapLoopState() (loop *ssa.Function, arms map[int64]*ssa.BasicBlock, outer *loopInfo, syncPhi, lenPhi *ssa.Phi) {
	loop, arms, _ = w.heapArms()
	if loop == nil {
		return
	}
	for _, l := range naturalLoops(loop) {
		if outer == nil || len(l.Blocks) > len(outer.Blocks) {
			outer = l
		}
	}
	if outer == nil {
		return
	}
	for _, in := range outer.Header.Instrs {
		if phi, ok := in.(*ssa.Phi); ok {
			if types.Identical(phi.Type(), types.Typ[types.Bool]) {
				syncPhi = phi
			}
			if types.Identical(phi.Type(), types.Typ[types.Int]) {
				lenPhi = phi
			}
		}
	}
	return
}

// ruleStateAgrees (H-STATE): the state arm replies exactly the sync arm's rebuild condition
// (re-sync flag || cached length != heap length): the final render loop must go on whenever
// the next cycle would rebuild, i.e. whenever bars joined, left or were swapped.
func ruleStateAgrees(w *World, r *Report, pfx string) {
	rule := pfx + ".H-STATE"
	loop, arms, outer, syncPhi, lenPhi := w.heapLoopState()
	if loop == nil || outer == nil || syncPhi == nil || lenPhi == nil {
		r.Undecided(rule, "heap loop state", "", "heap loop / its re-sync flag and cached length not found")
		return
	}
	// the arm containing the bare reply send
	var send *ssa.Send
	var cmd int64 = -1
	for _, op := range w.Comm().byFn[loop] {
		if op.Kind != "send" || op.Class.has("heapManager") {
			continue
		}
		for k, ab := range arms {
			if armContains(loop, arms, k, ab, op.Instr.Block()) {
				send, cmd = op.Instr.(*ssa.Send), k
			}
		}
	}
	if send == nil {
		r.Violated(rule, "state arm", w.pos(loop.Pos()), "the heap loop never replies to the state request")
		return
	}
	isLenCall := func(v ssa.Value) bool {
		c, ok := v.(*ssa.Call)
		return ok && c.Call.StaticCallee() != nil && c.Call.StaticCallee().Name() == "Len"
	}
	bad := ""
	sawFlag, sawLen := false, false
	n, _ := w.enumPaths(loop, pathOpts{Start: arms[cmd], StopAt: func(b *ssa.BasicBlock) bool { return b == outer.Header }}, func(p *Path) {
		if bad != "" {
			return
		}
		for _, ev := range p.Events {
			if ev.In != ssa.Instruction(send) {
				continue
			}
			v := p.val(ev, send.X)
			flagTrue := p.hasBool(ev.Idx, true, func(x Val) bool { return x.V == ssa.Value(syncPhi) })
			flagFalse := p.hasBool(ev.Idx, false, func(x Val) bool { return x.V == ssa.Value(syncPhi) })
			switch {
			case flagTrue:
				sawFlag = true
				if bv, ok := constBool(v.V); !(ok && bv) && v.V != ssa.Value(syncPhi) {
					bad = "with a pending re-sync request the heap does not report a change"
				}
			case flagFalse:
				sawLen = true
				bin, ok := v.V.(*ssa.BinOp)
				if !ok || bin.Op != token.NEQ || !((bin.X == ssa.Value(lenPhi) && isLenCall(bin.Y)) || (bin.Y == ssa.Value(lenPhi) && isLenCall(bin.X))) {
					bad = "without a pending re-sync request the reply is not (cached length != heap length)"
				}
			default:
				// value form without branching: must be a disjunction-free read of both -> not the case here
				bad = "the reply does not consult the pending re-sync flag: after a successor swap (same heap length) the final render loop stops one frame early and the successor is never displayed / the removed bar stays in the last frame"
				if v.V == ssa.Value(syncPhi) {
					bad = "the reply ignores a changed heap length: a bar dropped during the final render stays in the last frame"
				}
			}
		}
	})
	r.Check(bad == "" && n > 0 && sawFlag && sawLen, rule, "state arm", w.instrPos(send), "reply = re-sync flag || cached length != heap length (the sync arm's rebuild condition)", orStr(bad, "the reply is not the disjunction of the flag and the length test"))
}

// ruleRowsAreLines (C04): rows produced by the library end with a new line: the bar row's last
// reader is "\n"; an extender contributes a row only for a completely read line (ReadBytes
// without error).
func ruleRowsAreLines(w *World, r *Report, pfx string) {
	rule := pfx + ".X-ROWLINE"
	// draw: the MultiReader's last element is strings.NewReader("\n")
	if draw := w.Func("mpb.(*bState).draw"); draw != nil {
		ok := false
		for _, b := range draw.Blocks {
			for _, in := range b.Instrs {
				c, isC := in.(*ssa.Call)
				if !isC || c.Call.StaticCallee() == nil || c.Call.StaticCallee().String() != "io.MultiReader" {
					continue
				}
				// the variadic slice: find the highest-index store into its backing array
				sl, isS := c.Call.Args[0].(*ssa.Slice)
				if !isS {
					continue
				}
				al, isA := sl.X.(*ssa.Alloc)
				if !isA {
					continue
				}
				var lastIdx int64 = -1
				var lastVal ssa.Value
				for _, ref := range *al.Referrers() {
					ia, isIA := ref.(*ssa.IndexAddr)
					if !isIA {
						continue
					}
					k, _ := constInt(ia.Index)
					for _, r2 := range *ia.Referrers() {
						if st, isSt := r2.(*ssa.Store); isSt && k > lastIdx {
							lastIdx, lastVal = k, st.Val
						}
					}
				}
				if mi, isMI := lastVal.(*ssa.MakeInterface); isMI {
					if nc, isNC := mi.X.(*ssa.Call); isNC && nc.Call.StaticCallee() != nil && nc.Call.StaticCallee().String() == "strings.NewReader" {
						if k, isK := nc.Call.Args[0].(*ssa.Const); isK && k.Value != nil && k.Value.ExactString() == `"\n"` {
							ok = true
						}
					}
				}
			}
		}
		r.Check(ok, rule, "bar row terminator", w.pos(draw.Pos()), "the bar's row ends with a new line reader", "the bar's row does not end with a new line: the cursor-up count of the next frame is off and rows run into each other")
	}
	// extender: append only after a successful ReadBytes
	n := 0
	for _, fn := range w.ModFns {
		if fn.Pkg != w.Mpb {
			continue
		}
		var rb *ssa.Call
		for _, b := range fn.Blocks {
			for _, in := range b.Instrs {
				if c, ok := in.(*ssa.Call); ok && c.Call.StaticCallee() != nil && c.Call.StaticCallee().String() == "(*bytes.Buffer).ReadBytes" {
					rb = c
				}
			}
		}
		if rb == nil {
			continue
		}
		n++
		bad := ""
		if k, ok := constInt(rb.Call.Args[1]); !ok || k != '\n' {
			bad = "the extender's output is not split at new lines"
		}
		isErr := func(v Val) bool {
			ex, ok := v.V.(*ssa.Extract)
			return ok && ex.Tuple == ssa.Value(rb) && ex.Index == 1
		}
		w.enumPaths(fn, pathOpts{}, func(p *Path) {
			if bad != "" {
				return
			}
			for _, ev := range p.Events {
				c, ok := ev.In.(*ssa.Call)
				if !ok || !isBuiltinCall(&c.Call, "append") {
					continue
				}
				// appended element derives from the line read in this iteration
				// need: the last ReadBytes before this append succeeded (atom err == nil after it)
				lastRB := -1
				for _, e2 := range p.Events[:ev.Idx] {
					if e2.In == ssa.Instruction(rb) {
						lastRB = e2.Idx
					}
				}
				if lastRB < 0 {
					continue
				}
				okAtom := false
				for _, a := range p.Atoms {
					c2 := p.cmpOf(a)
					if c2.Op == token.EQL && isErr(c2.X) && isNilConst(c2.Y.V) && p.atomIdx(a) > lastRB && p.atomIdx(a) < ev.Idx {
						okAtom = true
					}
				}
				if !okAtom {
					bad = "an extender row is appended for a line that was not read completely (no terminating new line): the row count no longer equals the line count, the next frame's cursor-up erases the line above the bars"
				}
			}
		})
		r.Check(bad == "", rule, "extender rows", w.pos(fn.Pos()), "one row per completely read line", bad)
	}
	if n == 0 {
		r.Undecided(rule, "extender rows", "", "line splitting of the extender output not found")
	}
}

// ruleExtenderError (C15): the extender returns the filler's error unchanged (whatever its value),
// resets its buffer, and the reversing variant returns the base's error.
func ruleExtenderError(w *World, r *Report, pfx string) {
	rule := pfx + ".X-EXTERR"
	// extender implementations: functions of the extender signature (Statistics, ...io.Reader) ([]io.Reader, error)
	var extSig *types.Signature
	if tn := w.Mpb.Type("extenderFunc"); tn != nil {
		extSig, _ = tn.Type().Underlying().(*types.Signature)
	}
	if extSig == nil {
		r.Unresolved("anchor", "mpb.extenderFunc", "type not found")
		return
	}
	sameSig := func(sig *types.Signature) bool {
		return types.Identical(types.NewSignatureType(nil, nil, nil, sig.Params(), sig.Results(), sig.Variadic()), extSig)
	}
	n := 0
	for _, fn := range w.ModFns {
		if fn.Pkg != w.Mpb || !sameSig(fn.Signature) {
			continue
		}
		var fill *ssa.Call
		var base *ssa.Call
		for _, b := range fn.Blocks {
			for _, in := range b.Instrs {
				if c, ok := in.(*ssa.Call); ok {
					if c.Call.IsInvoke() && c.Call.Method.Name() == "Fill" {
						fill = c
					}
					if !c.Call.IsInvoke() && c.Call.Signature().Results().Len() == 2 && sameSig(c.Call.Signature()) {
						base = c
					}
				}
			}
		}
		src := fill
		isErr := func(v Val) bool { return src != nil && v.V == ssa.Value(src) }
		if fill == nil && base != nil {
			src = base
			isErr = func(v Val) bool {
				ex, ok := v.V.(*ssa.Extract)
				return ok && ex.Tuple == ssa.Value(base) && ex.Index == 1
			}
		}
		if src == nil {
			continue
		}
		n++
		bad := ""
		saw := false
		w.enumPaths(fn, pathOpts{InlineDepth: 0}, func(p *Path) {
			if bad != "" || p.Exit != "return" || len(p.Ret) != 2 {
				return
			}
			if p.hasCmp(-1, token.NEQ, isErr, isNilVal) {
				saw = true
				if !isErr(p.Ret[1]) {
					bad = "a non-nil error of the extender's filler is not returned unchanged (an error such as io.EOF would be swallowed: no shutdown, no report)"
				}
				if fill != nil {
					resets := 0
					for _, ev := range p.Events {
						if c, ok := ev.In.(*ssa.Call); ok && c.Call.StaticCallee() != nil && c.Call.StaticCallee().String() == "(*bytes.Buffer).Reset" {
							resets++
						}
					}
					if resets == 0 {
						bad = orStr(bad, "the extender's buffer is not reset after an error")
					}
				}
			} else if p.hasCmp(-1, token.EQL, isErr, isNilVal) {
				// success: the returned error is nil (the very value tested) or a nil constant
				if !(isErr(p.Ret[1]) || isNilConst(p.Ret[1].V)) {
					bad = "the extender returns an error on its success path"
				}
			} else {
				bad = "the extender's filler error is not tested"
			}
		})
		r.Check(bad == "" && saw, rule, "extender error in "+fnShort(fn), w.pos(fn.Pos()), "filler error returned unchanged, buffer reset", orStr(bad, "no error path"))
	}
	r.Floor(rule, 2, "base and reversing extender")
}

// ruleFlushDrainsPending (C05): when flush collects its pushes in a pending list, every path from
// the end of the collection loop to a return passes through the loop that pushes them.
func ruleFlushDrainsPending(w *World, r *Report, pfx string, fi *flushInfo) {
	rule := pfx + ".F-DRAIN"
	if fi.Undecided != "" {
		r.Undecided(rule, "flush", "", fi.Undecided)
		return
	}
	if len(fi.Pend) == 0 || fi.DrainAt == nil {
		r.HoldsTrivial(rule, "pending pushes", w.pos(fi.Fn.Pos()), "flush pushes directly (no pending list)")
		return
	}
	bad := ""
	after := fi.Header.Succs[1]
	if fi.Body == after {
		after = fi.Header.Succs[0]
	}
	for b := range reachableFrom(after, true) {
		if ret, ok := b.Instrs[len(b.Instrs)-1].(*ssa.Return); ok {
			if !instrDominates(fi.DrainAt, ret) {
				bad = "flush can return (" + w.instrPos(ret) + ") before the remembered bars are pushed back: on that path every bar collected in this cycle is lost from the container and from the shutdown list"
			}
		}
	}
	// no close of the abandon signal before the drain either (the heap loop must still accept the pushes)
	r.Check(bad == "", rule, "pending pushes", w.instrPos(fi.DrainAt), "every return after the collection loop is dominated by the push loop", bad)
}

// ruleLoopVarCapture (C10): a goroutine spawned inside a loop must not capture a variable cell that is
// allocated outside the loop and assigned inside it (shared loop variable under pre-1.22 semantics).
func ruleLoopVarCapture(w *World, r *Report, rule string) {
	n := 0
	for _, fn := range w.ModFns {
		loops := naturalLoops(fn)
		if len(loops) == 0 {
			continue
		}
		for _, b := range fn.Blocks {
			for _, in := range b.Instrs {
				g, ok := in.(*ssa.Go)
				if !ok {
					continue
				}
				l := innermostLoop(loops, b)
				if l == nil {
					continue
				}
				mc, ok := g.Call.Value.(*ssa.MakeClosure)
				if !ok {
					continue
				}
				n++
				bad := ""
				for _, bnd := range mc.Bindings {
					al, ok := bnd.(*ssa.Alloc)
					if !ok || l.Blocks[al.Block()] {
						continue
					}
					for _, ref := range *al.Referrers() {
						if st, ok := ref.(*ssa.Store); ok && st.Addr == ssa.Value(al) && l.Blocks[st.Block()] {
							bad = fmt.Sprintf("the goroutine captures %s, one variable shared by all iterations and reassigned in the loop: the goroutines race on it and all see the last element", al.Comment)
						}
					}
				}
				r.Check(bad == "", rule, "goroutine spawned in a loop in "+fnShort(fn), w.instrPos(in), "captures only per-iteration or loop-invariant variables", bad)
			}
		}
	}
	r.Floor(rule, 3, "ewma helpers x2, shutdown notifier, distributor launch")
}

// ruleOptionTable: option constructors store what they are given into the field they document.
func ruleOptionTable(w *World, r *Report, pfx string, want map[string][3]string) {
	rule := pfx + ".OPT"
	for ctor, spec := range want {
		owner, field, val := spec[0], spec[1], spec[2]
		fn := w.Func("mpb." + ctor)
		if fn == nil {
			r.Unresolved("anchor", "option "+ctor, "not found")
			continue
		}
		bad := ""
		// every return is a closure (not nil) whose every path stores the field from the parameter / constant
		for _, b := range fn.Blocks {
			ret, ok := b.Instrs[len(b.Instrs)-1].(*ssa.Return)
			if !ok {
				continue
			}
			v := stripConv(ret.Results[0])
			var clo *ssa.Function
			switch x := v.(type) {
			case *ssa.MakeClosure:
				clo = x.Fn.(*ssa.Function)
			case *ssa.Function:
				clo = x
			}
			if clo == nil {
				bad = "the option constructor can return something other than its setter (e.g. nil): the option is silently ignored"
				continue
			}
			okStore := false
			for _, cb := range clo.Blocks {
				for _, in := range cb.Instrs {
					st, ok := in.(*ssa.Store)
					if !ok {
						continue
					}
					f, ok := fieldOf(st.Addr)
					if !ok || f.Owner != owner || f.Name != field {
						continue
					}
					switch val {
					case "param":
						if w.isParamOf(st.Val, fn, 0) {
							okStore = true
						}
					case "paramOrDefault":
						// the argument, possibly replaced by a default when it is nil (`if w == nil { w = io.Discard }`)
						cands := []ssa.Value{st.Val}
						if ld, ok := stripConv(st.Val).(*ssa.UnOp); ok && ld.Op == token.MUL {
							cands = append(cands, w.cellStores(ld.X)...)
						}
						for _, cv := range cands {
							if w.isParamOf(cv, fn, 0) || cv == ssa.Value(fn.Params[0]) {
								okStore = true
							}
							// or the result of a private helper that returns the argument or the default
							if c, ok := stripConv(cv).(*ssa.Call); ok {
								if h := c.Call.StaticCallee(); h != nil && w.modSet[h] && len(c.Call.Args) >= 1 && (w.isParamOf(c.Call.Args[0], fn, 0) || c.Call.Args[0] == ssa.Value(fn.Params[0])) {
									for _, hb := range h.Blocks {
										if ret, ok := hb.Instrs[len(hb.Instrs)-1].(*ssa.Return); ok && len(ret.Results) == 1 && stripConv(ret.Results[0]) == ssa.Value(h.Params[0]) {
											okStore = true
										}
									}
								}
							}
						}
					case "true":
						if bv, ok := constBool(st.Val); ok && bv {
							okStore = true
						}
					}
				}
			}
			if !okStore || len(clo.Blocks) != 1 {
				bad = "the option does not unconditionally set " + field + " from its argument"
			}
		}
		r.Check(bad == "", rule, "option "+ctor, w.pos(fn.Pos()), field+" <- "+val, bad)
	}
	// exclusivity: no other option constructor's setter writes a documented field (an option that
	// "also" sets another option's flag changes bars that never asked for it)
	var ctors []string
	for c := range want {
		ctors = append(ctors, c)
	}
	sort.Strings(ctors)
	for _, ctor := range ctors {
		owner, field := want[ctor][0], want[ctor][1]
		allowed := map[string]bool{}
		for c2, sp := range want {
			if sp[0] == owner && sp[1] == field {
				allowed[c2] = true
			}
		}
		bad := ""
		for _, fn := range w.ModFns {
			if fn.Pkg != w.Mpb || fn.Parent() == nil {
				continue
			}
			root := rootFn(fn)
			if root.Signature.Results().Len() != 1 || root.Signature.Recv() != nil {
				continue
			}
			switch typeName(root.Signature.Results().At(0).Type()) {
			case "mpb.BarOption", "mpb.ContainerOption":
			default:
				continue
			}
			if allowed[root.Name()] {
				continue
			}
			for _, b := range fn.Blocks {
				for _, in := range b.Instrs {
					if st, ok := in.(*ssa.Store); ok {
						if f, ok := fieldOf(st.Addr); ok && f.Owner == owner && f.Name == field {
							bad = "option " + root.Name() + " (" + w.instrPos(in) + ") also writes " + field + ", which only " + ctor + " is documented to set"
						}
					}
				}
			}
		}
		r.Check(bad == "", rule, "writers of "+field+" among the options", "", "only "+ctor, bad)
	}
}

// ruleMedianReadOnly (C20): medianWindow.Value must not reorder the window it reads (Add relies on
// insertion order); the sort runs on a copy.
func ruleMedianReadOnly(w *World, r *Report, pfx string) {
	rule := pfx + ".M-MEDIAN"
	fn := w.Func("decor.(*medianWindow).Value")
	add := w.Func("decor.(*medianWindow).Add")
	if fn == nil || add == nil {
		r.Unresolved("anchor", "decor.medianWindow", "not found")
		return
	}
	recv := ssa.Value(fn.Params[0])
	bad := ""
	for _, b := range fn.Blocks {
		for _, in := range b.Instrs {
			for _, op := range in.Operands(nil) {
				if *op != recv {
					continue
				}
				switch x := in.(type) {
				case *ssa.UnOp, *ssa.IndexAddr, *ssa.DebugRef:
					_ = x
				default:
					bad = "the receiver window is handed to " + strings.TrimSpace(in.String()) + ": Value() reorders the samples that Add() treats as a FIFO, so the oldest sample is no longer the one evicted"
				}
			}
			if st, ok := in.(*ssa.Store); ok {
				if ia, ok := st.Addr.(*ssa.IndexAddr); ok && ia.X == recv {
					bad = "Value() writes into the window"
				}
			}
		}
	}
	r.Check(bad == "", rule, "medianWindow.Value", w.pos(fn.Pos()), "reads the window, sorts a copy", bad)
	// Add shifts by one: s[0], s[1] = s[1], s[2]; s[2] = value
	okShift := false
	if len(add.Blocks) == 1 {
		stores := map[int64]ssa.Value{}
		for _, in := range add.Blocks[0].Instrs {
			if st, ok := in.(*ssa.Store); ok {
				if ia, ok := st.Addr.(*ssa.IndexAddr); ok {
					if k, ok := constInt(ia.Index); ok {
						stores[k] = st.Val
					}
				}
			}
		}
		from := func(v ssa.Value) int64 {
			if ld, ok := v.(*ssa.UnOp); ok {
				if ia, ok := ld.X.(*ssa.IndexAddr); ok {
					if k, ok := constInt(ia.Index); ok {
						return k
					}
				}
			}
			return -1
		}
		okShift = from(stores[0]) == 1 && from(stores[1]) == 2 && stores[2] == ssa.Value(add.Params[1])
		// the newest sample goes in after the old ones were moved down (s[2] is read before it is overwritten)
		iLoad2, iStore2 := -1, -1
		for i, in := range add.Blocks[0].Instrs {
			if ld, ok := in.(*ssa.UnOp); ok && from(ld) == 2 {
				iLoad2 = i
			}
			if st, ok := in.(*ssa.Store); ok {
				if ia, ok := st.Addr.(*ssa.IndexAddr); ok {
					if k, ok := constInt(ia.Index); ok && k == 2 {
						iStore2 = i
					}
				}
			}
		}
		if iLoad2 < 0 || iStore2 < iLoad2 {
			okShift = false
		}
	}
	r.Check(okShift, rule, "medianWindow.Add", w.pos(add.Pos()), "FIFO shift by one", "Add does not evict the oldest sample")
	// Value is the median: the middle element of the sorted copy
	{
		var sortCall *ssa.Call
		cmps := 0
		for _, b := range fn.Blocks {
			for _, in := range b.Instrs {
				if c, ok := in.(*ssa.Call); ok {
					switch staticCalleeName(&c.Call) {
					case "sort.Sort", "sort.Stable", "sort.Float64s", "slices.Sort":
						sortCall = c
					}
				}
				if bin, ok := in.(*ssa.BinOp); ok {
					switch bin.Op {
					case token.LSS, token.LEQ, token.GTR, token.GEQ:
						cmps++
					}
				}
			}
		}
		bad := ""
		switch {
		case sortCall == nil && cmps == 0:
			bad = "Value() neither sorts its copy nor compares the samples: what it returns is not the median"
		case sortCall != nil:
			for _, b := range fn.Blocks {
				ret, ok := b.Instrs[len(b.Instrs)-1].(*ssa.Return)
				if !ok || len(ret.Results) != 1 {
					continue
				}
				ld, ok := ret.Results[0].(*ssa.UnOp)
				if !ok {
					bad = "Value() does not return an element of the sorted copy"
					continue
				}
				ia, ok := ld.X.(*ssa.IndexAddr)
				if !ok {
					bad = "Value() does not return an element of the sorted copy"
					continue
				}
				n := int64(-1)
				t := ia.X.Type()
				if pt, ok := t.Underlying().(*types.Pointer); ok {
					t = pt.Elem()
				}
				if at, ok := t.Underlying().(*types.Array); ok {
					n = at.Len()
				}
				if k, ok := constInt(ia.Index); !ok || n < 0 || k != n/2 {
					bad = "Value() returns an element other than the middle one of the sorted copy (the smallest or largest sample instead of the median)"
				}
				if ia.X == recv {
					bad = "Value() returns an element of the unsorted window"
				}
			}
		}
		r.Check(bad == "", rule, "medianWindow.Value result", w.pos(fn.Pos()), "middle element of the sorted copy", bad)
	}
	// the order sort.Sort works with: Swap exchanges two samples, Less compares them
	if sw := w.Func("decor.(*medianWindow).Swap"); sw != nil && len(sw.Params) == 3 {
		idxOf := func(v ssa.Value) ssa.Value {
			if ia, ok := v.(*ssa.IndexAddr); ok {
				return ia.Index
			}
			return nil
		}
		pairs := map[[2]ssa.Value]bool{}
		for _, b := range sw.Blocks {
			for _, in := range b.Instrs {
				if st, ok := in.(*ssa.Store); ok {
					if ld, ok := st.Val.(*ssa.UnOp); ok {
						pairs[[2]ssa.Value{idxOf(st.Addr), idxOf(ld.X)}] = true
					}
				}
			}
		}
		i, j := ssa.Value(sw.Params[1]), ssa.Value(sw.Params[2])
		r.Check(pairs[[2]ssa.Value{i, j}] && pairs[[2]ssa.Value{j, i}], rule, "medianWindow.Swap", w.pos(sw.Pos()), "exchanges s[i] and s[j]", "Swap does not exchange the two samples: sorting the copy leaves it unsorted (or duplicates a sample)")
	}
	if ls := w.Func("decor.(*medianWindow).Less"); ls != nil && len(ls.Params) == 3 {
		ok := false
		for _, b := range ls.Blocks {
			ret, isRet := b.Instrs[len(b.Instrs)-1].(*ssa.Return)
			if !isRet || len(ret.Results) != 1 {
				continue
			}
			if bin, isBin := ret.Results[0].(*ssa.BinOp); isBin {
				switch bin.Op {
				case token.LSS, token.LEQ, token.GTR, token.GEQ: // the median of the window is the same for the ascending and the descending order
					lx, okx := bin.X.(*ssa.UnOp)
					ly, oky := bin.Y.(*ssa.UnOp)
					if okx && oky {
						ax, _ := lx.X.(*ssa.IndexAddr)
						ay, _ := ly.X.(*ssa.IndexAddr)
						if ax != nil && ay != nil && ax.Index != ay.Index && (ax.Index == ssa.Value(ls.Params[1]) || ax.Index == ssa.Value(ls.Params[2])) && (ay.Index == ssa.Value(ls.Params[1]) || ay.Index == ssa.Value(ls.Params[2])) {
							ok = true
						}
					}
				}
			}
		}
		r.Check(ok, rule, "medianWindow.Less", w.pos(ls.Pos()), "orders s[i] against s[j]", "Less does not compare the two samples it is asked about")
	}
}

// ruleBarWait (C11/C14): Bar.Wait blocks on the ready channel, which is closed only after the
// terminal flags are final.
func ruleBarWait(w *World, r *Report, pfx string) {
	rule := pfx + ".B-WAIT"
	fn := w.Func("mpb.(*Bar).Wait")
	if fn == nil {
		r.Unresolved("anchor", "Bar.Wait", "not found")
		return
	}
	ok, n := false, 0
	for _, op := range w.Comm().byFn[fn] {
		switch op.Kind {
		case "recv":
			n++
			ok = op.Class.only("Bar.bsOk")
		case "select", "send":
			n++
		}
	}
	r.Check(ok && n == 1, rule, "API:Bar.Wait", w.pos(fn.Pos()), "waits for the ready channel (closed after the state is final and published)", "Bar.Wait does not wait for the bar's ready channel: it can return before the bar goroutine fixed the terminal flags (a cancelled bar observed neither completed nor aborted)")
}

// ruleThreadSafeAverage (C10): the mutex wrapper around a moving average. Every method of the
// wrapper makes its single call of the wrapped average between Lock and Unlock of the wrapper's
// own mutex on every path, and the constructor is idempotent: an argument that already is the
// wrapper is returned itself (re-wrapping its inner average would put two different locks
// around one unsynchronised average, which the per-decorator goroutines of EwmaIncr* enter
// concurrently); any other argument is wrapped once.
func ruleThreadSafeAverage(w *World, r *Report, rule string) {
	ctor := w.Func("decor.NewThreadSafeMovingAverage")
	if ctor == nil {
		r.Unresolved("anchor", "decor.NewThreadSafeMovingAverage", "not found")
		return
	}
	const tT = "decor.threadSafeMovingAverage"
	arg := ssa.Value(ctor.Params[0])
	bad := ""
	sawSelf, sawWrap := false, false
	w.enumPaths(ctor, pathOpts{InlineDepth: 2, Inline: w.helperInline(ctor)}, func(p *Path) {
		if bad != "" || p.Exit != "return" || len(p.Ret) != 1 {
			return
		}
		already := tri(triUnknown)
		var ta *ssa.TypeAssert
		for _, a := range p.Atoms {
			c := p.cmpOf(a)
			if c.Op != token.ILLEGAL {
				continue
			}
			if ex, ok := c.X.V.(*ssa.Extract); ok && ex.Index == 1 {
				if t, ok := ex.Tuple.(*ssa.TypeAssert); ok && typeName(t.AssertedType) == tT && p.R(Val{t.X, c.X.F, c.X.E}).V == arg {
					ta = t
					if c.Pol {
						already = triTrue
					} else {
						already = triFalse
					}
				}
			}
		}
		rv := p.stripR(p.Ret[0])
		inner := rv.V
		switch already {
		case triTrue:
			sawSelf = true
			if ex, ok := inner.(*ssa.Extract); !ok || ex.Tuple != ssa.Value(ta) || ex.Index != 0 {
				bad = "an argument that already is the thread-safe wrapper is not returned itself (re-wrapping puts a second, different lock around the same unsynchronised average)"
			}
		case triFalse:
			sawWrap = true
			al, ok := inner.(*ssa.Alloc)
			if !ok || typeName(al.Type()) != tT {
				bad = "a plain average is not wrapped into the mutex wrapper"
				return
			}
			okField := false
			for _, ref := range *al.Referrers() {
				if fa, ok := ref.(*ssa.FieldAddr); ok && fa.Referrers() != nil {
					for _, r2 := range *fa.Referrers() {
						if st, ok := r2.(*ssa.Store); ok && st.Addr == ssa.Value(fa) && p.R(Val{st.Val, rv.F, rv.E}).V == arg {
							okField = true
						}
					}
				}
			}
			if !okField {
				bad = "the wrapper does not wrap the caller's average"
			}
		default:
			bad = "the constructor does not test whether its argument already is the wrapper"
		}
	})
	r.Check(bad == "" && sawSelf && sawWrap, rule, "decor.NewThreadSafeMovingAverage", w.pos(ctor.Pos()), "idempotent: the wrapper itself, or one new wrapper around the argument", orStr(bad, "branch missing"))
	// methods
	n := 0
	for _, fn := range w.ModFns {
		if fn.Pkg != w.Decor || fn.Parent() != nil || fn.Signature.Recv() == nil || typeName(fn.Signature.Recv().Type()) != tT || fn.Synthetic != "" {
			continue
		}
		n++
		bad := ""
		w.enumPaths(fn, pathOpts{}, func(p *Path) {
			if p.Exit != "return" || bad != "" {
				return
			}
			lock, unlock, inner, deferred := -1, -1, -1, false
			for _, ev := range p.Events {
				var c *ssa.CallCommon
				isDefer := false
				switch x := ev.In.(type) {
				case *ssa.Call:
					c = &x.Call
				case *ssa.Defer:
					c, isDefer = &x.Call, true
				}
				if c == nil {
					continue
				}
				if sc := c.StaticCallee(); sc != nil && sc.Signature.Recv() != nil && typeName(sc.Signature.Recv().Type()) == "sync.Mutex" {
					if f, ok := fieldOf(c.Args[0]); !ok || f.Owner != tT {
						bad = "locks a mutex other than the wrapper's own"
					}
					switch sc.Name() {
					case "Lock":
						lock = ev.Idx
					case "Unlock":
						if isDefer {
							deferred = true
							if inner >= 0 {
								bad = "the unlock is deferred only after the wrapped call"
							}
						} else {
							unlock = ev.Idx
						}
					}
				}
				if c.IsInvoke() && !isDefer {
					if inner >= 0 {
						bad = "more than one call of the wrapped average"
					}
					inner = ev.Idx
				}
			}
			switch {
			case bad != "":
			case inner < 0:
				bad = "the wrapped average is not called"
			case lock < 0 || lock > inner:
				bad = "the wrapped average is called without holding the wrapper's lock"
			case !deferred && (unlock < 0 || unlock < inner):
				bad = "the lock is not released after the wrapped call on every path"
			}
		})
		r.Check(bad == "", rule, "method "+fnShort(fn), w.pos(fn.Pos()), "wrapped call between Lock and Unlock of the wrapper's mutex", bad)
	}
	r.Floor(rule, 4, "constructor and Add, Value, Set")
}

// ruleNoCallerAlias (O-ALIAS): a slice that an option setter stores into the bar / container state is
// the library's own: built from nil / make by append, never a (re)slice of a slice parameter of
// the option constructor. A variadic `ds...` shares the caller's backing array, so filtering "in
// place" (`group := ds[:0]`) makes the bar's decorator group alias memory the caller may reuse
// for the next bar: earlier bars then render, and notify on shutdown, the later bar's decorators.
func ruleNoCallerAlias(w *World, r *Report, pfx string) {
	rule := pfx + ".O-ALIAS"
	n := 0
	for _, fn := range w.ModFns {
		if fn.Pkg != w.Mpb || fn.Parent() == nil {
			continue
		}
		root := rootFn(fn)
		if root.Signature.Results().Len() != 1 || root.Signature.Recv() != nil {
			continue
		}
		switch typeName(root.Signature.Results().At(0).Type()) {
		case "mpb.BarOption", "mpb.ContainerOption":
		default:
			continue
		}
		for _, b := range fn.Blocks {
			for _, in := range b.Instrs {
				st, ok := in.(*ssa.Store)
				if !ok {
					continue
				}
				if _, isSlice := st.Val.Type().Underlying().(*types.Slice); !isSlice {
					continue
				}
				// stored into the state the setter receives
				addr := st.Addr
				if ia, ok := addr.(*ssa.IndexAddr); ok {
					addr = ia.X
				}
				f, ok := fieldOf(addr)
				if !ok || (f.Owner != tBState && f.Owner != tPState) {
					continue
				}
				n++
				bad := ""
				seen := map[ssa.Value]bool{}
				var walk func(v ssa.Value, d int)
				walk = func(v ssa.Value, d int) {
					if bad != "" || seen[v] || d > 24 {
						return
					}
					seen[v] = true
					v = w.origin(v)
					switch x := v.(type) {
					case *ssa.Parameter:
						if _, isSl := x.Type().Underlying().(*types.Slice); isSl {
							bad = "the stored slice shares the backing array of the constructor's parameter " + x.Name() + " (the caller's memory): a caller that reuses its slice rewrites this bar's " + f.Name
						}
					case *ssa.Slice:
						walk(x.X, d+1)
					case *ssa.Phi:
						for _, e := range x.Edges {
							walk(e, d+1)
						}
					case *ssa.Call:
						if isBuiltinCall(&x.Call, "append") {
							walk(x.Call.Args[0], d+1)
						} else if h := x.Call.StaticCallee(); h != nil && h.Blocks != nil && w.modSet[h] {
							// a helper that builds the slice: what it returns
							for _, hb := range h.Blocks {
								if ret, ok := hb.Instrs[len(hb.Instrs)-1].(*ssa.Return); ok {
									for _, rv := range ret.Results {
										if _, isSl := rv.Type().Underlying().(*types.Slice); isSl {
											walk(rv, d+1)
										}
									}
								}
							}
						}
					case *ssa.UnOp:
						if x.Op == token.MUL {
							for _, sv := range w.cellStores(x.X) {
								walk(sv, d+1)
							}
						}
					}
				}
				walk(st.Val, 0)
				r.Check(bad == "", rule, "slice stored into "+f.Owner+"."+f.Name+" by option "+root.Name(), w.instrPos(in), "library-owned backing array", bad)
			}
		}
	}
	r.Floor(rule, 1, "the decorator groups set by PrependDecorators / AppendDecorators")
}

// ruleLocksReleased (L-UNLOCK): every module function that locks a mutex releases it on every returning
// path (an Unlock after the Lock, or a deferred Unlock). The only lock of the library guards the
// thread-safe moving average, which the bar goroutine calls from inside EwmaIncr*/EwmaSetCurrent
// operations (and waits for): a path that returns with the lock held wedges the next sample, with
// it the bar goroutine, its getters, Bar.Wait and Progress.Wait.
func ruleLocksReleased(w *World, r *Report, rule string) {
	isMutexCall := func(c *ssa.CallCommon, names ...string) bool {
		sc := c.StaticCallee()
		if sc == nil || sc.Signature.Recv() == nil {
			return false
		}
		switch typeName(sc.Signature.Recv().Type()) {
		case "sync.Mutex", "sync.RWMutex":
		default:
			return false
		}
		for _, n := range names {
			if sc.Name() == n {
				return true
			}
		}
		return false
	}
	n := 0
	for _, fn := range w.ModFns {
		if fn.Synthetic != "" {
			continue
		}
		locks := false
		for _, b := range fn.Blocks {
			for _, in := range b.Instrs {
				if c, ok := in.(ssa.CallInstruction); ok && isMutexCall(c.Common(), "Lock", "RLock") {
					locks = true
				}
			}
		}
		if !locks {
			continue
		}
		n++
		bad := ""
		_, over := w.enumPaths(fn, pathOpts{Inline: func(ssa.CallInstruction, *ssa.Function) bool { return false }}, func(p *Path) {
			if p.Exit != "return" || bad != "" {
				return
			}
			held := 0
			deferred := false
			for _, ev := range p.Events {
				switch x := ev.In.(type) {
				case *ssa.Call:
					if isMutexCall(&x.Call, "Lock", "RLock") {
						held++
					} else if isMutexCall(&x.Call, "Unlock", "RUnlock") {
						held--
					}
				case *ssa.Defer:
					if isMutexCall(&x.Call, "Unlock", "RUnlock") {
						deferred = true
					}
				}
			}
			if held > 0 && !deferred {
				bad = "a path returns with the lock held (" + pathExitPos(w, p) + ")"
			}
		})
		if over {
			r.Undecided(rule, "locks in "+fnShort(fn), w.pos(fn.Pos()), "path cap reached")
			continue
		}
		r.Check(bad == "", rule, "locks in "+fnShort(fn), w.pos(fn.Pos()), "every returning path releases the lock it took", bad)
	}
	r.Floor(rule, 1, "functions that take a lock")
}
