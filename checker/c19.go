package main

import (
	"fmt"
	"go/token"
	"go/types"
	"sort"
	"strings"

	"golang.org/x/tools/go/ssa"
)

func init() { checks["C19"] = checkC19 }

// C19 — proxy readers and writers are transparent and account every byte (E7).
func checkC19(w *World, r *Report) {
	r.Explain = "Wrapper-transparency rules (E7) on SSA paths plus method-set facts from go/types: each forwarding method of the proxy types makes exactly one call of the wrapped value's method with its parameters passed through, returns that call's (n, err) unchanged, and hands n exactly once on every path (including error paths) to the bar's increment entry point - the Ewma flavour with time.Since(start) where start = time.Now() was taken before the call, chosen exactly for the ewma proxy types; constructors return a type that has WriteTo/ReadFrom in its method set exactly on returns dominated by the successful assertion on the caller's value, and pick the ewma flavour from the constructor's flag, which the Bar methods compute as len(ewmaDecorators) != 0; Close of every proxy type is promoted from the embedded interface; toReadCloser/toWriteCloser return the argument itself when it already closes, and the no-op closer preserves ReaderFrom. With C09 for the bar side this is close to the whole property; io.NopCloser is trusted."
	r.Assume = append(r.Assume, "io.NopCloser forwards Read and offers WriteTo iff the wrapped reader does (standard library)", "C09 for the bar's counter rules")
	proxyTypes := ruleProxyForward(w, r, "C19")

	// the fast-path assertion inside WriteTo/ReadFrom methods is on the embedded interface value
	checkProxyAssertions(w, r, "C19.P-ASSERT")

	// constructors (private helpers inlined): the flavour returned on each path, and the closer it wraps
	for _, spec := range []struct{ name, iface, fast, closer string }{{"mpb.newProxyReader", "io.WriterTo", "WriteTo", "io.ReadCloser"}, {"mpb.newProxyWriter", "io.ReaderFrom", "ReadFrom", "io.WriteCloser"}} {
		fn := w.Func(spec.name)
		if fn == nil {
			r.Unresolved("anchor", spec.name, "not found")
			continue
		}
		bad, badC := "", ""
		saw := map[string]bool{}
		sawSelf, sawWrap := false, false
		arg := ssa.Value(fn.Params[0])
		nP, over := w.enumPaths(fn, pathOpts{InlineDepth: 3, Inline: w.helperInline(fn)}, func(p *Path) {
			if bad != "" || p.Exit != "return" || len(p.Ret) != 1 {
				return
			}
			rv := p.R(p.Ret[0])
			mi, ok := rv.V.(*ssa.MakeInterface)
			if !ok {
				bad = "constructor does not return a concrete proxy value"
				return
			}
			ct := mi.X.Type()
			has := w.Prog.MethodSets.MethodSet(ct).Lookup(nil, spec.fast) != nil
			// outcome, on this path, of the comma-ok assertion of the caller's value to iface
			foreign := false
			asserted := func(iface string) tri {
				out := tri(triUnknown)
				for _, a := range p.Atoms {
					c := p.cmpOf(a)
					if c.Op != token.ILLEGAL {
						continue
					}
					ex, ok := c.X.V.(*ssa.Extract)
					if !ok || ex.Index != 1 {
						continue
					}
					ta, ok := ex.Tuple.(*ssa.TypeAssert)
					if !ok || typeName(ta.AssertedType) != iface {
						continue
					}
					if p.R(Val{ta.X, c.X.F, c.X.E}).V != arg {
						foreign = true
						continue
					}
					if c.Pol {
						out = triTrue
					} else {
						out = triFalse
					}
				}
				return out
			}
			fast := asserted(spec.iface)
			if fast == triUnknown {
				if foreign {
					bad = "the fast-path capability is tested on a value other than the one the caller handed in"
				} else {
					bad = "a return does not depend on whether the wrapped value implements " + spec.iface
				}
				return
			}
			if has != (fast == triTrue) {
				bad = fmt.Sprintf("the proxy offers %s although the wrapped value %s (or the reverse): io.Copy would panic in the unchecked assertion or lose the fast path", spec.fast, map[bool]string{true: "does not implement it", false: "implements it"}[has])
				return
			}
			// ewma flavour from the flag
			isFlag := func(v Val) bool { return v.V == ssa.Value(fn.Params[2]) }
			flag := p.hasBool(-1, true, isFlag)
			noflag := p.hasBool(-1, false, isFlag)
			// flavour = how the type's accounting methods (own or promoted from an embedded proxy) account:
			// all through the Ewma increment, or all through the plain one
			flavours := map[string]bool{}
			for _, mn := range []string{"Read", "Write", "WriteTo", "ReadFrom"} {
				if k := w.proxyMethodFlavour(ct, mn); k != "" {
					flavours[k] = true
				}
			}
			if len(flavours) != 1 {
				bad = fmt.Sprintf("the accounting methods of %s (own and promoted) do not all use the same kind of increment: bytes moved through one of them never reach (or wrongly reach) the moving-average decorators", shortType(ct))
				return
			}
			isE := flavours["ewma"]
			if !(flag || noflag) || isE != flag {
				bad = "the ewma flavour of the proxy is not chosen by the constructor's flag"
				return
			}
			saw[fmt.Sprintf("%v/%v", has, isE)] = true
			// the closer the proxy wraps: first field, through embedded proxy structs
			var firstField func(v Val, d int) (Val, bool)
			firstField = func(v Val, d int) (Val, bool) {
				v = p.R(v)
				if d > 6 {
					return v, false
				}
				if _, isIface := v.V.Type().Underlying().(*types.Interface); isIface {
					return v, true
				}
				ld, ok := v.V.(*ssa.UnOp)
				if !ok || ld.Op != token.MUL {
					return v, false
				}
				al, ok := ld.X.(*ssa.Alloc)
				if !ok || al.Referrers() == nil {
					return v, false
				}
				// the value stored at the first field, through nested literals (chained field addresses)
				var storedAt func(addr ssa.Value, dd int) ssa.Value
				storedAt = func(addr ssa.Value, dd int) ssa.Value {
					if dd > 4 || addr.Referrers() == nil {
						return nil
					}
					for _, ref := range *addr.Referrers() {
						if st, ok := ref.(*ssa.Store); ok && st.Addr == addr {
							return st.Val
						}
					}
					for _, ref := range *addr.Referrers() {
						if fa, ok := ref.(*ssa.FieldAddr); ok && fa.Field == 0 {
							if sv := storedAt(fa, dd+1); sv != nil {
								return sv
							}
						}
					}
					return nil
				}
				if sv := storedAt(al, 0); sv != nil {
					return firstField(Val{sv, v.F, v.E}, d+1)
				}
				return v, false
			}
			cl, ok := firstField(Val{mi.X, rv.F, rv.E}, 0)
			if !ok {
				bad = "the proxy does not wrap the closer made from the caller's value"
				return
			}
			closes := asserted(spec.closer)
			switch x := cl.V.(type) {
			case *ssa.Extract:
				ta, isTA := x.Tuple.(*ssa.TypeAssert)
				if isTA && x.Index == 0 && typeName(ta.AssertedType) == spec.closer && p.R(Val{ta.X, cl.F, cl.E}).V == arg {
					sawSelf = true
					if closes != triTrue {
						badC = "the asserted value is used as the closer without the ok atom"
					}
					return
				}
			case *ssa.Call:
				sc := x.Call.StaticCallee()
				if sc != nil && len(x.Call.Args) == 1 && p.R(Val{x.Call.Args[0], cl.F, cl.E}).V == arg {
					if sc.String() == "io.NopCloser" {
						sawWrap = true
						if closes != triFalse {
							badC = "a wrapper is used although the argument already closes (its own Close would never be called)"
						}
						return
					}
					if w.modSet[sc] {
						// a closer-making helper beyond the inlining bound: the wrap is fine, its choice is not decided here
						badC = orStr(badC, "UNDECIDED: closer made by "+fnShort(sc)+" beyond the inlining bound")
						return
					}
				}
			case *ssa.MakeInterface:
				inner, ok := firstField(Val{x.X, cl.F, cl.E}, 0)
				if ok && p.R(inner).V == arg {
					sawWrap = true
					if closes != triFalse {
						badC = "a wrapper is used although the argument already closes (its own Close would never be called)"
						return
					}
					hasRF := w.Prog.MethodSets.MethodSet(x.X.Type()).Lookup(nil, "ReadFrom") != nil
					if hasRF != (asserted("io.ReaderFrom") == triTrue) {
						badC = "the no-op closer offers ReadFrom although the wrapped writer does not (or hides it although it does)"
					}
					return
				}
			}
			bad = "the proxy does not wrap the closer made from the caller's value"
		})
		if over {
			r.Undecided("C19.P-CTOR", spec.name, w.pos(fn.Pos()), "path cap")
			continue
		}
		r.Check(bad == "" && nP > 0 && len(saw) == 4, "C19.P-CTOR", spec.name, w.pos(fn.Pos()), "four flavours: fast path iff asserted on the caller's value; ewma iff flag", orStr(bad, fmt.Sprintf("only %d of the four proxy flavours are constructed", len(saw))))
		if strings.HasPrefix(badC, "UNDECIDED: ") {
			r.Undecided("C19.P-CLOSER", "closer wrapped by "+spec.name, w.pos(fn.Pos()), strings.TrimPrefix(badC, "UNDECIDED: "))
		} else if bad == "" {
			r.Check(badC == "" && sawSelf && sawWrap, "C19.P-CLOSER", "closer wrapped by "+spec.name, w.pos(fn.Pos()), "the argument itself when it closes, else a no-op closer around it (ReaderFrom preserved)", orStr(badC, "branch missing"))
		}
	}
	// Bar.ProxyReader / ProxyWriter pass len(ewmaDecorators) != 0
	for _, spec := range []struct{ api, ctor string }{{"mpb.(*Bar).ProxyReader", "mpb.newProxyReader"}, {"mpb.(*Bar).ProxyWriter", "mpb.newProxyWriter"}} {
		clo, off := w.apiClosure(r, spec.api)
		ctor := w.Func(spec.ctor)
		if clo == nil || ctor == nil {
			continue
		}
		ok := false
		for _, b := range clo.Blocks {
			for _, in := range b.Instrs {
				c, isC := in.(*ssa.Call)
				if !isC || c.Call.StaticCallee() != ctor || len(c.Call.Args) != 3 {
					continue
				}
				okArg := w.isParamOf(c.Call.Args[0], off.Fn, 1)
				okBar := w.isParamOf(c.Call.Args[1], off.Fn, 0)
				okFlag := false
				if bin, isB := c.Call.Args[2].(*ssa.BinOp); isB && bin.Op == token.NEQ {
					if lc, isL := bin.X.(*ssa.Call); isL && isBuiltinCall(&lc.Call, "len") && isLoad(Val{V: lc.Call.Args[0]}, tBState, "ewmaDecorators") {
						if k, isK := constInt(bin.Y); isK && k == 0 {
							okFlag = true
						}
					}
				}
				ok = okArg && okBar && okFlag
			}
		}
		r.Check(ok, "C19.P-API", "API:"+spec.api, w.pos(off.Fn.Pos()), "wraps the caller's value for this bar; ewma iff the bar has moving-average decorators", "the proxy is not built from (the caller's value, this bar, len(ewmaDecorators) != 0)")
	}
	// Close promoted through the embedded interface
	for _, nt := range proxyTypes {
		ms := w.Prog.MethodSets.MethodSet(nt)
		sel := ms.Lookup(w.Mpb.Pkg, "Close")
		if sel == nil {
			sel = ms.Lookup(nil, "Close")
		}
		construct := "Close of " + nt.Obj().Name()
		if sel == nil {
			r.Violated("C19.P-CLOSE", construct, w.pos(nt.Obj().Pos()), "a proxy type has no Close method")
			continue
		}
		// promoted: index path longer than 1 and the final method belongs to an interface (io.Closer via ReadCloser/WriteCloser)
		_, viaIface := sel.Recv().Underlying().(*types.Struct)
		obj := sel.Obj().(*types.Func)
		recvT := obj.Type().(*types.Signature).Recv().Type()
		_, isIface := recvT.Underlying().(*types.Interface)
		r.Check(len(sel.Index()) > 1 && isIface && viaIface, "C19.P-CLOSE", construct, w.pos(nt.Obj().Pos()), "promoted from the embedded ReadCloser/WriteCloser", "Close is declared on the proxy type instead of being forwarded to the wrapped value")
	}
	r.Floor("C19.P-CLOSE", 8, "proxy types")
	ruleTimeConservation(w, r, "C19")
	ruleSamplesReach(w, r, "C19")
	ruleUnwrap(w, r, "C19")
	ruleLoopVarCapture(w, r, "C19.LOOPVAR")
}

// proxyMethodFlavour: "ewma" / "plain" when method name of type t (declared or promoted) hands its
// byte count to the bar's Ewma / plain increment; "" when t has no such method or it accounts nothing.
func (w *World) proxyMethodFlavour(t types.Type, name string) string {
	sel := w.Prog.MethodSets.MethodSet(t).Lookup(nil, name)
	if sel == nil {
		return ""
	}
	fn := w.Prog.MethodValue(sel)
	for i := 0; i < 4 && fn != nil && fn.Synthetic != ""; i++ {
		// promotion / pointer wrappers: the method they forward to
		var next *ssa.Function
		for _, b := range fn.Blocks {
			for _, in := range b.Instrs {
				if c, ok := in.(*ssa.Call); ok {
					if sc := c.Call.StaticCallee(); sc != nil && sc.Name() == name {
						next = sc
					}
				}
			}
		}
		fn = next
	}
	if fn == nil || fn.Blocks == nil || fn.Pkg != w.Mpb {
		return "" // e.g. promoted from the wrapped interface value: not an accounting method
	}
	out := ""
	for _, f := range sortedFns(w.unit(fn)) {
		for _, b := range f.Blocks {
			for _, in := range b.Instrs {
				c, ok := in.(*ssa.Call)
				if !ok {
					continue
				}
				sc := c.Call.StaticCallee()
				if sc == nil || sc.Signature.Recv() == nil || typeName(sc.Signature.Recv().Type()) != tBar {
					continue
				}
				switch sc.Name() {
				case "EwmaIncrBy", "EwmaIncrInt64":
					out = "ewma"
				case "IncrBy", "IncrInt64":
					if out == "" {
						out = "plain"
					}
				}
			}
		}
	}
	return out
}

// ruleProxyForward (P-FORWARD): every accounting method of the proxy types forwards once, returns
// the wrapped call's results unchanged and hands the byte count - on every path - exactly once
// to the bar, the Ewma flavour with the duration measured around the wrapped call. Returns the proxy types.
func ruleProxyForward(w *World, r *Report, pfx string) []*types.Named {
	inc := map[string]bool{"IncrBy": true, "IncrInt64": true}
	ewmaInc := map[string]bool{"EwmaIncrBy": true, "EwmaIncrInt64": true}
	n := 0
	// proxy types: the struct types the proxy constructors return, and the structs they embed,
	// as far as they carry the bar they account to (found by shape, not by name)
	var proxyTypes []*types.Named
	isProxy := map[string]bool{}
	var addT func(t types.Type, d int)
	addT = func(t types.Type, d int) {
		nt, ok := t.(*types.Named)
		if !ok || d > 3 || isProxy[nt.Obj().Name()] {
			return
		}
		st, ok := nt.Underlying().(*types.Struct)
		if !ok || nt.Obj().Pkg() == nil || nt.Obj().Pkg() != w.Mpb.Pkg {
			return
		}
		hasBar := false
		var walk func(s *types.Struct, dd int)
		walk = func(s *types.Struct, dd int) {
			for i := 0; i < s.NumFields(); i++ {
				f := s.Field(i)
				if typeName(f.Type()) == tBar {
					hasBar = true
				}
				if es, ok := f.Type().Underlying().(*types.Struct); ok && f.Embedded() && dd < 3 {
					walk(es, dd+1)
				}
			}
		}
		walk(st, 0)
		if !hasBar {
			return
		}
		isProxy[nt.Obj().Name()] = true
		proxyTypes = append(proxyTypes, nt)
		for i := 0; i < st.NumFields(); i++ {
			if f := st.Field(i); f.Embedded() {
				addT(f.Type(), d+1)
			}
		}
	}
	for _, cn := range []string{"mpb.newProxyReader", "mpb.newProxyWriter"} {
		if c := w.Func(cn); c != nil {
			for _, f := range sortedFns(w.unit(c)) {
				for _, b := range f.Blocks {
					for _, in := range b.Instrs {
						if mi, ok := in.(*ssa.MakeInterface); ok {
							addT(mi.X.Type(), 0)
						}
					}
				}
			}
		}
	}
	sort.Slice(proxyTypes, func(i, j int) bool { return proxyTypes[i].Obj().Name() < proxyTypes[j].Obj().Name() })
	for _, fn := range w.ModFns {
		if fn.Pkg != w.Mpb || fn.Parent() != nil || fn.Signature.Recv() == nil || fn.Synthetic != "" {
			continue
		}
		rt := typeName(fn.Signature.Recv().Type())
		short := strings.TrimPrefix(rt, "mpb.")
		if !isProxy[short] {
			continue
		}
		switch fn.Name() {
		case "Read", "Write", "WriteTo", "ReadFrom":
		default:
			continue
		}
		n++
		construct := short + "." + fn.Name()
		bad := ""
		nP, _ := w.enumPaths(fn, pathOpts{InlineDepth: 2, Inline: w.helperInline(fn)}, func(p *Path) {
			if bad != "" {
				return
			}
			if p.Exit != "return" {
				return
			}
			var under, incs []Event
			var nowE, sinceE *Event
			for i := range p.Events {
				ev := p.Events[i]
				c, ok := ev.In.(*ssa.Call)
				if !ok {
					continue
				}
				if c.Call.IsInvoke() && c.Call.Method.Name() == fn.Name() {
					under = append(under, ev)
				}
				if sc := c.Call.StaticCallee(); sc != nil {
					if sc.Signature.Recv() != nil && typeName(sc.Signature.Recv().Type()) == tBar && (inc[sc.Name()] || ewmaInc[sc.Name()]) {
						incs = append(incs, ev)
					}
					if sc.String() == "time.Now" {
						nowE = &p.Events[i]
					}
					if sc.String() == "time.Since" {
						sinceE = &p.Events[i]
					}
				}
			}
			if len(under) != 1 {
				bad = fmt.Sprintf("%d calls of the wrapped value's %s on a path (must be exactly one)", len(under), fn.Name())
				return
			}
			uE := under[0]
			u := uE.In.(*ssa.Call)
			// parameter passed through
			if len(u.Call.Args) != 1 || p.stripR(p.val(uE, u.Call.Args[0])).V != ssa.Value(fn.Params[1]) {
				bad = "the caller's argument is not passed through to the wrapped value"
				return
			}
			// results unchanged
			if len(p.Ret) != 2 {
				bad = "does not return (n, err)"
				return
			}
			for i, rv := range p.Ret {
				ex, ok := p.R(rv).V.(*ssa.Extract)
				if !ok || ex.Tuple != ssa.Value(u) || ex.Index != i {
					bad = "the wrapped call's (n, err) is not returned unchanged"
					return
				}
			}
			// increment exactly once with n
			if len(incs) != 1 {
				bad = fmt.Sprintf("the bar is advanced %d times on a path (every byte count, also one returned together with an error or EOF, must be accounted exactly once)", len(incs))
				return
			}
			icE := incs[0]
			ic := icE.In.(*ssa.Call)
			if icE.Idx < uE.Idx {
				bad = "the bar is advanced before the data was transferred"
				return
			}
			nv, ok := p.stripR(p.val(icE, ic.Call.Args[1])).V.(*ssa.Extract)
			if !ok || nv.Tuple != ssa.Value(u) || nv.Index != 0 {
				bad = "the bar is advanced by something other than the byte count of the wrapped call"
				return
			}
			// the bar advanced is the proxy's own
			name := ic.Call.StaticCallee().Name()
			if ewmaInc[name] {
				// timed flavour: the duration is time.Since(start) with start = time.Now() taken before the wrapped call
				if nowE == nil || sinceE == nil || nowE.Idx > uE.Idx || sinceE.Idx < uE.Idx {
					bad = "the duration handed to the moving-average decorators is not measured around the wrapped call (Now before, Since after)"
					return
				}
				sc := sinceE.In.(*ssa.Call)
				if p.stripR(p.val(*sinceE, sc.Call.Args[0])).V != ssa.Value(nowE.In.(*ssa.Call)) || p.stripR(p.val(icE, ic.Call.Args[2])).V != ssa.Value(sc) {
					bad = "the duration handed on is not time.Since(start) of the start taken before the call"
				}
			}
		})
		r.Check(bad == "" && nP > 0, pfx+".P-FORWARD", construct, w.pos(fn.Pos()), "one wrapped call, results unchanged, n accounted once (timed for ewma)", bad)
	}
	r.Floor(pfx+".P-FORWARD", 8, "Read x2, WriteTo x2, Write x2, ReadFrom x2")

	return proxyTypes
}
