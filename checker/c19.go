package main

import (
	"fmt"
	"go/token"
	"go/types"
	"strings"

	"golang.org/x/tools/go/ssa"
)

func init() { checks["C19"] = checkC19 }

// C19 — proxy readers and writers are transparent and account every byte (E7).
func checkC19(w *World, r *Report) {
	r.Explain = "Wrapper-transparency rules (E7) on SSA paths plus method-set facts from go/types: each forwarding method of the proxy types makes exactly one call of the wrapped value's method with its parameters passed through, returns that call's (n, err) unchanged, and hands n exactly once on every path (including error paths) to the bar's increment entry point - the Ewma flavour with time.Since(start) where start = time.Now() was taken before the call, chosen exactly for the ewma proxy types; constructors return a type that has WriteTo/ReadFrom in its method set exactly on returns dominated by the successful assertion on the caller's value, and pick the ewma flavour from the constructor's flag, which the Bar methods compute as len(ewmaDecorators) != 0; Close of every proxy type is promoted from the embedded interface; toReadCloser/toWriteCloser return the argument itself when it already closes, and the no-op closer preserves ReaderFrom. With C09 for the bar side this is close to the whole property; io.NopCloser is trusted."
	r.Assume = append(r.Assume, "io.NopCloser forwards Read and offers WriteTo iff the wrapped reader does (standard library)", "C09 for the bar's counter rules")
	inc := map[string]bool{"IncrBy": true, "IncrInt64": true}
	ewmaInc := map[string]bool{"EwmaIncrBy": true, "EwmaIncrInt64": true}
	n := 0
	var proxyTypes []*types.Named
	for _, m := range w.Mpb.Members {
		t, ok := m.(*ssa.Type)
		if !ok {
			continue
		}
		nt, ok := t.Type().(*types.Named)
		if !ok {
			continue
		}
		name := nt.Obj().Name()
		if !(strings.Contains(strings.ToLower(name), "proxy")) {
			continue
		}
		proxyTypes = append(proxyTypes, nt)
	}
	for _, fn := range w.ModFns {
		if fn.Pkg != w.Mpb || fn.Parent() != nil || fn.Signature.Recv() == nil {
			continue
		}
		rt := typeName(fn.Signature.Recv().Type())
		short := strings.TrimPrefix(rt, "mpb.")
		if !strings.Contains(strings.ToLower(short), "proxy") {
			continue
		}
		switch fn.Name() {
		case "Read", "Write", "WriteTo", "ReadFrom":
		default:
			continue
		}
		n++
		isEwma := strings.HasPrefix(strings.ToLower(short), "ewma")
		construct := short + "." + fn.Name()
		bad := ""
		nP, _ := w.enumPaths(fn, pathOpts{}, func(p *Path) {
			if bad != "" {
				return
			}
			if p.Exit != "return" {
				return
			}
			var under []*ssa.Call
			var incs []*ssa.Call
			var nowC, sinceC *ssa.Call
			idx := map[*ssa.Call]int{}
			for _, ev := range p.Events {
				c, ok := ev.In.(*ssa.Call)
				if !ok {
					continue
				}
				idx[c] = ev.Idx
				if c.Call.IsInvoke() && c.Call.Method.Name() == fn.Name() {
					under = append(under, c)
				}
				if sc := c.Call.StaticCallee(); sc != nil {
					if sc.Signature.Recv() != nil && typeName(sc.Signature.Recv().Type()) == tBar && (inc[sc.Name()] || ewmaInc[sc.Name()]) {
						incs = append(incs, c)
					}
					if sc.String() == "time.Now" {
						nowC = c
					}
					if sc.String() == "time.Since" {
						sinceC = c
					}
				}
			}
			if len(under) != 1 {
				bad = fmt.Sprintf("%d calls of the wrapped value's %s on a path (must be exactly one)", len(under), fn.Name())
				return
			}
			u := under[0]
			// parameter passed through
			if len(u.Call.Args) != 1 || u.Call.Args[0] != ssa.Value(fn.Params[1]) {
				bad = "the caller's argument is not passed through to the wrapped value"
				return
			}
			// results unchanged
			if len(p.Ret) != 2 {
				bad = "does not return (n, err)"
				return
			}
			for i, rv := range p.Ret {
				ex, ok := rv.V.(*ssa.Extract)
				if !ok || ex.Tuple != ssa.Value(u) || ex.Index != i {
					bad = "the wrapped call's (n, err) is not returned unchanged"
					return
				}
			}
			// increment exactly once with n
			if len(incs) != 1 {
				bad = fmt.Sprintf("the bar is advanced %d times on a path (every byte count, also one returned together with an error or EOF, must be accounted exactly once)", len(incs))
				return
			}
			ic := incs[0]
			if idx[ic] < idx[u] {
				bad = "the bar is advanced before the data was transferred"
				return
			}
			nv, ok := stripConv(ic.Call.Args[1]).(*ssa.Extract)
			if !ok || nv.Tuple != ssa.Value(u) || nv.Index != 0 {
				bad = "the bar is advanced by something other than the byte count of the wrapped call"
				return
			}
			name := ic.Call.StaticCallee().Name()
			if isEwma {
				if !ewmaInc[name] {
					bad = "an ewma proxy advances the bar without feeding the moving-average decorators (they never see these bytes nor their duration)"
					return
				}
				if nowC == nil || sinceC == nil || idx[nowC] > idx[u] || idx[sinceC] < idx[u] {
					bad = "the duration handed to the moving-average decorators is not measured around the wrapped call (Now before, Since after)"
					return
				}
				if sinceC.Call.Args[0] != ssa.Value(nowC) || ic.Call.Args[2] != ssa.Value(sinceC) {
					bad = "the duration handed on is not time.Since(start) of the start taken before the call"
				}
			} else if !inc[name] {
				bad = "a plain proxy uses the ewma increment"
			}
		})
		r.Check(bad == "" && nP > 0, "C19.P-FORWARD", construct, w.pos(fn.Pos()), "one wrapped call, results unchanged, n accounted once (timed for ewma)", bad)
	}
	r.Floor("C19.P-FORWARD", 8, "Read x2, WriteTo x2, Write x2, ReadFrom x2")

	// the fast-path assertion inside WriteTo/ReadFrom methods is on the embedded interface value
	checkProxyAssertions(w, r, "C19.P-ASSERT")

	// constructors
	for _, spec := range []struct{ name, iface, fast string }{{"mpb.newProxyReader", "io.WriterTo", "WriteTo"}, {"mpb.newProxyWriter", "io.ReaderFrom", "ReadFrom"}} {
		fn := w.Func(spec.name)
		if fn == nil {
			r.Unresolved("anchor", spec.name, "not found")
			continue
		}
		bad := ""
		saw := map[string]bool{}
		nP, _ := w.enumPaths(fn, pathOpts{InlineDepth: 0}, func(p *Path) {
			if bad != "" || p.Exit != "return" || len(p.Ret) != 1 {
				return
			}
			mi, ok := p.Ret[0].V.(*ssa.MakeInterface)
			if !ok {
				bad = "constructor does not return a concrete proxy value"
				return
			}
			ct := mi.X.Type()
			has := w.Prog.MethodSets.MethodSet(ct).Lookup(nil, spec.fast) != nil
			// successful assertion on the caller's value on this path?
			asserted := tri(triUnknown)
			for _, a := range p.Atoms {
				c := p.cmpOf(a)
				if c.Op != token.ILLEGAL {
					continue
				}
				ex, ok := c.X.V.(*ssa.Extract)
				if !ok || ex.Index != 1 {
					continue
				}
				ta, ok := ex.Tuple.(*ssa.TypeAssert)
				if !ok || typeName(ta.AssertedType) != spec.iface {
					continue
				}
				if ta.X != ssa.Value(fn.Params[0]) {
					bad = "the fast-path capability is tested on a value other than the one the caller handed in"
					return
				}
				if c.Pol {
					asserted = triTrue
				} else {
					asserted = triFalse
				}
			}
			if asserted == triUnknown {
				bad = "a return does not depend on whether the wrapped value implements " + spec.iface
				return
			}
			if has != (asserted == triTrue) {
				bad = fmt.Sprintf("the proxy offers %s although the wrapped value %s (or the reverse): io.Copy would panic in the unchecked assertion or lose the fast path", spec.fast, map[bool]string{true: "does not implement it", false: "implements it"}[has])
				return
			}
			// ewma flavour from the flag
			flag := p.hasBool(-1, true, func(v Val) bool { return v.V == ssa.Value(fn.Params[2]) })
			noflag := p.hasBool(-1, false, func(v Val) bool { return v.V == ssa.Value(fn.Params[2]) })
			isE := strings.Contains(strings.ToLower(shortType(ct)), "ewma")
			if !(flag || noflag) || isE != flag {
				bad = "the ewma flavour of the proxy is not chosen by the constructor's flag"
				return
			}
			saw[fmt.Sprintf("%v/%v", has, isE)] = true
			// the proxy wraps the closer made from the caller's value and this bar
			okWrap := false
			var walk func(v ssa.Value, d int)
			seenW := map[ssa.Value]bool{}
			walk = func(v ssa.Value, d int) {
				if d > 40 || seenW[v] || okWrap {
					return
				}
				seenW[v] = true
				if c, ok := v.(*ssa.Call); ok && c.Call.StaticCallee() != nil && strings.HasPrefix(c.Call.StaticCallee().Name(), "to") && c.Call.Args[0] == ssa.Value(fn.Params[0]) {
					okWrap = true
				}
				if in, ok := v.(ssa.Instruction); ok {
					for _, op := range in.Operands(nil) {
						if *op != nil {
							walk(*op, d+1)
						}
					}
				}
				if ld, ok := v.(*ssa.UnOp); ok {
					if al, ok := ld.X.(*ssa.Alloc); ok {
						var stores func(addr ssa.Value, dd int)
						stores = func(addr ssa.Value, dd int) {
							if dd > 6 || addr.Referrers() == nil {
								return
							}
							for _, ref := range *addr.Referrers() {
								switch x := ref.(type) {
								case *ssa.FieldAddr:
									stores(x, dd+1)
								case *ssa.Store:
									if x.Addr == addr {
										walk(x.Val, d+1)
									}
								}
							}
						}
						stores(al, 0)
					}
				}
			}
			walk(mi.X, 0)
			if !okWrap {
				bad = "the proxy does not wrap the closer made from the caller's value"
			}
		})
		r.Check(bad == "" && nP > 0 && len(saw) == 4, "C19.P-CTOR", spec.name, w.pos(fn.Pos()), "four flavours: fast path iff asserted on the caller's value; ewma iff flag", orStr(bad, fmt.Sprintf("only %d of the four proxy flavours are constructed", len(saw))))
	}
	// Bar.ProxyReader / ProxyWriter pass len(ewmaDecorators) != 0
	for _, spec := range []struct{ api, ctor string }{{"mpb.(*Bar).ProxyReader", "mpb.newProxyReader"}, {"mpb.(*Bar).ProxyWriter", "mpb.newProxyWriter"}} {
		clo, off := w.apiClosure(r, spec.api)
		ctor := w.Func(spec.ctor)
		if clo == nil || ctor == nil {
			continue
		}
		ok := false
		for _, b := range clo.Blocks {
			for _, in := range b.Instrs {
				c, isC := in.(*ssa.Call)
				if !isC || c.Call.StaticCallee() != ctor || len(c.Call.Args) != 3 {
					continue
				}
				okArg := w.isParamOf(c.Call.Args[0], off.Fn, 1)
				okBar := w.isParamOf(c.Call.Args[1], off.Fn, 0)
				okFlag := false
				if bin, isB := c.Call.Args[2].(*ssa.BinOp); isB && bin.Op == token.NEQ {
					if lc, isL := bin.X.(*ssa.Call); isL && isBuiltinCall(&lc.Call, "len") && isLoad(Val{V: lc.Call.Args[0]}, tBState, "ewmaDecorators") {
						if k, isK := constInt(bin.Y); isK && k == 0 {
							okFlag = true
						}
					}
				}
				ok = okArg && okBar && okFlag
			}
		}
		r.Check(ok, "C19.P-API", "API:"+spec.api, w.pos(off.Fn.Pos()), "wraps the caller's value for this bar; ewma iff the bar has moving-average decorators", "the proxy is not built from (the caller's value, this bar, len(ewmaDecorators) != 0)")
	}
	// Close promoted through the embedded interface
	for _, nt := range proxyTypes {
		ms := w.Prog.MethodSets.MethodSet(nt)
		sel := ms.Lookup(w.Mpb.Pkg, "Close")
		if sel == nil {
			sel = ms.Lookup(nil, "Close")
		}
		construct := "Close of " + nt.Obj().Name()
		if sel == nil {
			r.Violated("C19.P-CLOSE", construct, w.pos(nt.Obj().Pos()), "a proxy type has no Close method")
			continue
		}
		// promoted: index path longer than 1 and the final method belongs to an interface (io.Closer via ReadCloser/WriteCloser)
		_, viaIface := sel.Recv().Underlying().(*types.Struct)
		obj := sel.Obj().(*types.Func)
		recvT := obj.Type().(*types.Signature).Recv().Type()
		_, isIface := recvT.Underlying().(*types.Interface)
		r.Check(len(sel.Index()) > 1 && isIface && viaIface, "C19.P-CLOSE", construct, w.pos(nt.Obj().Pos()), "promoted from the embedded ReadCloser/WriteCloser", "Close is declared on the proxy type instead of being forwarded to the wrapped value")
	}
	r.Floor("C19.P-CLOSE", 8, "proxy types")
	// toReadCloser / toWriteCloser (with whatever helpers they use, inlined): the argument itself when it
	// already closes; otherwise a closer around it that offers ReadFrom exactly when the argument does
	for _, spec := range []struct{ name, iface string }{{"mpb.toReadCloser", "io.ReadCloser"}, {"mpb.toWriteCloser", "io.WriteCloser"}} {
		fn := w.Func(spec.name)
		if fn == nil {
			r.Unresolved("anchor", spec.name, "not found")
			continue
		}
		bad := ""
		sawSelf, sawWrap := false, false
		arg := ssa.Value(fn.Params[0])
		w.enumPaths(fn, pathOpts{InlineDepth: 2, Inline: func(_ ssa.CallInstruction, c *ssa.Function) bool { return c.Pkg == w.Mpb }}, func(p *Path) {
			if bad != "" || p.Exit != "return" || len(p.Ret) != 1 {
				return
			}
			rv := p.Ret[0]
			asserted := func(iface string) tri {
				out := tri(triUnknown)
				for _, a := range p.Atoms {
					c := p.cmpOf(a)
					if c.Op != token.ILLEGAL {
						continue
					}
					ex, ok := c.X.V.(*ssa.Extract)
					if !ok || ex.Index != 1 {
						continue
					}
					ta, ok := ex.Tuple.(*ssa.TypeAssert)
					if !ok || typeName(ta.AssertedType) != iface {
						continue
					}
					if p.R(Val{ta.X, c.X.F, c.X.E}).V != arg {
						continue
					}
					if c.Pol {
						out = triTrue
					} else {
						out = triFalse
					}
				}
				return out
			}
			if ex, ok := rv.V.(*ssa.Extract); ok && ex.Index == 0 {
				if ta, ok := ex.Tuple.(*ssa.TypeAssert); ok && typeName(ta.AssertedType) == spec.iface && p.R(Val{ta.X, rv.F, rv.E}).V == arg {
					sawSelf = true
					if asserted(spec.iface) != triTrue {
						bad = "the asserted value is returned without the ok atom"
					}
					return
				}
			}
			if asserted(spec.iface) != triFalse {
				bad = "a wrapper is returned although the argument already closes (its own Close would never be called)"
				return
			}
			switch x := rv.V.(type) {
			case *ssa.Call: // io.NopCloser(r)
				if len(x.Call.Args) == 1 && p.R(Val{x.Call.Args[0], rv.F, rv.E}).V == arg {
					sawWrap = true
					return
				}
			case *ssa.MakeInterface:
				sawWrap = true
				has := w.Prog.MethodSets.MethodSet(x.X.Type()).Lookup(nil, "ReadFrom") != nil
				if has != (asserted("io.ReaderFrom") == triTrue) {
					bad = "the no-op closer offers ReadFrom although the wrapped writer does not (or hides it although it does)"
				}
				return
			}
			bad = "returns neither the argument itself nor a no-op closer around it"
		})
		r.Check(bad == "" && sawSelf && sawWrap, "C19.P-CLOSER", spec.name, w.pos(fn.Pos()), "the argument itself when it closes, else a no-op closer around it (ReaderFrom preserved)", orStr(bad, "branch missing"))
	}
	_ = n
	ruleTimeConservation(w, r, "C19")
	ruleSamplesReach(w, r, "C19")
	ruleUnwrap(w, r, "C19")
	ruleLoopVarCapture(w, r, "C19.LOOPVAR")
}
