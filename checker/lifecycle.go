package main

import (
	"fmt"
	"go/token"
	"go/types"
	"sort"
	"strings"

	"golang.org/x/tools/go/ssa"
)

func init() {
	checks["C01"] = checkC01
	checks["C03"] = checkC03
	checks["C13"] = checkC13
	checks["C14"] = checkC14
	checks["C15"] = checkC15
}

// ruleTriggerCancels (C01.R2a): the completion trigger on every path either cancels the bar or
// spawns the early refresh, the latter only under autoRefresh.
func ruleTriggerCancels(w *World, r *Report, pfx string) {
	rule := pfx + ".T-TRIGGER"
	trig := w.triggerFn()
	if trig == nil {
		r.Unresolved("anchor", "trigger function", "not found")
		return
	}
	bad := ""
	n, _ := w.enumPaths(trig, pathOpts{}, func(p *Path) {
		cancels, spawns := 0, 0
		for _, ev := range p.Events {
			switch x := ev.In.(type) {
			case *ssa.Call:
				if isLoad(Val{V: x.Call.Value}, tBar, "cancel") {
					cancels++
				}
			case *ssa.Go:
				for _, t := range w.goTargets(x) {
					if w.fnSendsOn(t, "bState.renderReq") || w.fnSendsOn(t, "pState.renderReq") {
						spawns++
					}
				}
			}
		}
		auto := p.hasBool(-1, true, loadOf(tBState, "autoRefresh"))
		switch {
		case cancels+spawns != 1:
			bad = fmt.Sprintf("a path of the completion trigger cancels %d times and spawns the early refresh %d times (exactly one of the two is needed: otherwise the bar goroutine never exits / Wait waits for the next tick forever)", cancels, spawns)
		case spawns == 1 && !auto:
			bad = "the early refresh is spawned without autoRefresh: in a non-refreshing container nobody receives its render requests and the bar is never cancelled"
		case cancels == 1 && auto:
			bad = "under autoRefresh the bar is cancelled at once: its final state would never be rendered"
		}
	})
	r.Check(bad == "" && n > 0, rule, "completion trigger", w.pos(trig.Pos()), "cancel (no refresh) or early refresh (autoRefresh) on every path", bad)
	// early refresh: gives up when another bar is running, else keeps requesting renders until its bar is cancelled
	for _, g := range w.Roles().GoSites {
		if g.Parent() != trig {
			continue
		}
		for _, t := range w.goTargets(g) {
			okLoop := false
			for _, op := range w.Comm().byFn[t] {
				if op.Kind == "select" && op.Blocking && inLoop(op.Instr) {
					hasSend, hasEsc := false, false
					for _, s := range op.States {
						if s.Dir == types.SendOnly && (s.Class.has("bState.renderReq") || s.Class.has("pState.renderReq")) {
							hasSend = true
						}
						if s.Dir == types.RecvOnly && s.Class.only("Done(Bar.ctx)") {
							hasEsc = true
						}
					}
					okLoop = hasSend && hasEsc
				}
			}
			r.Check(okLoop, rule, "early refresh loop", w.pos(t.Pos()), "requests renders until the bar's context is done", "the early refresh does not keep requesting render cycles until its bar is cancelled: the second terminal frame (which cancels the bar) may never be produced")
		}
	}
}

// ruleRenderTerminal (C01.R2b, C03b): in the render closure, terminal frames carry the shutdown
// counter (assigned before it is incremented) and the drop flags; non-terminal frames do not.
func ruleRenderTerminal(w *World, r *Report, pfx string) {
	rule := pfx + ".T-RENDER"
	rc := w.renderClosure()
	pred := w.completionPredicate()
	if rc == nil || pred == nil {
		r.Unresolved("anchor", "render closure / predicate", "not found")
		return
	}
	isPred := func(v Val) bool {
		c, ok := v.V.(*ssa.Call)
		return ok && c.Call.StaticCallee() == pred
	}
	bad := ""
	var wit []string
	sawTerm, sawRun, sawErr := false, false, false
	n, over := w.enumPaths(rc, pathOpts{InlineDepth: 2, Inline: w.helperInline(rc)}, func(p *Path) {
		if bad != "" || p.Exit != "return" {
			return
		}
		stF := p.storesTo(tFrame, "shutdown")
		stS := p.storesTo(tBState, "shutdown")
		stRm := p.storesTo(tFrame, "rmOnComplete")
		stNp := p.storesTo(tFrame, "noPop")
		stErr := p.storesTo(tFrame, "err")
		aborted := p.hasBool(-1, true, loadOf(tBState, "aborted"))
		notAborted := p.hasBool(-1, false, loadOf(tBState, "aborted"))
		completed := p.hasBool(-1, true, isPred)
		notCompleted := p.hasBool(-1, false, isPred)
		switch {
		case aborted || completed:
			sawTerm = true
			okAssign := len(stF) == 1 && isLoad(Val{V: stripConv(stF[0].Val.V)}, tBState, "shutdown")
			okInc := false
			if len(stS) == 1 {
				okInc = incrOf(stS[0].Val.V, tBState, "shutdown")
			}
			switch {
			case !okAssign:
				bad = "a terminal frame does not carry the bar's shutdown counter"
			case !okInc:
				bad = "the shutdown counter is not advanced by one per terminal frame: flush never sees the cancelling value and the bar is never cancelled"
			case p.idxOfVal(stF[0].Val) < 0 || p.idxOfVal(stF[0].Val) > stS[0].Idx:
				// (the value that goes into the frame must have been read before the increment; where the
				// frame field itself is written - e.g. after a helper returned both - does not matter)
				bad = "the counter is incremented before it is copied into the frame: the bar is cancelled at its first terminal frame, before its final state (on-complete decorations) was drawn"
			case len(stRm) != 1 || !isLoad(Val{V: stripConv(stRm[0].Val.V)}, tBState, "rmOnComplete"):
				bad = "a terminal frame does not carry the remove-on-complete flag"
			case len(stNp) != 1 || !isLoad(Val{V: stripConv(stNp[0].Val.V)}, tBState, "noPop"):
				bad = "a terminal frame does not carry the no-pop flag"
			}
		case notAborted && notCompleted:
			sawRun = true
			if len(stF)+len(stS)+len(stRm)+len(stNp) != 0 {
				bad = "a frame of a running bar touches the shutdown counter or the drop flags"
			}
		default:
			// draw-error path: frame.err <- the draw error, buffers reset, nothing else
			sawErr = true
			if len(stF)+len(stS) != 0 {
				bad = "the draw-error path touches the shutdown counter"
			}
			if len(stErr) != 1 {
				bad = "the draw-error path does not record the error in the frame"
			}
		}
		if bad != "" {
			wit = p.describe()
		}
	})
	if over {
		r.Undecided(rule, "render closure", w.pos(rc.Pos()), "path cap")
		return
	}
	r.Check(bad == "" && n > 0 && sawTerm && sawRun && sawErr, rule, "render closure", w.pos(rc.Pos()), fmt.Sprintf("%d paths: terminal frames carry counter (assigned, then incremented) and flags; running frames do not", n), orStr(bad, "terminal / running / error branch missing"), wit...)
}

// C01 — Wait returns.
func checkC01(w *World, r *Report) {
	r.Explain = "Liveness skeleton of the channel program, decided by communication-shape rules over the SSA-derived table of all channel/WaitGroup/go operations (classes by origin tracing) plus path enumeration: every blocking operation falls under a schema that cannot block forever once its peers follow theirs; wait groups are paired; terminal state implies the cancel chain (trigger cancels or spawns the early refresh; terminal frames carry and advance the shutdown counter; flush cancels at the cancelling frame); one frame per render request; iterators are closed by their producer; heap requests are FIFO from one goroutine and never issued while iterating; new bars are announced to the width matrices; width exchanges are balanced (one per Decor, Decor always called); heap protocol table agrees; replies are paired; created bars are pushed or parked. The two recorded C17 findings (lost successor) are known findings of this property too. Decides necessary conditions: absence of deadlock as such (a global property of all schedules) is not decided, nor are user callbacks that block."
	r.Assume = append(r.Assume, "fair scheduling of goroutines", "user fillers/decorators/writers return", "runtime channel semantics")
	livenessAll(w, r, "C01")
	ruleOptionTable(w, r, "C01", map[string][3]string{"WithWaitGroup": {tPState, "uwg", "param"}})
	ruleTriggerCancels(w, r, "C01")
	ruleRenderTerminal(w, r, "C01")
	fi := w.analyseFlush()
	ruleTerminalCancel(w, r, "C01", fi)
	ruleFlushOutcome(w, r, "C01", fi)
	ruleSuccessorSwap(w, r, "C01", fi)
	ruleAddPushesOrParks(w, r, "C01")
	ruleParkingSound(w, r, "C01")
	ruleHeapIteration(w, r, "C01")
	checkHeapSendDiscipline(w, r, "C01.R5")
	checkHeapTable(w, r, "C01.R8")
	ruleFormatExchange(w, r, "C01")
	ruleInitChannel(w, r, "C01")
	ruleSyncAPI(w, r, "C01")
	ruleDistributor(w, r, "C01")
	ruleDecorExchange(w, r, "C01")
	ruleDecorAlwaysCalled(w, r, "C01")
	ruleSyncArm(w, r, "C01")
	ruleFinalRender(w, r, "C01")
	checkNoRenderAfterError(w, r, "C01.R5d")
	ruleStateAgrees(w, r, "C01")
	ruleFlushDrainsPending(w, r, "C01", fi)
	if trig, pred := w.triggerFn(), w.completionPredicate(); trig != nil && pred != nil {
		opts := pathOpts{InlineDepth: 3, Inline: noInline(trig, pred)}
		ruleClamp(w, r, "C01", trig, pred, opts)
		rulePredicate(w, r, "C01", trig, pred, opts)
	}
	ruleWrappersUnwrap(w, r, "C01")
	ruleLocksReleased(w, r, "C01.L-UNLOCK")
}

// ruleFinalRender (C03c): on the container's done arm, without a remembered error and under
// autoRefresh, a render is reached before the end request and repeated while the heap reports change.
func ruleFinalRender(w *World, r *Report, pfx string) {
	rule := pfx + ".T-FINAL"
	cont, render := w.containerLoop(), w.renderFn()
	if cont == nil || render == nil {
		r.Unresolved("anchor", "container loop / render", "not found")
		return
	}
	var sel *ssa.Select
	var doneArm *ssa.BasicBlock
	for _, op := range w.Comm().byFn[cont] {
		if op.Kind != "select" {
			continue
		}
		for i, s := range op.States {
			if s.Dir == types.RecvOnly && s.Class.only("Progress.done") {
				sel = op.Instr.(*ssa.Select)
				doneArm = selArm(sel, i)
				if doneArm == nil && i == len(op.States)-1 {
					doneArm = selectArms(sel)[-1-(i-1)]
				}
			}
		}
	}
	if doneArm == nil {
		r.Undecided(rule, "container loop done arm", w.pos(cont.Pos()), "not found")
		return
	}
	_, _, endCmd := w.heapArms()
	var endFn, stateFn *ssa.Function
	for fn, cmd := range w.heapSenders() {
		if cmd == endCmd {
			endFn = fn
		}
	}
	// the state request: the sender whose payload is a chan<- bool
	for fn := range w.heapSenders() {
		if fn.Signature.Params().Len() == 1 {
			if ch, ok := fn.Signature.Params().At(0).Type().Underlying().(*types.Chan); ok && types.Identical(ch.Elem(), types.Typ[types.Bool]) {
				stateFn = fn
			}
		}
	}
	bad := ""
	sawFinal := false
	var errPhi ssa.Value
	n, over := w.enumPaths(cont, pathOpts{Start: doneArm, InlineDepth: 2, Inline: noInline(render, stateFn, endFn)}, func(p *Path) {
		if bad != "" || p.Exit != "return" {
			return
		}
		renders, states, ends := 0, 0, 0
		for _, ev := range p.Events {
			if c, ok := ev.In.(*ssa.Call); ok {
				switch c.Call.StaticCallee() {
				case render:
					renders++
				case stateFn:
					states++
				case endFn:
					ends++
				}
			}
		}
		if ends != 1 {
			bad = fmt.Sprintf("the done arm sends the end request %d times on a path", ends)
			return
		}
		auto := p.hasBool(-1, true, loadOf(tPState, "autoRefresh"))
		noErr := false
		for _, a := range p.Atoms {
			c := p.cmpOf(a)
			if c.Op == token.EQL && isNilConst(c.Y.V) {
				if _, isPhi := c.X.V.(*ssa.Phi); isPhi && types.Identical(c.X.V.Type(), types.Universe.Lookup("error").Type()) {
					noErr = true
					errPhi = c.X.V
				}
			}
		}
		if auto && noErr {
			sawFinal = true
			if renders < 1 {
				bad = "on done, with auto refresh and no error, the end request is reached without a final render: the last increments and on-complete decorations are never drawn, text accepted by Write is lost"
			}
		} else if renders != 0 {
			bad = "a render is performed at done although an error was recorded or the container does not refresh"
		}
	})
	_ = errPhi
	if over {
		r.Undecided(rule, "container loop done arm", w.instrPos(doneArm.Instrs[0]), "path cap")
		return
	}
	r.Check(bad == "" && n > 0 && sawFinal, rule, "container loop done arm", w.instrPos(doneArm.Instrs[0]), fmt.Sprintf("%d paths: final render before the end request exactly under autoRefresh && no error", n), orStr(bad, "no final-render path"))
	// the final loop repeats while the heap reports change: a loop containing render and the state request whose
	// continuation condition is the received reply
	okLoop := false
	cands := []*ssa.Function{cont}
	rl := w.renderLike()
	for h := range w.contHelpers(cont, rl) {
		// helpers called from the done arm
		for _, site := range w.callers[h] {
			if in, ok := site.(ssa.Instruction); ok && in.Parent() == cont && (doneArm == in.Block() || doneArm.Dominates(in.Block())) {
				cands = append(cands, h)
			}
		}
	}
	for _, f := range cands {
		for _, l := range naturalLoops(f) {
			if f == cont && !doneArm.Dominates(l.Header) {
				continue
			}
			hasRender, hasState, hasRecv := false, false, false
			for b := range l.Blocks {
				for _, in := range b.Instrs {
					if c, ok := in.(*ssa.Call); ok {
						if c.Call.StaticCallee() == render {
							hasRender = true
						}
						if c.Call.StaticCallee() == stateFn && stateFn != nil {
							hasState = true
						}
					}
					if u, ok := in.(*ssa.UnOp); ok && u.Op == token.ARROW {
						// the received bool decides whether to continue
						for _, ref := range *u.Referrers() {
							if ifi, ok := ref.(*ssa.If); ok && l.Blocks[ifi.Block().Succs[0]] && !l.Blocks[ifi.Block().Succs[1]] {
								hasRecv = true
							}
						}
					}
				}
			}
			if hasRender && hasState && hasRecv {
				okLoop = true
			}
		}
	}
	r.Check(okLoop, rule, "final render loop", w.instrPos(doneArm.Instrs[0]), "render, ask the heap for changes, repeat while it reports some", "the final render is not repeated while the heap reports changes: a bar that finished during the last cycle is not redrawn in its terminal state and never cancelled")
}

// ruleFlushWrites (C03/C04/C15.R1): every returning path of flush returns either a recorded
// error (with the atom err != nil) or the result of the writer's Flush; errors of ReadFrom are returned.
func ruleFlushWrites(w *World, r *Report, pfx string) {
	rule := pfx + ".W-FLUSH"
	fl := w.flushFn()
	if fl == nil {
		r.Unresolved("anchor", "flush", "not found")
		return
	}
	var rangeHdr *ssa.BasicBlock
	for _, op := range w.Comm().byFn[fl] {
		if op.Kind == "recv" && op.CommaOk {
			rangeHdr = op.Instr.Block()
		}
	}
	if rangeHdr == nil {
		r.Undecided(rule, "flush", w.pos(fl.Pos()), "collection loop not found")
		return
	}
	after := rangeHdr.Succs[1]
	bad := ""
	sawFlush := false
	n, over := w.enumPaths(fl, pathOpts{Start: after, InlineDepth: 0}, func(p *Path) {
		if bad != "" || p.Exit != "return" || len(p.Ret) != 1 {
			return
		}
		rv := p.Ret[0]
		flushes := 0
		var flushCall *ssa.Call
		for _, ev := range p.Events {
			if c, ok := ev.In.(*ssa.Call); ok {
				if sc := c.Call.StaticCallee(); sc != nil && sc.Name() == "Flush" && sc.Pkg == w.Cw {
					flushes++
					flushCall = c
				}
			}
		}
		if flushes > 1 {
			bad = "flush calls the writer's Flush twice"
			return
		}
		if flushes == 1 {
			sawFlush = true
			if rv.V != ssa.Value(flushCall) {
				bad = "the result of the writer's Flush is not returned (an output error would be dropped)"
			}
			return
		}
		// no Flush: must return a non-nil error known on the path
		if isNilConst(rv.V) {
			bad = "flush returns nil without flushing the writer: the frame (or the pending cursor-up/erase of the previous frame) never reaches the output"
			return
		}
		if !p.hasCmp(-1, token.NEQ, func(v Val) bool { return v.V == rv.V }, isNilVal) {
			bad = "flush returns without flushing on a path that does not carry a non-nil error"
		}
	})
	if over {
		r.Undecided(rule, "flush tail", w.pos(fl.Pos()), "path cap")
		return
	}
	r.Check(bad == "" && n > 0 && sawFlush, rule, "flush tail", w.instrPos(after.Instrs[0]), fmt.Sprintf("%d paths: Flush result returned, or a recorded non-nil error", n), orStr(bad, "no path reaches the writer's Flush"))
	// ReadFrom errors are returned
	for _, b := range fl.Blocks {
		for _, in := range b.Instrs {
			c, ok := in.(*ssa.Call)
			if !ok {
				continue
			}
			sc := c.Call.StaticCallee()
			if sc == nil || sc.Name() != "ReadFrom" {
				continue
			}
			okErr := false
			for _, ref := range *c.Referrers() {
				if ex, ok := ref.(*ssa.Extract); ok && ex.Index == 1 {
					for _, r2 := range *ex.Referrers() {
						if _, ok := r2.(*ssa.Return); ok {
							okErr = true
						}
					}
				}
			}
			r.Check(okErr, rule, "row write error", w.instrPos(in), "returned", "an error writing a row into the buffer is dropped")
		}
	}
}

// ruleWaitChain (C03a, C14): Wait = bwg.Wait, Shutdown, optional user group; Shutdown = cancel, pwg.Wait.
func ruleWaitChain(w *World, r *Report, pfx string) {
	rule := pfx + ".W-WAIT"
	wait, shut := w.Func("mpb.(*Progress).Wait"), w.Func("mpb.(*Progress).Shutdown")
	if wait == nil || shut == nil {
		r.Unresolved("anchor", "Progress.Wait / Shutdown", "not found")
		return
	}
	bad := ""
	inMpb := func(_ ssa.CallInstruction, c *ssa.Function) bool { return c.Pkg == w.Mpb }
	isCancel := func(p *Path, ev Event) bool {
		c, ok := ev.In.(*ssa.Call)
		return ok && isLoad(Val{V: stripConv(p.val(ev, c.Call.Value).V)}, "mpb.Progress", "cancel")
	}
	// Wait (Shutdown and private helpers inlined): bars first, then cancel, then the container goroutine
	w.enumPaths(wait, pathOpts{InlineDepth: 3, Inline: inMpb}, func(p *Path) {
		iB, iC, iS := -1, -1, -1
		for _, ev := range p.Events {
			if o := w.Comm().byIn[ev.In]; o != nil && o.Kind == "wg.Wait" && o.Class.has("wg:Progress.bwg") {
				iB = ev.Idx
			}
			if isCancel(p, ev) && iC < 0 {
				iC = ev.Idx
			}
			if o := w.Comm().byIn[ev.In]; o != nil && o.Kind == "wg.Wait" && o.Class.has("wg:Progress.pwg") {
				iS = ev.Idx
			}
		}
		if iB < 0 || iC < 0 || iS < 0 || !(iB < iC && iC < iS) {
			bad = "Wait does not wait for the bars and then shut the container down"
		}
		// the user's wait group (WithWaitGroup) is waited for whenever one was given
		iU := -1
		for _, ev := range p.Events {
			if o := w.Comm().byIn[ev.In]; o != nil && o.Kind == "wg.Wait" && o.Class.has("wg:Progress.uwg") {
				iU = ev.Idx
			}
		}
		given := p.hasCmp(-1, token.NEQ, loadOf("mpb.Progress", "uwg"), isNilVal)
		none := p.hasCmp(-1, token.EQL, loadOf("mpb.Progress", "uwg"), isNilVal)
		switch {
		case given && iU < 0:
			bad = orStr(bad, "Wait returns without waiting for the wait group given with WithWaitGroup")
		case given && iS >= 0 && iU < iS:
			// the goroutines of that group may themselves wait for the shutdown (the shutdown notifier is
			// served by the container's end): waiting for them first never returns
			bad = orStr(bad, "Wait waits for the user's wait group before the container has been shut down")
		case !given && !none:
			bad = orStr(bad, "Wait does not look at the user's wait group")
		}
	})
	r.Check(bad == "", rule, "Progress.Wait", w.pos(wait.Pos()), "bwg.Wait then Shutdown, then the user's group if any", bad)
	bad = ""
	w.enumPaths(shut, pathOpts{InlineDepth: 3, Inline: inMpb}, func(p *Path) {
		iC, iW := -1, -1
		for _, ev := range p.Events {
			if isCancel(p, ev) {
				iC = ev.Idx
			}
			if o := w.Comm().byIn[ev.In]; o != nil && o.Kind == "wg.Wait" && o.Class.has("wg:Progress.pwg") {
				iW = ev.Idx
			}
		}
		if iC < 0 || iW < 0 || iC > iW {
			bad = "Shutdown does not cancel the container and then wait for the container goroutine (bytes could be written after Wait returned)"
		}
	})
	r.Check(bad == "", rule, "Progress.Shutdown", w.pos(shut.Pos()), "cancel then pwg.Wait", bad)
}

// C03 — the last frame shows every bar in its final state.
func checkC03(w *World, r *Report) {
	r.Explain = "Structural clauses of the last-frame property: (a) no byte after Wait: only the container role uses the output writer, Wait = bwg.Wait then Shutdown = cancel then pwg.Wait, pwg.Done deferred in the container loop; (b) a terminal bar is drawn in its terminal state before it is cancelled: the shutdown counter is copied into the frame before it is incremented and flush cancels at the cancelling value, not earlier; (c) on done, under auto refresh and no error, a final render precedes the end request and is repeated while the heap reports change; every non-error path of flush ends in the writer's Flush; (d) final values survive the bar's exit (publish before close; render and getters fall back to the published state); completed means current == total with clamping on every write. Decides these on all paths; frame contents and convergence of the final loop are not decided; manual-refresh containers are excluded (frames are the user's)."
	r.Assume = append(r.Assume, "C01 (render cycles keep coming until bars are cancelled)", "the cwriter buffer is flushed by Flush (bytes.Buffer.WriteTo)")
	checkWriterConfinement(w, r, "C03.WRITER")
	ruleWaitChain(w, r, "C03")
	ruleOptionTable(w, r, "C03", map[string][3]string{"WithWaitGroup": {tPState, "uwg", "param"}, "WithOutput": {tPState, "output", "paramOrDefault"}})
	checkWaitGroups(w, r, "C03")
	ruleRenderTerminal(w, r, "C03")
	fi := w.analyseFlush()
	ruleTerminalCancel(w, r, "C03", fi)
	ruleFlushOutcome(w, r, "C03", fi)
	ruleFinalRender(w, r, "C03")
	ruleFlushWrites(w, r, "C03")
	checkGetterFinality(w, r, "C03.R2")
	checkBarExit(w, r, "C03")
	trig, pred := w.triggerFn(), w.completionPredicate()
	if trig != nil && pred != nil {
		opts := pathOpts{InlineDepth: 3, Inline: noInline(trig, pred)}
		rulePredicate(w, r, "C03", trig, pred, opts)
		ruleClamp(w, r, "C03", trig, pred, opts)
		// a finished bar's final state (and its remove flag) is not touched by a late Abort
		ruleAbort(w, r, "C03", trig, pred, opts)
	}
	ruleStatisticsFaithful(w, r, "C03")
	ruleStateAgrees(w, r, "C03")
	ruleNoListenerNoOutput(w, r, "C03")
	ruleCursorUp(w, r, "C03")
	ruleFlushReturnsErrors(w, r, "C03")
	ruleWriterNew(w, r, "C03")
	ruleIsTerminal(w, r, "C03")
	ruleWindowsClear(w, r, "C03")
	ruleSyncArm(w, r, "C03")
	ruleRowsFit(w, r, "C03")
	ruleTriggerCancels(w, r, "C03")
	ruleOnFinalDecorations(w, r, "C03")
}

// ruleStatisticsFaithful: the Statistics handed to fillers/decorators copy the state's fields.
func ruleStatisticsFaithful(w *World, r *Report, pfx string) {
	rule := pfx + ".S-STAT"
	var fn *ssa.Function
	for _, f := range w.ModFns {
		if f.Parent() == nil && f.Signature.Recv() != nil && typeName(f.Signature.Recv().Type()) == tBState && f.Signature.Results().Len() == 1 && typeName(f.Signature.Results().At(0).Type()) == "decor.Statistics" {
			fn = f
		}
	}
	if fn == nil {
		r.Unresolved("anchor", "statistics constructor", "not found")
		return
	}
	pred := w.completionPredicate()
	want := map[string]string{"Total": "total", "Current": "current", "Refill": "refill", "Aborted": "aborted", "ID": "id", "RequestedWidth": "reqWidth"}
	got := map[string]bool{}
	okCompleted := false
	for _, b := range fn.Blocks {
		for _, in := range b.Instrs {
			st, ok := in.(*ssa.Store)
			if !ok {
				continue
			}
			f, ok := fieldOf(st.Addr)
			if !ok || f.Owner != "decor.Statistics" {
				continue
			}
			if src, ok := want[f.Name]; ok && isLoad(Val{V: stripConv(st.Val)}, tBState, src) {
				got[f.Name] = true
			}
			if f.Name == "Completed" {
				if c, ok := st.Val.(*ssa.Call); ok && c.Call.StaticCallee() == pred {
					okCompleted = true
				}
			}
			// the width available to the row is the width the renderer was given, unchanged
			if f.Name == "AvailableWidth" {
				if par, ok := w.origin(st.Val).(*ssa.Parameter); ok && par.Parent() == fn {
					got["AvailableWidth"] = true
				}
			}
		}
	}
	bad := ""
	want["AvailableWidth"] = "(the width parameter)"
	for k := range want {
		if !got[k] {
			bad = "Statistics." + k + " is not copied from the bar state"
		}
	}
	if !okCompleted {
		bad = orStr(bad, "Statistics.Completed is not the completion predicate")
	}
	r.Check(bad == "", rule, "statistics constructor", w.pos(fn.Pos()), "fields copied one to one; Completed = completed()", bad)
}

// C13 — text written through the container.
func checkC13(w *World, r *Report) {
	r.Explain = "Structural clauses: the Write closure calls the current writer's Write exactly once with the caller's slice and replies its (n, err) unchanged; the reply protocol is paired; closures are called synchronously by the single container loop in receive order; the cwriter buffer is used only in the container role, row writes happen only inside flush (after the text already in the buffer), so text cannot land inside a row; on done (auto refresh, no error) a final render and the writer's Flush are reached before the end request; a late Write returns (0, ErrDone) without effect. Decides these on all paths; the byte stream is not interpreted; manual-refresh containers have no final frame by construction; text accepted before a render error is dropped with the frame (fault histories are outside the property's quantifier)."
	r.Assume = append(r.Assume, "bytes.Buffer appends in call order", "C01")
	// accepted text is on the output before Wait returns: Wait = bars, then Shutdown = cancel, then the container goroutine
	ruleWaitChain(w, r, "C13")
	clo, off := w.apiClosure(r, "mpb.(*Progress).Write")
	if clo != nil {
		meth := off.Fn
		bad := ""
		n, _ := w.enumPaths(clo, pathOpts{}, func(p *Path) {
			if p.Exit != "return" {
				return
			}
			var wr *ssa.Call
			nW := 0
			for _, ev := range p.Events {
				if c, ok := ev.In.(*ssa.Call); ok && c.Call.IsInvoke() && c.Call.Method.Name() == "Write" {
					nW++
					wr = c
				}
			}
			if nW != 1 {
				bad = fmt.Sprintf("the Write closure writes %d times", nW)
				return
			}
			if !w.isParamOf(wr.Call.Args[0], meth, 1) {
				bad = "the bytes written are not the caller's slice"
				return
			}
			if _, ok := w.origin(wr.Call.Value).(*ssa.Parameter); !ok {
				bad = "the closure does not write to the writer handed over by the container loop"
				return
			}
			// reply carries (n, err) of that call
			okReply := false
			for _, ev := range p.Events {
				s, ok := ev.In.(*ssa.Send)
				if !ok {
					continue
				}
				// struct value loaded from a local whose fields were stored from the call's results
				ld, ok := s.X.(*ssa.UnOp)
				if !ok {
					continue
				}
				al, ok := ld.X.(*ssa.Alloc)
				if !ok {
					continue
				}
				cnt := 0
				for _, ref := range *al.Referrers() {
					fa, ok := ref.(*ssa.FieldAddr)
					if !ok {
						continue
					}
					for _, r2 := range *fa.Referrers() {
						if st, ok := r2.(*ssa.Store); ok {
							if ex, ok := st.Val.(*ssa.Extract); ok && ex.Tuple == ssa.Value(wr) && ex.Index == fa.Field {
								cnt++
							}
						}
					}
				}
				okReply = cnt == 2
			}
			if !okReply {
				bad = "the reply is not the (n, err) of the underlying Write"
			}
		})
		r.Check(bad == "" && n > 0, "C13.W-CLOSURE", "API:Progress.Write closure", w.pos(clo.Pos()), "one Write of the caller's slice; (n, err) replied unchanged", bad)
		// the requester returns the reply's fields
		bad = ""
		w.enumPaths(meth, off.opts(w), func(p *Path) {
			if p.armTaken(off.Sel) != off.State || p.Exit != "return" || len(p.Ret) != 2 {
				return
			}
			for i, rv := range p.Ret {
				okRet := false
				if f, ok := rv.V.(*ssa.Field); ok && f.Field == i {
					if u, ok := f.X.(*ssa.UnOp); ok && u.Op == token.ARROW {
						okRet = true
					}
				}
				if ld, ok := rv.V.(*ssa.UnOp); ok && ld.Op == token.MUL {
					if fa, ok := ld.X.(*ssa.FieldAddr); ok && fa.Field == i {
						if al, ok := fa.X.(*ssa.Alloc); ok {
							st := w.cellStores(al)
							if len(st) == 1 {
								if u, ok := st[0].(*ssa.UnOp); ok && u.Op == token.ARROW {
									okRet = true
								}
							}
						}
					}
				}
				if !okRet {
					bad = "Write does not return the reply's (n, err)"
				}
			}
		})
		r.Check(bad == "", "C13.W-RETURN", "API:Progress.Write", w.pos(meth.Pos()), "returns the replied (n, err)", bad)
	}
	checkReplyProtocol(w, r, "C13")
	checkSyncCall(w, r, "C13.SYNCCALL")
	checkWriterConfinement(w, r, "C13.WRITER")
	ruleFinalRender(w, r, "C13")
	ruleFlushWrites(w, r, "C13")
	checkLateResults(w, r, "C13.R3")
	ruleDelayWriter(w, r, "C13")
	ruleCursorUp(w, r, "C13")
	ruleFlushReturnsErrors(w, r, "C13")
	ruleWriterNew(w, r, "C13")
	ruleIsTerminal(w, r, "C13")
	ruleWindowsClear(w, r, "C13")
	ruleOptionTable(w, r, "C13", map[string][3]string{"WithOutput": {tPState, "output", "paramOrDefault"}, "WithRenderDelay": {tPState, "delayRC", "param"}})
	ruleStateAgrees(w, r, "C13")
	// rows are written only inside flush
	fl := w.flushFn()
	n := 0
	for _, fn := range w.ModFns {
		if fn.Pkg == w.Cw {
			continue
		}
		for _, b := range fn.Blocks {
			for _, in := range b.Instrs {
				c, ok := in.(*ssa.Call)
				if !ok {
					continue
				}
				sc := c.Call.StaticCallee()
				if sc == nil || sc.Name() != "ReadFrom" || len(c.Call.Args) == 0 {
					continue
				}
				if f, ok := loadedField(c.Call.Args[0]); ok && f.Owner == "cwriter.Writer" {
					n++
					r.Check(fn == fl, "C13.W-ROWS", "row write in "+fnShort(fn), w.instrPos(in), "only flush writes rows into the buffer", "bar rows are written into the output buffer outside flush: text written through the container can land inside a row")
				}
			}
		}
	}
	r.Floor("C13.W-ROWS", 1, "flush's output loop")
}

// ruleDelayWriter (C04.R1, C13): the writer handed to render and to intercepted writes is the
// discarding one while the render delay is pending; the real one is installed only at init
// under delayRC == nil or on the arm that received from delayRC.
func ruleDelayWriter(w *World, r *Report, pfx string) {
	rule := pfx + ".D-DELAY"
	cont := w.containerLoop()
	if cont == nil {
		return
	}
	render := w.renderFn()
	realW := ssa.Value(cont.Params[len(cont.Params)-1]) // cw parameter
	isDiscard := func(v ssa.Value) bool {
		c, ok := v.(*ssa.Call)
		if !ok || c.Call.StaticCallee() == nil || c.Call.StaticCallee().Name() != "New" || c.Call.StaticCallee().Pkg != w.Cw {
			return false
		}
		ld, ok := stripConv(c.Call.Args[0]).(*ssa.UnOp)
		if !ok {
			return false
		}
		g, ok := ld.X.(*ssa.Global)
		return ok && g.Name() == "Discard"
	}
	var delayArm *ssa.BasicBlock
	for _, op := range w.Comm().byFn[cont] {
		if op.Kind == "select" {
			for i, s := range op.States {
				if s.Dir == types.RecvOnly && s.Class.has("pState.delayRC") {
					delayArm = selArm(op.Instr.(*ssa.Select), i)
				}
			}
		}
	}
	// On every path of the container loop (private helpers inlined; the loop unrolled by the
	// path engine: entry, one arm, a second arm), the writer handed to render or to an
	// intercepted write is the discarding one only while delayRC != nil and the delay arm has not
	// run, and the real one only when no delay was configured or after the delay arm.
	bad := ""
	nRender, nIO := 0, 0
	writerUses := func(p *Path, ev Event) (Val, string, bool) {
		c, ok := ev.In.(*ssa.Call)
		if !ok {
			return Val{}, "", false
		}
		if c.Call.StaticCallee() == render && len(c.Call.Args) == 2 {
			return p.val(ev, c.Call.Args[1]), "render", true
		}
		if c.Call.StaticCallee() == nil && !c.Call.IsInvoke() && len(c.Call.Args) == 1 {
			if mi, ok := c.Call.Args[0].(*ssa.MakeInterface); ok && strings.HasSuffix(mi.X.Type().String(), "cwriter.Writer") {
				return p.val(ev, mi.X), "io", true
			}
		}
		return Val{}, "", false
	}
	_, over := w.enumPaths(cont, pathOpts{InlineDepth: 3, Inline: w.helperInline(cont), MaxPaths: 400000, Unroll: 1, EmitCut: true}, func(p *Path) {
		if bad != "" {
			return
		}
		armAt := -1
		// the delay arm cannot fire again once the arm has nil-ed the channel field it receives from
		disabled := false
		for _, ev := range p.Events {
			if f, v, ok := p.storeField(ev); ok && f.Owner == tPState && f.Name == "delayRC" {
				disabled = isNilConst(v.V)
			}
			if ev.F.Parent == nil && delayArm != nil && ev.In.Block() == delayArm {
				first := true
				for _, in := range delayArm.Instrs {
					if _, isDbg := in.(*ssa.DebugRef); isDbg {
						continue
					}
					first = in == ev.In
					break
				}
				if first && (disabled || p.hasCmp(ev.Idx, token.EQL, loadOf(tPState, "delayRC"), isNilVal)) {
					return // infeasible: receive from a nil channel
				}
			}
		}
		for _, ev := range p.Events {
			if ev.F.Parent == nil && delayArm != nil && ev.In.Block() == delayArm && armAt < 0 {
				armAt = ev.Idx
			}
			wv, kind, ok := writerUses(p, ev)
			if !ok {
				continue
			}
			if kind == "render" {
				nRender++
			} else {
				nIO++
			}
			delayed := p.hasCmp(ev.Idx, token.NEQ, loadOf(tPState, "delayRC"), isNilVal)
			noDelay := p.hasCmp(ev.Idx, token.EQL, loadOf(tPState, "delayRC"), isNilVal)
			afterArm := armAt >= 0 && armAt < ev.Idx
			switch {
			case isDiscard(wv.V):
				if !delayed {
					bad = "the discarding writer is installed on a path that does not carry delayRC != nil"
				} else if afterArm {
					bad = "the discarding writer is still in use after the render-delay channel fired (" + w.instrPos(ev.In) + ")"
				}
			case wv.V == realW:
				if !(noDelay || afterArm) {
					bad = "the real writer is used (" + w.instrPos(ev.In) + ") although a render delay is configured and has not fired: frames are written before the delay ends"
				}
			default:
				bad = "the writer handed to " + kind + " (" + w.instrPos(ev.In) + ") is neither the discarding writer nor the container's real writer: " + describeVal(wv)
			}
		}
	})
	if over {
		r.Undecided(rule, "container loop writer", w.pos(cont.Pos()), "path cap")
		return
	}
	if delayArm == nil {
		bad = orStr(bad, "the container loop has no arm receiving from the render-delay channel")
	}
	r.Check(bad == "" && nRender > 0, rule, "container loop writer", w.pos(cont.Pos()), "discarding writer while the delay is pending; real writer only at init without delay or after the delay signal", orStr(bad, "no render call on any path of the container loop"))
	r.Check(bad == "" && nIO > 0, rule, "writer handed to intercepted writes", w.pos(cont.Pos()), "same writer discipline as render's", orStr(bad, "text written through the container does not go to the loop's writer variable"))
}

// edgeUnderNilTest: block b is (dominated by) the branch of `field == nil` (wantNil) / `!= nil`.
func edgeUnderNilTest(b *ssa.BasicBlock, field string, wantNil bool) bool {
	fn := b.Parent()
	for _, x := range fn.Blocks {
		ifi, ok := x.Instrs[len(x.Instrs)-1].(*ssa.If)
		if !ok {
			continue
		}
		bin, ok := ifi.Cond.(*ssa.BinOp)
		if !ok || !isNilConst(bin.Y) {
			continue
		}
		f, ok := loadedField(bin.X)
		if !ok || f.Name != field {
			continue
		}
		var nilSucc, nonNilSucc *ssa.BasicBlock
		if bin.Op == token.EQL {
			nilSucc, nonNilSucc = x.Succs[0], x.Succs[1]
		} else if bin.Op == token.NEQ {
			nilSucc, nonNilSucc = x.Succs[1], x.Succs[0]
		} else {
			continue
		}
		want := nonNilSucc
		if wantNil {
			want = nilSucc
		}
		if want == b || (want.Dominates(b) && len(want.Preds) == 1) {
			return true
		}
	}
	return false
}

// C14 — cancellation and Shutdown.
func checkC14(w *World, r *Report) {
	r.Explain = "Structural clauses of shutdown: the bar's context is derived from the container's; each refresh listener closes done exactly once on ctx.Done() and returns; the non-refreshing container's done is ctx.Done() itself; the bar loop's exit arm notifies every shutdown listener of both decorator groups (reached through unwrap, which recurses through Wrapper only) in a goroutine accounted in the wait group before the loop's own Done, derives aborted from !completed(), publishes, releases the wait group and returns - once; the container's done arm sends exactly one end request; the heap loop's end arm hands the heap to the notifier once (in a goroutine, iff the channel is non-nil) and closes the request channel; Shutdown = cancel then pwg.Wait; Wait = bwg.Wait, Shutdown, user group. Decides these on all paths and therefore for every placement of the cancellation; timing is not decided."
	r.Assume = append(r.Assume, "context cancellation propagates to derived contexts (standard library)")
	// context fan-out
	ctor := w.barConstructor()
	if ctor != nil {
		ok := false
		for _, b := range ctor.Blocks {
			for _, in := range b.Instrs {
				if c, okc := in.(*ssa.Call); okc && staticCalleeName(&c.Call) == "context.WithCancel" {
					if _, isParam := w.origin(c.Call.Args[0]).(*ssa.Parameter); isParam {
						// the parameter is fed from pState.ctx at the call sites
						for _, site := range w.callers[ctor] {
							if site.Parent().Synthetic != "" {
								continue
							}
							if isLoad(Val{V: site.Common().Args[0]}, tPState, "ctx") {
								ok = true
							} else {
								ok = false
							}
						}
					}
				}
			}
		}
		r.Check(ok, "C14.X-CTX", "bar context", w.pos(ctor.Pos()), "derived from the container's context", "the bar's context is not derived from the container's: cancelling the container or Shutdown does not stop the bars")
	} else {
		r.Unresolved("anchor", "bar constructor", "not found")
	}
	ruleIsRunning(w, r, "C14")
	// the container's own context: WithCancel of the caller's, cancel stored in Progress.cancel
	if nw := w.Func("mpb.NewWithContext"); nw != nil {
		okC := false
		for _, b := range nw.Blocks {
			for _, in := range b.Instrs {
				if st, ok := in.(*ssa.Store); ok {
					if f, ok := fieldOf(st.Addr); ok && f.Owner == "mpb.Progress" && f.Name == "cancel" {
						if ex, ok := stripConv(st.Val).(*ssa.Extract); ok && ex.Index == 1 {
							if c, ok := ex.Tuple.(*ssa.Call); ok && staticCalleeName(&c.Call) == "context.WithCancel" {
								okC = true
							}
						}
					}
				}
			}
		}
		r.Check(okC, "C14.X-CTX", "container cancel", w.pos(nw.Pos()), "Progress.cancel cancels the container's context", "Shutdown's cancel is not the cancel function of the container's context")
		// done: either a fresh channel closed by the started listener, or ctx.Done()
		origins := w.fieldOrigins("Progress.done")
		okD := true
		for k := range origins {
			if k == "Done(pState.ctx)" && w.containerCtxIsCancelable() {
				continue // the same context, read back from the container state
			}
			if !(k == "Done(WithCancel)" || (len(k) > 5 && k[:5] == "make(")) {
				okD = false
			}
		}
		r.Check(okD && len(origins) >= 2, "C14.X-DONE", "container done signal", w.pos(nw.Pos()), "listener-closed channel or the context's Done: "+origins.String(), "the container's done signal is neither closed by a listener nor the context's Done channel")
	}
	// listeners: on ctx.Done close(done) and return
	nL := 0
	for _, g := range w.Roles().GoSites {
		for _, t := range w.goTargets(g) {
			if !w.fnSendsOn(t, "pState.renderReq") || t.Parent() != nil || t == w.Func("mpb.(*Bar).tryEarlyRefresh") {
				continue
			}
			nL++
			bad := ""
			for _, op := range w.Comm().byFn[t] {
				if op.Kind != "select" {
					continue
				}
				sel := op.Instr.(*ssa.Select)
				found := false
				for i, s := range op.States {
					if s.Dir == types.RecvOnly && s.Class.only("Done(pState.ctx)") {
						found = true
						arm := selArm(sel, i)
						if arm == nil {
							arm = selectArms(sel)[-1-(i-1)]
						}
						closes := 0
						if arm != nil {
							w.enumPaths(t, pathOpts{Start: arm}, func(p *Path) {
								c := 0
								for _, ev := range p.Events {
									if o := w.Comm().byIn[ev.In]; o != nil && o.Kind == "close" && sameClass(o.Class, w.fieldOrigins("Progress.done")) {
										c++
									}
								}
								if p.Exit != "return" || c != 1 {
									bad = "on cancellation the listener does not close done exactly once and return"
								}
								closes = c
							})
						}
						_ = closes
					}
				}
				if !found {
					bad = "the listener has no arm on the container context's Done"
				}
			}
			r.Check(bad == "", "C14.X-LISTENER", "listener "+fnShort(t), w.pos(t.Pos()), "closes done once on ctx.Done and returns", bad)
		}
	}
	r.Floor("C14.X-LISTENER", 2, "auto and manual refresh listeners")
	ruleShutdownListeners(w, r, "C14")
	ruleNoCallerAlias(w, r, "C14")
	checkBarExit(w, r, "C14")
	checkC11exit(w, r, "C14")
	checkEndOnExit(w, r, "C14")
	ruleFinalRender(w, r, "C14")
	ruleWaitChain(w, r, "C14")
	ruleOptionTable(w, r, "C14", map[string][3]string{"WithWaitGroup": {tPState, "uwg", "param"}, "WithShutdownNotifier": {tPState, "shutdownNotifier", "param"}})
	checkWaitGroups(w, r, "C14")
	ruleEndArm(w, r, "C14")
	ruleUnwrap(w, r, "C14")
	checkCloseOnce(w, r, "C14.R5")
	ruleWrappersUnwrap(w, r, "C14")
	ruleBarWait(w, r, "C14")
	checkRenderReqReceivers(w, r, "C14")
	checkLiveness(w, r, "C14", nil)
	ruleStateAgrees(w, r, "C14")
	fi := w.analyseFlush()
	ruleFlushOutcome(w, r, "C14", fi)
	ruleFlushDrainsPending(w, r, "C14", fi)
	ruleTerminalCancel(w, r, "C14", fi)
	ruleTriggerCancels(w, r, "C14")
}

// checkC11exit re-checks the exit order and the aborted derivation under another prefix.
func checkC11exit(w *World, r *Report, pfx string) {
	loop, _, arm := w.barExitArm(r)
	pred := w.completionPredicate()
	if loop == nil || arm == nil || pred == nil {
		return
	}
	bad := ""
	n, _ := w.enumPaths(loop, pathOpts{InlineDepth: 3, Inline: w.helperInline(loop), Start: arm}, func(p *Path) {
		okAb := false
		for _, s := range p.storesTo(tBState, "aborted") {
			if u, ok := s.Val.V.(*ssa.UnOp); ok && u.Op == token.NOT {
				if c, ok := u.X.(*ssa.Call); ok && c.Call.StaticCallee() == pred {
					okAb = true
				}
			}
		}
		if !okAb {
			bad = "a bar ended by cancellation is not marked aborted exactly when it is not completed"
		}
	})
	r.Check(bad == "" && n > 0, pfx+".X-ABORTED", "bar loop exit", w.pos(loop.Pos()), "aborted <- !completed() on every exit path", bad)
}

// ruleShutdownListeners: in the bar loop's exit arm both decorator groups are walked and every
// ShutdownListener found through unwrap is notified once, in a goroutine counted in the wait group.
func ruleShutdownListeners(w *World, r *Report, pfx string) {
	rule := pfx + ".X-ONSHUTDOWN"
	loop, _, arm := w.barExitArm(r)
	if loop == nil || arm == nil {
		return
	}
	unwrap := w.Func("mpb.unwrap")
	// find the function (closure or the loop itself) that calls OnShutdown in a go closure
	var notifier *ssa.Function
	// functions of the module reachable from the bar loop, including the goroutines it spawns
	reach := w.reachNoGo([]*ssa.Function{loop})
	for changed := true; changed; {
		changed = false
		for f := range reach {
			if !w.modSet[f] {
				continue
			}
			for _, b := range f.Blocks {
				for _, in := range b.Instrs {
					if g, ok := in.(*ssa.Go); ok {
						for _, t := range w.goTargets(g) {
							if !reach[t] && w.modSet[t] {
								for x := range w.reachNoGo([]*ssa.Function{t}) {
									reach[x] = true
								}
								changed = true
							}
						}
					}
				}
			}
		}
	}
	var cands []*ssa.Function
	for f := range reach {
		if w.modSet[f] && f.Pkg == w.Mpb {
			cands = append(cands, f)
		}
	}
	sort.Slice(cands, func(i, j int) bool { return fnShort(cands[i]) < fnShort(cands[j]) })
	for _, f := range cands {
		for _, b := range f.Blocks {
			for _, in := range b.Instrs {
				if c, ok := in.(*ssa.Call); ok && c.Call.IsInvoke() && c.Call.Method.Name() == "OnShutdown" {
					notifier = f
				}
			}
		}
	}
	if notifier == nil {
		r.Violated(rule, "bar loop exit", w.pos(loop.Pos()), "no shutdown listener is ever notified")
		return
	}
	// the notifier closure: OnShutdown then bwg.Done, once
	bad := ""
	w.enumPaths(notifier, pathOpts{}, func(p *Path) {
		if p.Exit != "return" {
			return
		}
		on, done := 0, 0
		for _, ev := range p.Events {
			if c, ok := ev.In.(*ssa.Call); ok && c.Call.IsInvoke() && c.Call.Method.Name() == "OnShutdown" {
				on++
			}
			if o := w.Comm().byIn[ev.In]; o != nil && o.Kind == "wg.Done" && o.Class.has("wg:Progress.bwg") {
				done++
			}
		}
		if on != 1 || done != 1 {
			bad = fmt.Sprintf("the notifying goroutine calls OnShutdown %d times and releases the wait group %d times", on, done)
		}
	})
	r.Check(bad == "", rule, "notifying goroutine", w.pos(notifier.Pos()), "OnShutdown once, then Done", bad)
	// the walker (parent of the notifier): range over the group; per element: unwrap -> ShutdownListener assertion -> Add(1) -> go
	// the walker: the function that spawns the notifier
	var walker *ssa.Function
	for _, g := range w.Roles().GoSites {
		for _, t := range w.goTargets(g) {
			if t == notifier {
				walker = g.Parent()
			}
		}
	}
	if walker == nil {
		r.Violated(rule, "listener walk", w.pos(notifier.Pos()), "the notification is not made in its own goroutine (a slow listener would block the bar's exit)")
		return
	}
	bad = ""
	usesUnwrap, asserts := false, false
	for _, b := range walker.Blocks {
		for _, in := range b.Instrs {
			if c, ok := in.(*ssa.Call); ok && c.Call.StaticCallee() == unwrap && unwrap != nil {
				usesUnwrap = true
			}
			if ta, ok := in.(*ssa.TypeAssert); ok && ta.CommaOk && typeName(ta.AssertedType) == "decor.ShutdownListener" {
				if c, ok := ta.X.(*ssa.Call); ok && c.Call.StaticCallee() == unwrap {
					asserts = true
				}
			}
		}
	}
	if !usesUnwrap || !asserts {
		bad = "shutdown listeners are not looked up through unwrap: a wrapped listener (OnComplete(...), Meta(...)) is never notified"
	}
	// add before go on the same path, both inside a complete range loop
	var goIn ssa.Instruction
	for _, b := range walker.Blocks {
		for _, in := range b.Instrs {
			if g, ok := in.(*ssa.Go); ok {
				for _, t := range w.goTargets(g) {
					if t == notifier {
						goIn = in
					}
				}
			}
		}
	}
	if goIn == nil {
		bad = orStr(bad, "the notification is not made in its own goroutine (a slow listener would block the bar's exit)")
	} else {
		l := innermostLoop(naturalLoops(walker), goIn.Block())
		cl := countingLoop{}
		if l != nil {
			cl = classifyCountingLoop(l)
		}
		if l == nil || !cl.ok || cl.step != 1 {
			bad = orStr(bad, "listeners are not notified in a complete range loop over the group")
		}
		okAdd := false
		for _, op := range w.Comm().byFn[walker] {
			if op.Kind == "wg.Add" && op.Class.has("wg:Progress.bwg") && instrDominates(op.Instr, goIn) && op.Instr.Block() == goIn.Block() {
				okAdd = true
			}
		}
		if !okAdd {
			bad = orStr(bad, "the notifying goroutine is not accounted in the wait group before it starts: Wait may return before every listener was notified")
		}
	}
	r.Check(bad == "", rule, "listener walk", w.pos(walker.Pos()), "unwrap, assert ShutdownListener, Add(1), go - for every decorator of the group", bad)
	// the exit arm walks both groups
	nCalls := 0
	idx := map[int64]bool{}
	w.enumPaths(loop, pathOpts{Start: arm, InlineDepth: 3, Inline: w.helperInline(loop, walker)}, func(p *Path) {
		c := 0
		for _, ev := range p.Events {
			if call, ok := ev.In.(*ssa.Call); ok && call.Call.StaticCallee() == walker {
				c++
				for _, a := range call.Call.Args {
					if ld, ok := a.(*ssa.UnOp); ok {
						if ia, ok := ld.X.(*ssa.IndexAddr); ok {
							if k, ok := constInt(ia.Index); ok {
								idx[k] = true
							}
						}
					}
				}
			}
		}
		if c > nCalls {
			nCalls = c
		}
	})
	nGroups := int64(2)
	okGroups := int64(len(idx)) == nGroups && nCalls == 2
	if !okGroups {
		// or one call inside a complete loop over the groups array
		for f := range w.unit(loop) {
			for _, b := range f.Blocks {
				for _, in := range b.Instrs {
					if c, ok := in.(*ssa.Call); ok && c.Call.StaticCallee() == walker {
						if l := innermostLoop(naturalLoops(f), b); l != nil && w.loopCoversGroups(l) {
							for _, a := range c.Call.Args {
								if ld, ok := a.(*ssa.UnOp); ok {
									if ia, ok := ld.X.(*ssa.IndexAddr); ok {
										if fr, ok := fieldOf(ia.X); ok && fr.Name == "decorGroups" {
											okGroups = true
										}
									}
								}
							}
						}
					}
				}
			}
		}
	}
	r.Check(okGroups, rule, "both decorator groups", w.pos(loop.Pos()), "prepend and append groups walked", "the exit arm does not notify the listeners of both decorator groups")
}

// ruleEndArm: the heap loop's end arm sends the heap to the notifier once, in a goroutine, iff the
// channel is non-nil, and closes the request channel on every path.
func ruleEndArm(w *World, r *Report, pfx string) {
	rule := pfx + ".X-ENDARM"
	loop, arms, endCmd := w.heapArms()
	if loop == nil || endCmd < 0 {
		r.Undecided(rule, "heap loop end arm", "", "not found")
		return
	}
	var outer *loopInfo
	for _, l := range naturalLoops(loop) {
		if outer == nil || len(l.Blocks) > len(outer.Blocks) {
			outer = l
		}
	}
	bad := ""
	sawNotify, sawSkip := false, false
	n, _ := w.enumPaths(loop, pathOpts{Start: arms[endCmd], StopAt: func(b *ssa.BasicBlock) bool { return b == outer.Header }}, func(p *Path) {
		gos, closes := 0, 0
		for _, ev := range p.Events {
			if g, ok := ev.In.(*ssa.Go); ok {
				for _, t := range w.goTargets(g) {
					if w.fnSendsOn(t, "pState.shutdownNotifier") {
						gos++
					}
				}
			}
			if o := w.Comm().byIn[ev.In]; o != nil && o.Kind == "close" && o.Class.has("heapManager") {
				closes++
			}
		}
		if closes != 1 {
			bad = fmt.Sprintf("the end arm closes the request channel %d times on a path", closes)
			return
		}
		nonNil := false
		isNil := false
		for _, a := range p.Atoms {
			c := p.cmpOf(a)
			if isNilConst(c.Y.V) {
				if _, ok := c.X.V.Type().Underlying().(*types.Chan); ok {
					if c.Op == token.NEQ {
						nonNil = true
					}
					if c.Op == token.EQL {
						isNil = true
					}
				}
			}
		}
		switch {
		case nonNil:
			sawNotify = true
			if gos != 1 {
				bad = "with a notifier configured the heap is not handed over exactly once, in its own goroutine"
			}
		case isNil:
			sawSkip = true
			if gos != 0 {
				bad = "a notification is sent although no notifier is configured (send on nil channel blocks forever)"
			}
		default:
			bad = "the end arm does not test the notifier channel for nil"
		}
	})
	r.Check(bad == "" && n > 0 && sawNotify && sawSkip, rule, "heap loop end arm", w.instrPos(arms[endCmd].Instrs[0]), "notify once iff configured; close the request channel", orStr(bad, "branch missing"))
	// the end request carries pState.shutdownNotifier
	cont := w.containerLoop()
	if cont == nil {
		r.Unresolved("anchor", "container loop", "no unique go target receiving from Progress.operateState")
		return
	}
	okArg := false
	for f := range w.unit(cont) {
		for _, b := range f.Blocks {
			for _, in := range b.Instrs {
				if c, ok := in.(*ssa.Call); ok && len(c.Call.Args) == 2 && isLoad(Val{V: c.Call.Args[1]}, tPState, "shutdownNotifier") {
					okArg = true
				}
			}
		}
	}
	r.Check(okArg, rule, "end request payload", w.pos(cont.Pos()), "the configured notifier channel", "the end request does not carry the configured shutdown notifier")
}

// ruleUnwrap: unwrap recurses through Wrapper only and returns the innermost decorator.
func ruleUnwrap(w *World, r *Report, pfx string) {
	rule := pfx + ".X-UNWRAP"
	fn := w.Func("mpb.unwrap")
	if fn == nil {
		r.Unresolved("anchor", "mpb.unwrap", "not found")
		return
	}
	bad := ""
	sawRec, sawBase := false, false
	w.enumPaths(fn, pathOpts{}, func(p *Path) {
		if p.Exit != "return" || len(p.Ret) != 1 {
			return
		}
		rv := p.Ret[0]
		if c, ok := rv.V.(*ssa.Call); ok && c.Call.StaticCallee() == fn {
			sawRec = true
			// argument is Unwrap() of the asserted wrapper, under ok
			inner, ok := c.Call.Args[0].(*ssa.Call)
			if !ok || !inner.Call.IsInvoke() || inner.Call.Method.Name() != "Unwrap" {
				bad = "unwrap does not recurse on Wrapper.Unwrap()"
			}
			return
		}
		if _, ok := rv.V.(*ssa.Parameter); ok {
			sawBase = true
			return
		}
		bad = "unwrap returns something other than its argument or the recursive result"
	})
	r.Check(bad == "" && sawRec && sawBase, rule, "mpb.unwrap", w.pos(fn.Pos()), "recursive through Wrapper, identity otherwise", orStr(bad, "unwrap is not recursive: only one wrapper level is looked through"))
}

// C15 — a render error shuts the container down cleanly.
func checkC15(w *World, r *Report) {
	r.Explain = "Error-discipline and shutdown-shape rules: (R1) every error produced in render/flush (terminal-size query, frame error, row write, writer flush) reaches the container loop's err variable (returned, not dropped), draw and extender errors reach frame.err and reset their buffers; (R2) on the error edge the container loop spawns the drain loop for render requests, cancels the container and disables its three inboxes; (R3) abstract reachability from the error edge (nil-ness of the disabled inboxes through phis): no further render call, and exactly one write of the error to the debug output on every path to return, likewise from the error edge of the final loop; (R4) the abandon signal is closed on the size-query error path; (R5) a cycle is abandoned only when nothing is in flight: flush never leaves its collection loop early and closes the abandon signal only after it (WC.Format's exchange has no escape while the distributor's has). Plus the liveness skeleton. Decides these on all paths, i.e. for every fault site and every k; does not execute fault injection."
	r.Assume = append(r.Assume, "C01", "fmt.Fprintln writes its argument once")
	checkNoRenderAfterError(w, r, "C15.R3")
	ruleErrorEdge(w, r, "C15")
	ruleErrorPrintedOnce(w, r, "C15")
	ruleErrorPropagation(w, r, "C15")
	ruleUserFillerKept(w, r, "C15")
	ruleFlushWrites(w, r, "C15")
	ruleFlushReturnsErrors(w, r, "C15")
	ruleOptionTable(w, r, "C15", map[string][3]string{"WithDebugOutput": {tPState, "debugOut", "paramOrDefault"}})
	checkProducerClose(w, r, "C15")
	checkIteratorConsumers(w, r, "C15")
	checkOneFrame(w, r, "C15")
	checkNoRequestWhileIterating(w, r, "C15")
	fi := w.analyseFlush()
	ruleFlushOutcome(w, r, "C15", fi)
	ruleTerminalCancel(w, r, "C15", fi)
	checkRenderReqReceivers(w, r, "C15")
	checkLiveness(w, r, "C15", nil)
	checkCloseOnce(w, r, "C15.R5c")
	checkEndOnExit(w, r, "C15")
	ruleRenderTerminal(w, r, "C15")
	ruleExtenderError(w, r, "C15")
	ruleFlushDrainsPending(w, r, "C15", fi)
	checkStateReply(w, r, "C15")
}

// ruleErrorEdge (C15.R2): on the edge where render returned an error: go drain, container cancel,
// three inboxes disabled.
func ruleErrorEdge(w *World, r *Report, pfx string) {
	rule := pfx + ".R2"
	cont, render := w.containerLoop(), w.renderFn()
	if cont == nil || render == nil {
		return
	}
	// the main select and its phis
	var mainSel *ssa.Select
	for _, op := range w.Comm().byFn[cont] {
		if op.Kind == "select" && len(op.States) >= 4 {
			mainSel = op.Instr.(*ssa.Select)
		}
	}
	if mainSel == nil {
		r.Undecided(rule, "container loop select", w.pos(cont.Pos()), "not found")
		return
	}
	hdr := mainSel.Block()
	for _, b := range cont.Blocks {
		for _, in := range b.Instrs {
			c, ok := in.(*ssa.Call)
			if !ok || c.Call.StaticCallee() != render {
				continue
			}
			ifi, ok := b.Instrs[len(b.Instrs)-1].(*ssa.If)
			if !ok {
				continue
			}
			bin, ok := ifi.Cond.(*ssa.BinOp)
			if !ok || bin.X != ssa.Value(c) {
				continue
			}
			errB := b.Succs[0]
			if bin.Op == token.EQL {
				errB = b.Succs[1]
			}
			// is this call inside the main loop (reaches the header)?
			if !reachableFrom(errB, true)[hdr] {
				continue
			}
			bad := ""
			n, _ := w.enumPaths(cont, pathOpts{Start: errB, StopAt: func(x *ssa.BasicBlock) bool { return x == hdr }}, func(p *Path) {
				if p.Exit != "stop" {
					bad = "the error edge leaves the container loop without going through the done arm (the error would never be reported)"
					return
				}
				drain, cancel := false, false
				for _, ev := range p.Events {
					if g, ok := ev.In.(*ssa.Go); ok {
						for _, t := range w.goTargets(g) {
							if w.fnRecvsFrom(t, "pState.renderReq") {
								drain = true
							}
						}
					}
					if cc, ok := ev.In.(*ssa.Call); ok && isLoad(Val{V: cc.Call.Value}, "mpb.Progress", "cancel") {
						cancel = true
					}
				}
				if !drain {
					bad = "no drain goroutine for render requests on the error edge (the refresh listener blocks and never closes done)"
				}
				if !cancel {
					bad = "the container is not cancelled on a render error: bars keep running and Wait does not return"
				}
				// inboxes nil-ed: the select's channel operands are phis in hdr whose edge from this path's last block is nil
				last := p.Blocks[len(p.Blocks)-1]
				pi := -1
				for i, pr := range hdr.Preds {
					if pr == last {
						pi = i
					}
				}
				nilled := 0
				for _, st := range mainSel.States {
					if phi, ok := st.Chan.(*ssa.Phi); ok && phi.Block() == hdr && pi >= 0 && isNilConst(phi.Edges[pi]) {
						nilled++
					}
				}
				if nilled < 3 {
					bad = fmt.Sprintf("only %d of the three inboxes (operations, intercepted writes, render requests) are disabled after a render error: further frames / operations would be processed", nilled)
				}
			})
			r.Check(bad == "" && n > 0, rule, "render error edge in the container loop", w.instrPos(in), "drain spawned, container cancelled, inboxes disabled", bad)
		}
	}
	r.Floor(rule, 1, "refresh arm")
}

// ruleErrorPropagation (C15.R1, R4): errors in render reach its result; the size-query error
// path closes the abandon signal before returning; draw/extender errors reach frame.err and
// reset their buffers.
func ruleErrorPropagation(w *World, r *Report, pfx string) {
	rule := pfx + ".R1"
	render := w.renderFn()
	if render == nil {
		return
	}
	// size query
	bad := ""
	saw := false
	w.enumPaths(render, pathOpts{InlineDepth: 2, Inline: func(_ ssa.CallInstruction, c *ssa.Function) bool { return c.Pkg == w.Mpb && c != w.flushFn() }}, func(p *Path) {
		if p.Exit != "return" || len(p.Ret) != 1 {
			return
		}
		var sizeCall *ssa.Call
		for _, ev := range p.Events {
			if c, ok := ev.In.(*ssa.Call); ok && c.Call.StaticCallee() != nil && c.Call.StaticCallee().Name() == "GetTermSize" {
				sizeCall = c
			}
		}
		if sizeCall == nil {
			return
		}
		isSizeErr := func(v Val) bool {
			ex, ok := v.V.(*ssa.Extract)
			return ok && ex.Tuple == ssa.Value(sizeCall) && ex.Index == 2
		}
		if p.hasCmp(-1, token.NEQ, isSizeErr, isNilVal) {
			saw = true
			closes := 0
			for _, ev := range p.Events {
				if o := w.Comm().byIn[ev.In]; o != nil && o.Kind == "close" && o.Class.has("pState.iterDrop") {
					closes++
				}
			}
			if !isSizeErr(p.Ret[0]) {
				bad = "a terminal-size error is not returned to the container loop"
			}
			if closes != 1 {
				bad = "on a terminal-size error the cycle is not abandoned (close of the drop signal): the heap loop stays blocked offering bars and the width distributors never end"
			}
		}
	})
	r.Check(bad == "" && saw, rule, "terminal-size error", w.pos(render.Pos()), "returned; drop signal closed", orStr(bad, "size query error path not found"))
	// render returns flush's result
	fl := w.flushFn()
	okRet := false
	for _, b := range render.Blocks {
		if ret, ok := b.Instrs[len(b.Instrs)-1].(*ssa.Return); ok && len(ret.Results) == 1 {
			if c, ok := ret.Results[0].(*ssa.Call); ok && c.Call.StaticCallee() == fl {
				okRet = true
			}
		}
	}
	r.Check(okRet, rule, "flush result", w.pos(render.Pos()), "returned by render", "render drops the error returned by flush")
	// container loop assigns render's result to the err it later reports: the err phi takes the call's value
	cont := w.containerLoop()
	if cont == nil {
		r.Unresolved("anchor", "container loop", "no unique go target receiving from Progress.operateState")
		return
	}
	okErr := false
	for _, b := range cont.Blocks {
		for _, in := range b.Instrs {
			if phi, ok := in.(*ssa.Phi); ok {
				for _, e := range phi.Edges {
					if c, ok := e.(*ssa.Call); ok && c.Call.StaticCallee() == render {
						okErr = true
					}
				}
			}
		}
	}
	r.Check(okErr, rule, "container loop remembers the error", w.pos(cont.Pos()), "err variable takes render's result", "the container loop does not remember the render error for reporting at done")
	// frame errors: in flush, frame.err is recorded into the err variable (phi edge) on the frame-error path
	fi := w.analyseFlush()
	if fi.Undecided == "" && fi.ErrPhi != nil {
		okRec := false
		for _, e := range fi.ErrPhi.Edges {
			if isLoad(Val{V: e}, tFrame, "err") {
				okRec = true
			}
		}
		r.Check(okRec, rule, "frame error recorded", w.pos(fi.Fn.Pos()), "flush's err takes frame.err", "a frame's error is not recorded by flush: a failing filler/extender goes unnoticed")
	}
	// render closure: draw error -> frame.err, buffers reset; extender error -> frame.err
	rc := w.renderClosure()
	if rc != nil {
		bad := ""
		sawDraw := false
		sawReset := false
		w.enumPaths(rc, pathOpts{InlineDepth: 2, Inline: w.helperInline(rc)}, func(p *Path) {
			if p.Exit != "return" {
				return
			}
			var drawCall *ssa.Call
			for _, ev := range p.Events {
				if c, ok := ev.In.(*ssa.Call); ok && c.Call.StaticCallee() != nil && c.Call.StaticCallee().Name() == "draw" {
					drawCall = c
				}
			}
			if drawCall == nil {
				return
			}
			isDrawErr := func(v Val) bool {
				ex, ok := p.R(v).V.(*ssa.Extract)
				return ok && ex.Tuple == ssa.Value(drawCall) && ex.Index == 1
			}
			if p.hasCmp(-1, token.NEQ, isDrawErr, isNilVal) {
				sawDraw = true
				okStore := false
				for _, s := range p.storesTo(tFrame, "err") {
					if isDrawErr(s.Val) {
						okStore = true
					}
				}
				resets := 0
				for _, ev := range p.Events {
					if c, ok := ev.In.(*ssa.Call); ok && c.Call.StaticCallee() != nil && c.Call.StaticCallee().String() == "(*bytes.Buffer).Reset" {
						resets++
					}
				}
				if !okStore {
					bad = "a draw error is not put into the frame"
				}
				if resets >= 1 {
					sawReset = true
				}
			} else {
				okExt := false
				for _, s := range p.storesTo(tFrame, "err") {
					if ex, ok := p.R(s.Val).V.(*ssa.Extract); ok && ex.Index == 1 {
						if c, ok := ex.Tuple.(*ssa.Call); ok && isLoad(Val{V: c.Call.Value}, tBState, "extender") {
							okExt = true
						}
					}
				}
				if !okExt {
					bad = "the extender's error is not put into the frame"
				}
			}
		})
		if sawDraw && !sawReset {
			bad = orStr(bad, "buffers are not reset after a draw error (stale bytes would leak into a later frame)")
		}
		r.Check(bad == "" && sawDraw, rule, "render closure error paths", w.pos(rc.Pos()), "draw/extender errors reach frame.err; buffers reset", orStr(bad, "draw error path not found"))
	}
}

// containerCtxIsCancelable: every store to pState.ctx stores the context made by
// context.WithCancel (directly or handed down as an argument by the constructor).
func (w *World) containerCtxIsCancelable() bool {
	isWC := func(v ssa.Value) bool {
		ex, ok := stripConv(v).(*ssa.Extract)
		if !ok || ex.Index != 0 {
			return false
		}
		c, ok := ex.Tuple.(*ssa.Call)
		return ok && staticCalleeName(&c.Call) == "context.WithCancel"
	}
	n := 0
	for _, fn := range w.ModFns {
		for _, b := range fn.Blocks {
			for _, in := range b.Instrs {
				st, ok := in.(*ssa.Store)
				if !ok {
					continue
				}
				f, ok := fieldOf(st.Addr)
				if !ok || f.Owner != tPState || f.Name != "ctx" {
					continue
				}
				n++
				v := w.origin(st.Val)
				if isWC(v) {
					continue
				}
				par, ok := v.(*ssa.Parameter)
				if !ok {
					return false
				}
				idx := -1
				for i, q := range fn.Params {
					if q == par {
						idx = i
					}
				}
				sites := w.callers[fn]
				if len(sites) == 0 || idx < 0 {
					return false
				}
				for _, site := range sites {
					if site.Common().StaticCallee() != fn || idx >= len(site.Common().Args) || !isWC(w.origin(site.Common().Args[idx])) {
						return false
					}
				}
			}
		}
	}
	return n > 0
}
