package main

import (
	"flag"
	"fmt"
	"os"
	"path/filepath"
	"runtime/debug"
	"sort"
	"strconv"
	"strings"
)

// mpbcheck <property-id>|dump [flags]
//
//	exit 0: every obligation of the property holds on the analysed tree (known findings printed)
//	exit 1: VIOLATION lines printed
//	exit 2: checker broken (load / type errors, panic)

type checkFn func(w *World, r *Report)

var checks = map[string]checkFn{}

func main() {
	repo := flag.String("repo", envOr("VERIF_REPO", "/repo"), "tree to analyse")
	verif := flag.String("verif", envOr("VERIF_DIR", "/verif"), "verif directory (evidence, known findings)")
	tier := flag.String("tier", envOr("VERIF_TIER", "quick"), "quick|thorough")
	flag.Parse()
	args := flag.Args()
	if len(args) < 1 {
		fmt.Fprintln(os.Stderr, "usage: mpbcheck [flags] <property-id>|dump <what>|explain <file>")
		os.Exit(2)
	}
	seed, _ := strconv.ParseInt(os.Getenv("VERIF_SEED"), 10, 64)
	abs, err := filepath.Abs(*repo)
	if err == nil {
		*repo = abs
	}
	defer func() {
		if e := recover(); e != nil {
			if be, ok := e.(brokenError); ok {
				fmt.Fprintf(os.Stderr, "BROKEN: %s\n", be.msg)
				os.Exit(2)
			}
			panic(e)
		}
	}()
	switch args[0] {
	case "dump":
		w := loadWorld(*repo, "", "")
		dump(w, args[1:])
		return
	case "explain":
		if len(args) < 2 {
			os.Exit(2)
		}
		b, err := os.ReadFile(args[1])
		if err != nil {
			fmt.Fprintln(os.Stderr, err)
			os.Exit(2)
		}
		os.Stdout.Write(b)
		fmt.Println()
		return
	case "sweep":
		os.Exit(sweepAll(*repo, *verif))
	case "list":
		var ids []string
		for id := range checks {
			ids = append(ids, id)
		}
		sort.Strings(ids)
		for _, id := range ids {
			fmt.Println(id)
		}
		return
	}
	id := args[0]
	fn, ok := checks[id]
	if !ok {
		fmt.Fprintf(os.Stderr, "BROKEN: no check registered for %s\n", id)
		os.Exit(2)
	}
	r := newReport(id, *tier, seed)
	configs := [][2]string{{"", ""}}
	// the properties whose rules read the terminal writer also look at its Windows sibling on every run
	// (writer_windows.go is invisible to a linux build); the other configurations are for the thorough tier
	switch id {
	case "C03", "C04", "C13", "C15":
		if *tier != "thorough" {
			configs = append(configs, [2]string{"windows", "amd64"})
		}
	}
	if *tier == "thorough" {
		configs = append(configs, [2]string{"windows", "amd64"}, [2]string{"darwin", "arm64"}, [2]string{"linux", "386"})
	}
	var cfgNames []string
	for _, c := range configs {
		name := "linux/amd64"
		if c[0] != "" {
			name = c[0] + "/" + c[1]
		}
		cfgNames = append(cfgNames, name)
		r.Config = name
		w := loadWorld(*repo, c[0], c[1])
		r.Inv["packages["+name+"]"] = len(w.Pkgs)
		r.Inv["module_functions["+name+"]"] = len(w.ModFns)
		func() {
			// a rule that cannot cope with the shape of this tree must not take the whole check down:
			// it becomes a "cannot decide" verdict (the check still fails, naming the rule's stack top)
			defer func() {
				if e := recover(); e != nil {
					if be, ok := e.(brokenError); ok {
						panic(be)
					}
					where := ""
					for _, l := range strings.Split(string(debug.Stack()), "\n") {
						if strings.Contains(l, "/checker/") && !strings.Contains(l, "main.go") && !strings.Contains(l, "/vendor/") {
							where = strings.TrimSpace(l)
							break
						}
					}
					r.Undecided(id+".INTERNAL", "analysis aborted", "", fmt.Sprintf("the analysis could not cope with this tree (%v at %s): no verdict", e, where))
				}
			}()
			fn(w, r)
		}()
		r.applyFloors()
		r.Inv["paths_enumerated["+name+"]"] = w.statPaths
		r.Inv["path_enumerations["+name+"]"] = w.statPathFns
		r.Inv["abstract_states["+name+"]"] = w.statAbsStates
	}
	r.Inv["configs"] = cfgNames
	if *tier == "thorough" {
		runControls(r, id, *repo, *verif)
	}
	os.Exit(r.finish(*verif))
}

func envOr(k, d string) string {
	if v := os.Getenv(k); v != "" {
		return v
	}
	return d
}
