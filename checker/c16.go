package main

func init() { checks["C16"] = checkC16 }

// livenessAll: the whole liveness skeleton under one rule prefix.
func livenessAll(w *World, r *Report, pfx string) {
	checkLiveness(w, r, pfx, nil)
	checkRenderReqReceivers(w, r, pfx)
	checkReplyProtocol(w, r, pfx)
	checkStateReply(w, r, pfx)
	checkProducerClose(w, r, pfx)
	checkIteratorConsumers(w, r, pfx)
	checkEndOnExit(w, r, pfx)
	checkOneFrame(w, r, pfx)
	checkNoRequestWhileIterating(w, r, pfx)
	checkWaitGroups(w, r, pfx)
	checkBarExit(w, r, pfx)
}

// C16 — no goroutine outlives its container: every blocking operation reachable from a
// `go` target is escapable on a termination signal, a reply leg with a committed peer, a
// range over a channel its producer closes, or the single send on the user-owned channel.
func checkC16(w *World, r *Report) {
	r.Explain = "Communication-shape classification of every blocking channel/WaitGroup operation of the module (table built from SSA, channel operands resolved to classes by origin tracing): each must fit a schema that cannot block forever once its peers follow theirs - inbox offer with the actor's liveness alternative, select with a close-only termination alternative whose arm leaves the loop, reply leg (one reply per accepted request), range over a channel closed by its producer on every path, buffered one-frame-per-render channel, listener forward justified by who-closes-done, width exchange, single detached notifier send. Plus go-site inventory. Decides the structural necessary conditions for goroutine termination; does not decide global deadlock freedom or user callbacks that block."
	r.Assume = append(r.Assume, "the user reads the shutdown notifier channel if one is configured", "user callbacks return")
	ri := w.Roles()
	r.Inv["go_sites"] = len(ri.GoSites)
	r.Inv["roles"] = ri.Order
	r.Inv["comm_ops"] = w.Comm().inventory()
	livenessAll(w, r, "C16")
	ruleOptionTable(w, r, "C16", map[string][3]string{"WithShutdownNotifier": {tPState, "shutdownNotifier", "param"}})
	// every go target is known (a new goroutine kind must be classified)
	for _, name := range ri.Order {
		if name == clientRole {
			continue
		}
		for _, t := range ri.Roots[name] {
			r.HoldsTrivial("C16.G-SITE", name, w.pos(t.Pos()), "go target analysed; its blocking operations are classified above")
		}
	}
	r.Floor("C16.G-SITE", 8, "go targets of the module")
	// a bar that is not announced to the width matrices leaves distributors (and itself) blocked forever
	fi := w.analyseFlush()
	ruleSuccessorSwap(w, r, "C16", fi)
	ruleAddPushesOrParks(w, r, "C16")
	ruleSyncArm(w, r, "C16")
	ruleDistributor(w, r, "C16")
	ruleFormatExchange(w, r, "C16")
	ruleInitChannel(w, r, "C16")
	ruleSyncAPI(w, r, "C16")
	ruleTerminalCancel(w, r, "C16", fi)
	ruleTriggerCancels(w, r, "C16")
	ruleDecorExchange(w, r, "C16")
	ruleDecorAlwaysCalled(w, r, "C16")
	ruleStateAgrees(w, r, "C16")
	ruleLocksReleased(w, r, "C16.L-UNLOCK")
	checkCloseOnce(w, r, "C16.R5")
	checkHeapSendDiscipline(w, r, "C16.R4")
}
