package main

import (
	"fmt"
	"go/types"
	"strings"

	"golang.org/x/tools/go/ssa"
)

func init() { checks["C10"] = checkC10 }

// C10 — atomic operations, no data races.
func checkC10(w *World, r *Report) {
	r.Explain = "Actor-confinement analysis over the resolved program (SSA + VTA/CHA call graph): for every access to a field of bState, pState, Bar and the cwriter buffer the provenance of the base pointer is traced through parameters, captured variables and call sites and classified as pre-publication, owner actor, post-exit (loaded from the published slot), heap/flush hand-over, or other; per field, if it is written after publication then every other access must be by the owner, or a post-exit read of a field no post-exit continuation writes (whole-struct loads, e.g. value receivers, count as a read of every field). Atomicity: every exported operation makes at most one inbox offer on any path (through helpers), owner loops call received closures synchronously, decorator state is mutated only from the bar actor and its fork-joined helpers. Decides absence of the race shapes and of multi-step (get-then-set) operations; linearizability as a history property is not decided."
	r.Assume = append(r.Assume, "one decorator instance per bar (documented)", "one render in flight per bar (follows from one frame per render request, C01)", "the heap loop does not touch a bar between handing it out on the ordered iterator and receiving it back (hand-over window of Bar.index/priority)")
	bar, cont := w.barLoop(), w.containerLoop()
	if bar == nil || cont == nil {
		r.Unresolved("anchor", "owner loops", "bar loop / container loop not found")
		return
	}
	rc := w.renderClosure()
	contReach := map[*ssa.Function]bool{}
	if rc != nil {
		contReach = w.reachNoGo([]*ssa.Function{rc})
	}
	// bState
	cb := &confiner{w: w, typ: tBState, owner: bar, memoP: map[*ssa.Parameter][]prov{}, slot: [2]string{tBar, "bs"}}
	w.confine(r, "C10.CONFINE", cb, func(fn *ssa.Function) bool { return contReach[fn] }, true)
	// pState
	cp := &confiner{w: w, typ: tPState, owner: cont, memoP: map[*ssa.Parameter][]prov{}}
	w.confine(r, "C10.CONFINE", cp, func(fn *ssa.Function) bool { return false }, true)
	r.Floor("C10.CONFINE", 30, "fields of bState and pState")

	checkBarFields(w, r, "C10.BAR")
	checkWriterConfinement(w, r, "C10.WRITER")
	checkOneOffer(w, r, "C10.ATOMIC")
	checkSyncCall(w, r, "C10.SYNCCALL")
	checkDecoratorState(w, r, "C10.DECOR")
	checkGetterFinality(w, r, "C10.R2")
	checkBarExit(w, r, "C10")
	ruleHandover(w, r, "C10.HANDOVER")
	ruleLoopVarCapture(w, r, "C10.LOOPVAR")
	ruleThreadSafeAverage(w, r, "C10.TSMA")
	ruleNoCallerAlias(w, r, "C10")
	// an operation that hands the caller's memory to the actor returns only after the actor's reply
	checkReplyProtocol(w, r, "C10")
}

// ruleHandover: on every exit path of the bar loop nothing touches the bar state after it was
// published (stored into Bar.bs): the ready channel's close is the hand-over point.
func ruleHandover(w *World, r *Report, rule string) {
	loop, _, arm := w.barExitArm(r)
	if loop == nil || arm == nil {
		return
	}
	bad := ""
	n, over := w.enumPaths(loop, pathOpts{InlineDepth: 3, Inline: w.helperInline(loop), Start: arm}, func(p *Path) {
		if bad != "" || p.Exit != "return" {
			return
		}
		iPub := -1
		for _, ev := range p.Events {
			if f, _, ok := p.storeField(ev); ok && f.Owner == tBar && f.Name == "bs" {
				iPub = ev.Idx
			}
		}
		if iPub < 0 {
			bad = "an exit path does not publish the bar state"
			return
		}
		for _, ev := range p.Events[iPub+1:] {
			switch x := ev.In.(type) {
			case *ssa.Store:
				if f, ok := fieldOf(x.Addr); ok && f.Owner == tBState {
					bad = "bState." + f.Name + " is written at " + w.instrPos(x) + " after the state was published: getters and the render of the exited bar read it concurrently (data race, non-final values)"
				}
			case *ssa.Call:
				if x.Call.IsInvoke() || (x.Call.StaticCallee() != nil && w.modSet[x.Call.StaticCallee()]) {
					for _, a := range x.Call.Args {
						if typeName(a.Type()) == tBState {
							bad = "the bar state is handed to " + x.Call.String() + " after it was published"
						}
					}
				}
			case *ssa.UnOp:
				if f, ok := loadedField(x); ok && f.Owner == tBState && ev.F.Fn == loop {
					// reads after publication by the owner are harmless only for fields nobody writes post-exit; decorGroups walk must precede
					if f.Name == "decorGroups" {
						bad = "the decorators are walked after the state was published"
					}
				}
			}
		}
	})
	if over {
		r.Undecided(rule, "bar loop exit", w.pos(loop.Pos()), "path cap")
		return
	}
	r.Check(bad == "" && n > 0, rule, "bar loop exit", w.pos(loop.Pos()), "nothing touches the state after publication", bad)
}

// checkBarFields: Bar.{index,priority} are touched only by the heap role, by flush inside the
// hand-over window (the iterated bar / its parked successor) and by the constructor; the other
// fields are never stored after construction, bs exactly in the bar loop.
func checkBarFields(w *World, r *Report, rule string) {
	ri := w.Roles()
	heap := w.heapLoop()
	flush := w.flushFn()
	ctor := w.barConstructor()
	if heap == nil || flush == nil || ctor == nil {
		r.Unresolved("anchor", "heap loop / flush / bar constructor", "not found")
		return
	}
	heapRole := "go:" + fnShort(heap)
	fi := w.analyseFlush()
	acc := w.collectAccesses(tBar)
	n := 0
	for _, a := range acc {
		if a.Whole {
			r.Violated(rule, "whole-struct access to Bar in "+fnShort(a.Fn), w.instrPos(a.In), "a Bar is copied or overwritten as a whole: races with the heap loop's index/priority bookkeeping")
			continue
		}
		switch a.Field {
		case "index", "priority":
			n++
			roles := ri.RolesOf(a.Fn)
			onlyHeap := len(roles) > 0
			for _, ro := range roles {
				if ro != heapRole {
					onlyHeap = false
				}
			}
			ok := onlyHeap
			why := "heap role"
			if !ok && a.Fn == ctor && !w.afterPublication(a.In) {
				ok, why = true, "constructor, before the bar goroutine starts"
			}
			if !ok && a.Fn == flush && fi.Undecided == "" {
				base := w.origin(a.Base)
				if base == fi.Bar {
					ok, why = true, "flush hand-over window (iterated bar)"
				}
				if ex, isEx := base.(*ssa.Extract); isEx {
					if lk, isLk := ex.Tuple.(*ssa.Lookup); isLk && isLoad(Val{V: lk.X}, tPState, "queueBars") {
						ok, why = true, "parked successor (not in the heap)"
					}
				}
			}
			// a private helper of flush, called from inside the collection loop with the iterated bar
			if !ok && a.Fn != flush && fi.Undecided == "" && w.unit(flush)[a.Fn] {
				base := w.origin(a.Base)
				if par, isP := base.(*ssa.Parameter); isP && par.Parent() == a.Fn {
					idx := -1
					for i, q := range a.Fn.Params {
						if q == par {
							idx = i
						}
					}
					sites := w.callers[a.Fn]
					all := len(sites) > 0 && idx >= 0
					var loop *loopInfo
					for _, l := range naturalLoops(flush) {
						if l.Header == fi.Header {
							loop = l
						}
					}
					for _, site := range sites {
						if site.Parent() != flush || site.Common().StaticCallee() != a.Fn || loop == nil || !loop.Blocks[site.Block()] ||
							idx >= len(site.Common().Args) || w.origin(site.Common().Args[idx]) != fi.Bar {
							all = false
						}
					}
					if all {
						ok, why = true, "flush hand-over window (iterated bar, in a helper called from the collection loop)"
					}
				}
				if ex, isEx := base.(*ssa.Extract); isEx {
					if lk, isLk := ex.Tuple.(*ssa.Lookup); isLk && isLoad(Val{V: lk.X}, tPState, "queueBars") {
						ok, why = true, "parked successor (not in the heap)"
					}
				}
			}
			k := "read"
			if a.Write {
				k = "write"
			}
			r.Check(ok, rule, fmt.Sprintf("%s of Bar.%s in %s", k, a.Field, fnShort(a.Fn)), w.instrPos(a.In), why,
				fmt.Sprintf("Bar.%s is owned by the heap-manager goroutine (and by flush only while the bar is handed out); this access runs in roles %v outside that window: data race / stale value", a.Field, roles))
		case "bs":
			// covered by C02.R2 / C10.R2
		default:
			if a.Write {
				ok := a.Fn == ctor && !w.afterPublication(a.In)
				r.Check(ok, rule, "store to Bar."+a.Field+" in "+fnShort(a.Fn), w.instrPos(a.In), "constructor only", "an immutable Bar field is stored after construction")
			}
		}
	}
	r.Floor(rule, 8, "accesses to Bar.index / Bar.priority")
}

// checkWriterConfinement: the cwriter buffer is used only by the container role (and by the
// constructor before the container loop starts).
func checkWriterConfinement(w *World, r *Report, rule string) {
	ri := w.Roles()
	cont := w.containerLoop()
	contRole := "go:" + fnShort(cont)
	n := 0
	for _, fn := range w.ModFns {
		if fn.Pkg == w.Cw {
			continue
		}
		uses := false
		var first ssa.Instruction
		for _, b := range fn.Blocks {
			for _, in := range b.Instrs {
				c, ok := in.(ssa.CallInstruction)
				if !ok {
					continue
				}
				for _, a := range c.Common().Args {
					if typeName(a.Type()) == "cwriter.Writer" {
						if sc := c.Common().StaticCallee(); sc != nil && sc.Pkg == w.Cw && sc.Name() != "New" {
							uses = true
							if first == nil {
								first = in
							}
						}
					}
				}
			}
		}
		// writing through the embedded buffer
		for _, b := range fn.Blocks {
			for _, in := range b.Instrs {
				if fa, ok := in.(*ssa.FieldAddr); ok && typeName(fa.X.Type()) == "cwriter.Writer" {
					uses = true
					if first == nil {
						first = in
					}
				}
			}
		}
		if !uses {
			continue
		}
		n++
		roles := ri.RolesOf(fn)
		ok := true
		for _, ro := range roles {
			if ro == contRole {
				continue
			}
			if ro == clientRole && !w.afterPublication(first) {
				continue // constructor, before go serve
			}
			ok = false
		}
		r.Check(ok && len(roles) > 0, rule, "user of the cwriter buffer: "+fnShort(fn), w.instrPos(first), "container role only", fmt.Sprintf("the output buffer is used from roles %v: only the container loop may write frames/text (race, bytes after Wait)", roles))
	}
	r.Floor(rule, 3, "serve, render, flush")
	// the io.Writer handed to intercepted writes is called only by closures run by the container loop
}

// checkOneOffer: every exported method of Bar and Progress makes at most one inbox offer on any path.
func checkOneOffer(w *World, r *Report, rule string) {
	n := 0
	for _, fn := range w.ModFns {
		if fn.Parent() != nil || !w.isClientEntry(fn) || fn.Signature.Recv() == nil {
			continue
		}
		tn := typeName(fn.Signature.Recv().Type())
		if tn != tBar && tn != "mpb.Progress" {
			continue
		}
		maxOffers := 0
		_, over := w.enumPaths(fn, pathOpts{InlineDepth: 3, MaxPaths: 5000}, func(p *Path) {
			c := 0
			for _, ev := range p.Events {
				sel, ok := ev.In.(*ssa.Select)
				if !ok {
					continue
				}
				op := w.Comm().byIn[sel]
				if op == nil {
					continue
				}
				for i, s := range op.States {
					if s.Dir == types.SendOnly {
						if _, ok := isInbox(s.Class); ok && p.armTaken(sel) == i {
							c++
						}
					}
				}
			}
			if c > maxOffers {
				maxOffers = c
			}
		})
		if over {
			r.Undecided(rule, "API:"+fnShort(fn), w.pos(fn.Pos()), "path cap")
			continue
		}
		if maxOffers == 0 {
			continue
		}
		n++
		r.Check(maxOffers <= 1, rule, "API:"+fnShort(fn), w.pos(fn.Pos()), "one actor round-trip per operation", fmt.Sprintf("the operation is split into %d actor round-trips on some path (read-then-write across messages is not atomic: lost updates)", maxOffers))
	}
	r.Floor(rule, 20, "exported Bar/Progress methods that reach an actor")
}

// checkSyncCall: closures received from an inbox are called by the owner loop, never spawned.
func checkSyncCall(w *World, r *Report, rule string) {
	for _, loop := range []*ssa.Function{w.barLoop(), w.containerLoop()} {
		if loop == nil {
			continue
		}
		for _, op := range w.Comm().byFn[loop] {
			if op.Kind != "select" {
				continue
			}
			sel := op.Instr.(*ssa.Select)
			for i, s := range op.States {
				if s.Dir != types.RecvOnly {
					continue
				}
				if _, ok := isInbox(s.Class); !ok {
					continue
				}
				// the received value: extract #(2+recvIndex)
				ri := 0
				for j := 0; j < i; j++ {
					if op.States[j].Dir == types.RecvOnly {
						ri++
					}
				}
				var recv ssa.Value
				for _, ref := range *sel.Referrers() {
					if ex, ok := ref.(*ssa.Extract); ok && ex.Index == 2+ri {
						recv = ex
					}
				}
				construct := "closure received on " + s.Class.String() + " in " + fnShort(loop)
				if recv == nil {
					r.Violated(rule, construct, w.instrPos(sel), "the received operation is dropped (never called)")
					continue
				}
				bad := ""
				called := 0
				for _, ref := range *recv.Referrers() {
					switch x := ref.(type) {
					case *ssa.Call:
						if x.Call.Value == recv {
							called++
						} else {
							bad = "the received closure is passed on instead of being called by the owner"
						}
					case *ssa.Go, *ssa.Defer:
						bad = "the received closure is run in a new goroutine / deferred: operations are no longer serialised by the owner (data race, lost updates)"
					case *ssa.DebugRef:
					default:
						bad = "the received closure escapes the owner loop"
					}
				}
				if called != 1 && bad == "" {
					bad = fmt.Sprintf("the received closure is called %d times", called)
				}
				r.Check(bad == "", rule, construct, w.instrPos(sel), "called synchronously, once", bad)
			}
		}
	}
	r.Floor(rule, 3, "bar inbox, container inbox, interceptIO")
}

// checkDecoratorState: functions that write fields of decorator/filler structs or captured
// cells of the decor package (after construction) run only in the bar actor, the render
// continuation or the fork-joined ewma helpers.
func checkDecoratorState(w *World, r *Report, rule string) {
	ri := w.Roles()
	bar := w.barLoop()
	allowed := map[string]bool{"go:" + fnShort(bar): true}
	for _, name := range ri.Order {
		if strings.HasPrefix(name, "go:(*mpb.Bar).render") {
			allowed[name] = true
		}
	}
	// fork-joined helpers of an allowed role: every `go` site that starts the role lies in a function that
	// runs only in allowed roles, and the started function signals a wait group (the pairing of that
	// group's Add / Done / Wait is L-WG's business); closed to a fixpoint, so a helper that starts the
	// goroutines on behalf of an operation closure is covered like the closure itself
	callsDone := func(fn *ssa.Function) bool {
		for _, b := range fn.Blocks {
			for _, in := range b.Instrs {
				var cc *ssa.CallCommon
				switch x := in.(type) {
				case *ssa.Call:
					cc = &x.Call
				case *ssa.Defer:
					cc = &x.Call
				}
				if cc != nil {
					if sc := cc.StaticCallee(); sc != nil && sc.String() == "(*sync.WaitGroup).Done" {
						return true
					}
				}
			}
		}
		return false
	}
	for changed := true; changed; {
		changed = false
		for _, name := range ri.Order {
			if allowed[name] || !strings.HasPrefix(name, "go:") {
				continue
			}
			ok, sites := true, 0
			for _, g := range ri.GoSites {
				starts := false
				for _, t := range w.goTargets(g) {
					if "go:"+fnShort(t) == name {
						starts = true
						if !callsDone(t) {
							ok = false
						}
					}
				}
				if !starts {
					continue
				}
				sites++
				spawnerRoles := ri.RolesOf(g.Parent())
				if len(spawnerRoles) == 0 {
					ok = false
				}
				for _, ro := range spawnerRoles {
					if !allowed[ro] {
						ok = false
					}
				}
			}
			if ok && sites > 0 {
				allowed[name] = true
				changed = true
			}
		}
	}
	n := 0
	for _, fn := range w.ModFns {
		if fn.Pkg != w.Decor && !(fn.Pkg == w.Mpb && fn.Signature.Recv() != nil && strings.HasSuffix(typeName(fn.Signature.Recv().Type()), "Filler")) {
			continue
		}
		if w.isClientEntry(fn) && fn.Parent() == nil {
			continue // constructors
		}
		writes := false
		var at ssa.Instruction
		for _, b := range fn.Blocks {
			for _, in := range b.Instrs {
				st, ok := in.(*ssa.Store)
				if !ok {
					continue
				}
				switch a := st.Addr.(type) {
				case *ssa.FieldAddr:
					if _, isParam := w.origin(a.X).(*ssa.Parameter); isParam {
						writes, at = true, in
					}
				case *ssa.FreeVar:
					writes, at = true, in
				case *ssa.IndexAddr:
					if _, isParam := w.origin(a.X).(*ssa.Parameter); isParam {
						writes, at = true, in
					}
				}
			}
		}
		if !writes {
			continue
		}
		// constructors that initialise through a pointer receiver (WC.Init) are build-time
		roles := ri.RolesOf(fn)
		bad := ""
		for _, ro := range roles {
			if allowed[ro] {
				continue
			}
			if ro == clientRole {
				// reachable from the client only through constructors (pre-publication) or documented direct use
				if w.onlyViaConstructors(fn) {
					continue
				}
			}
			bad = fmt.Sprintf("decorator/filler state is mutated by %s in roles %v: only the bar actor, its render continuation and its fork-joined helpers may", fnShort(fn), roles)
		}
		n++
		r.Check(bad == "", rule, "mutator "+fnShort(fn), w.instrPos(at), "bar actor roles only", bad)
	}
	r.Floor(rule, 8, "EwmaUpdate x2, AverageAdjust x2, averageSpeed.Decor, fillers, closures with cached cells")
}

// onlyViaConstructors: every client-role path to fn passes through an exported constructor of
// its package (the object is not yet handed to a bar).
func (w *World) onlyViaConstructors(fn *ssa.Function) bool {
	seen := map[*ssa.Function]bool{}
	var up func(f *ssa.Function) bool
	up = func(f *ssa.Function) bool {
		if seen[f] {
			return true
		}
		seen[f] = true
		if f.Parent() == nil && w.isClientEntry(f) && f.Signature.Recv() == nil {
			return true // exported package-level constructor
		}
		sites := w.callers[f]
		if len(sites) == 0 {
			return f.Parent() != nil // closure not called anywhere in the module from the client side
		}
		for _, s := range sites {
			p := s.Parent()
			roles := w.Roles().RolesOf(p)
			inClient := false
			for _, ro := range roles {
				if ro == clientRole {
					inClient = true
				}
			}
			if !inClient {
				continue
			}
			if !up(p) {
				return false
			}
		}
		return true
	}
	// methods reachable by interface dispatch from client entry points other than constructors fail
	if fn.Parent() == nil && w.isClientEntry(fn) {
		return false
	}
	return up(fn)
}
