package main

import (
	"fmt"
	"go/token"
	"go/types"
	"sort"
	"strings"

	"golang.org/x/tools/go/ssa"
)

func init() { checks["C02"] = checkC02 }

func isInbox(cs classSet) (string, bool) {
	for _, c := range []string{"Progress.operateState", "Progress.interceptIO", "Bar.operateState"} {
		if cs.has(c) {
			return c, true
		}
	}
	return "", false
}

// escapeFor: the liveness classes that must accompany an offer on the inbox.
func escapeOK(inbox string, states []selState) bool {
	for _, s := range states {
		if s.Dir != types.RecvOnly {
			continue
		}
		switch inbox {
		case "Progress.operateState", "Progress.interceptIO":
			if s.Class.only("Progress.done") {
				return true
			}
		case "Bar.operateState":
			if s.Class.only("Done(Bar.ctx)") || s.Class.only("Bar.bsOk") {
				return true
			}
		}
	}
	return false
}

// C02 — no panic and no hang for any order of valid API calls.
func checkC02(w *World, r *Report) {
	r.Explain = "Communication-shape rules over the table of every channel operation of the module (classes resolved by origin tracing), plus path and abstract-reachability arguments: (R1) every offer on an actor inbox is a blocking select with the matching liveness alternative, no bare inbox send; (R2) the published bar state is read only after the ready channel, stored once before its close; (R3) late Add/Write/mutators return the documented values without effect; (R4) every send on the heap-manager request channel is made by the container role, none from a spawned goroutine, none reachable after the end request; (R5) every close site executes at most once per channel instance, signal-only channels are never sent on; (R6) heap request payload types agree with the handler's assertions, every command has an arm; proxy fast-path assertions are guarded by construction; (R7) modulo-indexed frame lists are non-empty by construction; the only panics are the documented ones. Decides these necessary conditions on all paths; does not decide absence of panics inside user callbacks or global deadlock freedom."
	r.Assume = append(r.Assume, "user callbacks (fillers, decorators, writers, traverse callbacks) do not panic or block", "WaitGroup misuse by racing Add with Wait on an empty container is out of scope")
	ct := w.Comm()
	r.Inv["comm_ops"] = ct.inventory()

	// R1 ------------------------------------------------------------------
	nBar, nCont := 0, 0
	for _, op := range ct.Ops {
		switch op.Kind {
		case "send":
			if ib, ok := isInbox(op.Class); ok {
				r.Violated("C02.R1", "bare send on "+ib+" in "+fnShort(op.Fn), w.instrPos(op.Instr), "an inbox send without a liveness alternative blocks forever once the actor has exited")
			}
		case "select":
			for _, s := range op.States {
				if s.Dir != types.SendOnly {
					continue
				}
				ib, ok := isInbox(s.Class)
				if !ok {
					continue
				}
				if ib == "Bar.operateState" {
					nBar++
				} else {
					nCont++
				}
				construct := "offer on " + ib + " in " + fnShort(op.Fn)
				if !op.Blocking {
					r.Violated("C02.R1", construct, w.instrPos(op.Instr), "inbox offer in a non-blocking select: the operation can be dropped silently")
					continue
				}
				r.Check(escapeOK(ib, op.States), "C02.R1", construct, w.instrPos(op.Instr),
					"select also receives from the actor's liveness channel", "select offers work to an actor without receiving from that actor's done/ctx/ready channel: the call hangs once the actor is gone")
			}
		}
	}
	r.Inv["inbox_offers_bar"] = nBar
	r.Inv["inbox_offers_container"] = nCont
	// floors on API anchors: each exported method below must contain an inbox offer
	apiBar := []string{"ProxyReader", "ProxyWriter", "ID", "Current", "SetRefill", "TraverseDecorators", "EnableTriggerComplete", "SetTotal", "SetCurrent", "IncrInt64", "EwmaIncrInt64", "EwmaSetCurrent", "Abort", "Aborted", "Completed"}
	for _, m := range apiBar {
		fn := w.Func("mpb.(*Bar)." + m)
		if fn == nil {
			r.Unresolved("anchor", "API:Bar."+m, "exported method not found")
			continue
		}
		if len(w.offersIn(fn)) == 0 {
			r.Undecided("C02.R1", "API:Bar."+m+" reaches the bar actor", w.pos(fn.Pos()), "method no longer offers a closure on the bar inbox; the escape rule cannot be anchored")
		}
	}
	for _, m := range []string{"Add", "Write", "UpdateBarPriority", "traverseBars"} {
		fn := w.Func("mpb.(*Progress)." + m)
		if fn == nil {
			r.Unresolved("anchor", "API:Progress."+m, "method not found")
			continue
		}
		if len(w.offersIn(fn)) == 0 {
			r.Undecided("C02.R1", "API:Progress."+m+" reaches the container actor", w.pos(fn.Pos()), "method no longer offers a closure on the container inbox")
		}
	}

	// the whole liveness skeleton: an API call hangs exactly when one of these pairings breaks
	livenessAll(w, r, "C02")
	// a bar that is not announced to the width matrices, a skipped or doubled width exchange,
	// a terminal frame that never cancels: each of these hangs every later API call
	fi := w.analyseFlush()
	ruleSuccessorSwap(w, r, "C02", fi)
	ruleTerminalCancel(w, r, "C02", fi)
	ruleAddPushesOrParks(w, r, "C02")
	ruleSyncArm(w, r, "C02")
	ruleFormatExchange(w, r, "C02")
	ruleInitChannel(w, r, "C02")
	ruleSyncAPI(w, r, "C02")
	ruleDecorExchange(w, r, "C02")
	ruleDecorAlwaysCalled(w, r, "C02")
	ruleTriggerCancels(w, r, "C02")
	ruleRenderTerminal(w, r, "C02")
	ruleStateAgrees(w, r, "C02")
	ruleHeapIndex(w, r, "C02")
	ruleFixArm(w, r, "C02")
	ruleBarWait(w, r, "C02")

	// R2: getter finality ---------------------------------------------------
	checkGetterFinality(w, r, "C02.R2")

	// R3: late results ------------------------------------------------------
	checkLateResults(w, r, "C02.R3")

	// R4: heap manager request channel ---------------------------------------
	checkHeapSendDiscipline(w, r, "C02.R4")

	// R5: close-once ---------------------------------------------------------
	checkCloseOnce(w, r, "C02.R5")

	// R6: payload table ------------------------------------------------------
	checkHeapTable(w, r, "C02.R6")
	checkProxyAssertions(w, r, "C02.R6p")

	// R7: documented panics only; modulo indexing on non-empty lists -----------
	checkPanics(w, r, "C02.R7")
	ruleStateInitialised(w, r, "C02")
	checkModuloIndex(w, r, "C02.R7m")
}

// checkGetterFinality: every load of Bar.bs happens after a receive from Bar.bsOk on the
// same path (select arm or plain receive); Bar.bs is stored only in the bar loop.
func checkGetterFinality(w *World, r *Report, rule string) {
	loop := w.barLoop()
	n := 0
	for _, fn := range w.ModFns {
		loads := false
		for _, b := range fn.Blocks {
			for _, in := range b.Instrs {
				if u, ok := in.(*ssa.UnOp); ok && u.Op == token.MUL {
					if f, ok := fieldOf(u.X); ok && f.Owner == tBar && f.Name == "bs" {
						loads = true
					}
				}
				if st, ok := in.(*ssa.Store); ok {
					if f, ok := fieldOf(st.Addr); ok && f.Owner == tBar && f.Name == "bs" {
						r.Check(loop != nil && w.unit(loop)[fn], rule, "store Bar.bs in "+fnShort(fn), w.instrPos(in), "published by the bar loop", "the published bar state is stored outside the bar loop")
					}
				}
			}
		}
		if !loads {
			continue
		}
		n++
		bad := ""
		var wit []string
		_, over := w.enumPaths(fn, pathOpts{}, func(p *Path) {
			if bad != "" {
				return
			}
			for _, ev := range p.Events {
				u, ok := ev.In.(*ssa.UnOp)
				if !ok || u.Op != token.MUL {
					continue
				}
				f, ok := fieldOf(u.X)
				if !ok || f.Owner != tBar || f.Name != "bs" {
					continue
				}
				// need a preceding receive from bsOk on this path
				okRecv := false
				for _, pe := range p.Events[:ev.Idx] {
					op := w.Comm().byIn[pe.In]
					if op == nil {
						continue
					}
					if op.Kind == "recv" && op.Class.only("Bar.bsOk") {
						okRecv = true
					}
					if op.Kind == "select" {
						k := p.armTaken(pe.In.(*ssa.Select))
						if k >= 0 && k < len(op.States) && op.States[k].Dir == types.RecvOnly && op.States[k].Class.only("Bar.bsOk") {
							okRecv = true
						}
					}
				}
				if !okRecv {
					bad = "Bar.bs is read on a path that has not received from the bar's ready channel (bsOk): nil dereference or stale/racy read when the bar exits through ctx cancellation"
					wit = p.describe()
				}
			}
		})
		if over {
			r.Undecided(rule, "reader of Bar.bs: "+fnShort(fn), w.pos(fn.Pos()), "path cap")
			continue
		}
		r.Check(bad == "", rule, "reader of Bar.bs: "+fnShort(fn), w.pos(fn.Pos()), "every read of the published state follows a receive from bsOk", bad, wit...)
	}
	r.Floor(rule, 6, "ID, Current, Aborted, Completed, wSyncTable, render read the published state; plus the store")
	// the getters (result derives from bState) must use bsOk, not ctx.Done, as their alternative
	for _, m := range []string{"ID", "Current", "Aborted", "Completed", "wSyncTable", "render"} {
		fn := w.Func("mpb.(*Bar)." + m)
		if fn == nil {
			r.Unresolved("anchor", "API:Bar."+m, "not found")
			continue
		}
		ok := false
		for _, o := range w.offersIn(fn) {
			op := w.Comm().byIn[o.Sel]
			for _, s := range op.States {
				if s.Dir == types.RecvOnly && s.Class.only("Bar.bsOk") {
					ok = true
				}
			}
		}
		r.Check(ok, rule+"g", "API:Bar."+m, w.pos(fn.Pos()), "alternative is the ready channel", "a getter/renderer whose alternative is not the ready channel cannot return final values after the bar exits")
	}
}

func isErrDoneLoad(v Val) bool {
	u, ok := stripConv(v.V).(*ssa.UnOp)
	if !ok || u.Op != token.MUL {
		return false
	}
	g, ok := u.X.(*ssa.Global)
	return ok && g.Name() == "ErrDone"
}

func checkLateResults(w *World, r *Report, rule string) {
	type spec struct {
		name string
		want func(p *Path) string
	}
	isZero := func(v Val) bool {
		if isNilConst(v.V) {
			return true
		}
		k, ok := constInt(v.V)
		return ok && k == 0
	}
	cases := []spec{
		{"mpb.(*Progress).Add", func(p *Path) string {
			if len(p.Ret) != 2 || !isZero(p.Ret[0]) || !isErrDoneLoad(p.Ret[1]) {
				return "late Add must return (nil, ErrDone)"
			}
			return ""
		}},
		{"mpb.(*Progress).Write", func(p *Path) string {
			if len(p.Ret) != 2 || !isZero(p.Ret[0]) || !isErrDoneLoad(p.Ret[1]) {
				return "late Write must return (0, ErrDone)"
			}
			return ""
		}},
		{"mpb.(*Bar).ProxyReader", func(p *Path) string {
			if len(p.Ret) != 1 || !isZero(p.Ret[0]) {
				return "ProxyReader on a finished bar must return nil"
			}
			return ""
		}},
		{"mpb.(*Bar).ProxyWriter", func(p *Path) string {
			if len(p.Ret) != 1 || !isZero(p.Ret[0]) {
				return "ProxyWriter on a finished bar must return nil"
			}
			return ""
		}},
	}
	for _, m := range []string{"SetRefill", "TraverseDecorators", "EnableTriggerComplete", "SetTotal", "SetCurrent", "IncrInt64", "EwmaIncrInt64", "EwmaSetCurrent", "Abort"} {
		cases = append(cases, spec{"mpb.(*Bar)." + m, nil})
	}
	cases = append(cases, spec{"mpb.(*Progress).UpdateBarPriority", nil}, spec{"mpb.(*Progress).traverseBars", nil})
	for _, c := range cases {
		fn := w.Func(c.name)
		if fn == nil {
			r.Unresolved("anchor", "API:"+c.name, "not found")
			continue
		}
		offs := w.offersIn(fn)
		if len(offs) != 1 {
			r.Undecided(rule, "API:"+c.name, w.pos(fn.Pos()), "expected one inbox offer")
			continue
		}
		off := offs[0]
		bad := ""
		bypass := ""
		saw := false
		w.enumPaths(fn, off.opts(w), func(p *Path) {
			k := p.armTaken(off.Sel)
			if k < 0 && c.want != nil && p.Exit == "return" {
				// a documented late result: no return may bypass the offer (a shortcut in front of the
				// select answers a call made after shutdown with something else than the late result)
				bypass = "a path returns without offering the request to the actor (" + pathExitPos(w, p) + "): a call after shutdown is not answered with the documented late result"
			}
			if k < 0 || k == off.State {
				return
			}
			saw = true
			// escape arm: no effect after the select
			selIdx := -1
			for _, ev := range p.Events {
				if ev.In == off.Sel {
					selIdx = ev.Idx
				}
			}
			for _, ev := range p.Events[selIdx+1:] {
				switch x := ev.In.(type) {
				case *ssa.Store, *ssa.Send, *ssa.Go:
					bad = "the liveness arm has a side effect (" + w.instrPos(ev.In) + ")"
				case *ssa.Call:
					if !isPureCall(x) {
						bad = "the liveness arm calls " + x.Call.String()
					}
				}
			}
			if p.Exit != "return" {
				bad = "the liveness arm does not return"
			}
			if c.want != nil && bad == "" {
				bad = c.want(p)
			}
		})
		r.Check(bad == "" && saw, rule, "API:"+c.name+" liveness arm", w.pos(fn.Pos()), "returns the documented late result without effect", orStr(bad, "no liveness arm found"))
		if c.want != nil {
			r.Check(bypass == "", rule+"b", "API:"+c.name+" no bypass", w.pos(fn.Pos()), "every returning path passes through the offer to the actor", bypass)
		}
	}
}

func isPureCall(c *ssa.Call) bool {
	if b, ok := c.Call.Value.(*ssa.Builtin); ok {
		switch b.Name() {
		case "len", "cap":
			return true
		}
	}
	return false
}

// heapRequestSenders: functions that send on the heap-manager request channel, keyed by the
// command constant they put in the request (−1 unknown).
func (w *World) heapSenders() map[*ssa.Function]int64 {
	out := map[*ssa.Function]int64{}
	for _, op := range w.Comm().Ops {
		isSend := op.Kind == "send" && op.Class.has("heapManager")
		if op.Kind == "select" {
			for _, s := range op.States {
				if s.Dir == types.SendOnly && s.Class.has("heapManager") {
					isSend = true
				}
			}
		}
		if !isSend {
			continue
		}
		cmd := int64(-1)
		for _, b := range op.Fn.Blocks {
			for _, in := range b.Instrs {
				if st, ok := in.(*ssa.Store); ok {
					if f, ok := fieldOf(st.Addr); ok && f.Owner == "mpb.heapRequest" && f.Name == "cmd" {
						if k, ok := constInt(st.Val); ok {
							cmd = k
						}
					}
				}
			}
		}
		if _, dup := out[op.Fn]; dup {
			out[op.Fn] = -2 // more than one send in the function
		} else {
			out[op.Fn] = cmd
		}
	}
	// a single entry point `request(cmd, data)` that sends whatever command it is given: the
	// request constructors are its callers, keyed by the constant they pass
	for fn, cmd := range out {
		if cmd != -1 {
			continue
		}
		pidx := -1
		for _, b := range fn.Blocks {
			for _, in := range b.Instrs {
				if st, ok := in.(*ssa.Store); ok {
					if f, ok := fieldOf(st.Addr); ok && f.Owner == "mpb.heapRequest" && f.Name == "cmd" {
						if par, ok := w.origin(st.Val).(*ssa.Parameter); ok {
							for i, q := range fn.Params {
								if q == par {
									pidx = i
								}
							}
						}
					}
				}
			}
		}
		if pidx < 0 {
			continue
		}
		out[fn] = -3
		for _, site := range w.callers[fn] {
			if site.Common().StaticCallee() != fn || pidx >= len(site.Common().Args) || site.Parent().Synthetic != "" {
				continue
			}
			k, ok := constInt(site.Common().Args[pidx])
			if !ok {
				continue
			}
			if _, dup := out[site.Parent()]; dup {
				out[site.Parent()] = -2
			} else {
				out[site.Parent()] = k
			}
		}
	}
	return out
}

// heapArms: command constant -> first block of its arm in the heap loop, and the command
// whose arm closes the request channel.
func (w *World) heapArms() (loop *ssa.Function, arms map[int64]*ssa.BasicBlock, endCmd int64) {
	loop = w.heapLoop()
	arms = map[int64]*ssa.BasicBlock{}
	endCmd = -1
	if loop == nil {
		return
	}
	for _, b := range loop.Blocks {
		ifi, ok := b.Instrs[len(b.Instrs)-1].(*ssa.If)
		if !ok {
			continue
		}
		bin, ok := ifi.Cond.(*ssa.BinOp)
		if !ok || bin.Op != token.EQL {
			continue
		}
		if !isLoad(Val{V: stripConv(bin.X)}, "mpb.heapRequest", "cmd") {
			continue
		}
		if k, ok := constInt(bin.Y); ok {
			arms[k] = b.Succs[0]
		}
	}
	for _, op := range w.Comm().byFn[loop] {
		if op.Kind == "close" && op.Class.has("heapManager") {
			for k, ab := range arms {
				if armContains(loop, arms, k, ab, op.Instr.Block()) {
					endCmd = k
				}
			}
		}
	}
	return
}

// armContains: is block x part of arm k (reachable from the arm's first block without
// passing through the loop header or another arm's dispatch)?
func armContains(fn *ssa.Function, arms map[int64]*ssa.BasicBlock, k int64, start, x *ssa.BasicBlock) bool {
	loops := naturalLoops(fn)
	var outer *loopInfo
	for _, l := range loops {
		if l.Blocks[start] && (outer == nil || len(l.Blocks) > len(outer.Blocks)) {
			outer = l
		}
	}
	seen := map[*ssa.BasicBlock]bool{}
	stack := []*ssa.BasicBlock{start}
	for len(stack) > 0 {
		b := stack[len(stack)-1]
		stack = stack[:len(stack)-1]
		if seen[b] {
			continue
		}
		if outer != nil && b == outer.Header {
			continue
		}
		seen[b] = true
		if b == x {
			return true
		}
		stack = append(stack, b.Succs...)
	}
	return false
}

func checkHeapSendDiscipline(w *World, r *Report, rule string) {
	ri := w.Roles()
	cont := w.containerLoop()
	if cont == nil {
		r.Unresolved("anchor", "container loop", "no unique go target receiving from Progress.operateState")
		return
	}
	contRole := "go:" + fnShort(cont)
	senders := w.heapSenders()
	var fns []*ssa.Function
	for fn := range senders {
		fns = append(fns, fn)
	}
	sort.Slice(fns, func(i, j int) bool { return fnShort(fns[i]) < fnShort(fns[j]) })
	for _, fn := range fns {
		roles := ri.RolesOf(fn)
		ok := len(roles) == 1 && roles[0] == contRole
		r.Check(ok, rule, "sender on heapManager: "+fnShort(fn), w.pos(fn.Pos()),
			"executed only by the container loop, in program order",
			fmt.Sprintf("a send on the heap-manager request channel is reachable from roles %v; only the container loop may send (FIFO with the end request that closes the channel: otherwise send on closed channel / lost order)", roles))
	}
	r.Floor(rule, 6, "request constructors sync, push, iter, fix, state, end")
	// the sends themselves are plain (blocking) sends or selects, never inside a go target other than the container loop
	for _, op := range w.Comm().Ops {
		if op.Kind == "go" {
			for _, t := range op.GoTarget {
				if t == cont {
					continue
				}
				reach := w.reachNoGo([]*ssa.Function{t})
				for fn := range senders {
					if reach[fn] {
						r.Violated(rule, "spawned sender: "+fnShort(t)+" reaches "+fnShort(fn), w.instrPos(op.Instr), "a goroutine other than the container loop can send on the heap-manager request channel: the send can overtake later requests or hit the closed channel")
					}
				}
			}
		}
	}
	// no heap request reachable after the end request in the container loop (E4)
	_, _, endCmd := w.heapArms()
	var endFn *ssa.Function
	for fn, cmd := range senders {
		if cmd == endCmd && endCmd >= 0 {
			endFn = fn
		}
	}
	if endFn == nil {
		r.Undecided(rule+"e", "end request constructor", "", "cannot identify the request whose handler closes the request channel")
		return
	}
	reachesSender := func(c ssa.CallInstruction) bool {
		for _, callee := range w.Callees(c) {
			reach := w.reachNoGo([]*ssa.Function{callee})
			for fn := range senders {
				if reach[fn] {
					return true
				}
			}
		}
		return false
	}
	nEnd := 0
	unit := w.unit(cont)
	// continuation points: the end call itself and, when it sits in a private helper of the
	// container loop, the helper's call sites (transitively up to the loop function)
	var after func(fn *ssa.Function, in ssa.Instruction, depth int)
	after = func(fn *ssa.Function, in ssa.Instruction, depth int) {
		b := in.Block()
		bad := ""
		started := false
		w.absExplore(fn, b, nil, nil, 0, func(x ssa.Instruction, st *absState) {
			if x == in {
				started = true
				return
			}
			if x.Block() == b && !started {
				return
			}
			if ci, ok := x.(ssa.CallInstruction); ok && (x.Block() != b || instrIndex(x) > instrIndex(in)) {
				if _, isGo := x.(*ssa.Go); !isGo && reachesSender(ci) {
					bad = "a heap-manager request (" + w.instrPos(x) + ") is reachable after the end request: send on closed channel"
				}
			}
		})
		r.Check(bad == "", rule+"e", "after end request in "+map[bool]string{true: "container loop", false: fnShort(fn)}[fn == cont], w.instrPos(in), "no heap request reachable after end", bad)
		if fn != cont && depth < 3 {
			for _, site := range w.callers[fn] {
				if unit[site.Parent()] {
					after(site.Parent(), site, depth+1)
				}
			}
		}
	}
	var ufns []*ssa.Function
	for f := range unit {
		ufns = append(ufns, f)
	}
	sort.Slice(ufns, func(i, j int) bool { return ufns[i].Pos() < ufns[j].Pos() })
	for _, f := range ufns {
		for _, b := range f.Blocks {
			for _, in := range b.Instrs {
				c, ok := in.(*ssa.Call)
				if !ok || c.Call.StaticCallee() != endFn {
					continue
				}
				nEnd++
				after(f, in, 0)
			}
		}
	}
	if nEnd == 0 {
		r.Undecided(rule+"e", "end request in container loop", w.pos(cont.Pos()), "the container loop never sends the end request")
	}
	// only the container loop function (and its private helpers) may call the end constructor
	for _, site := range w.callers[endFn] {
		if site.Parent().Synthetic != "" {
			continue
		}
		r.Check(unit[site.Parent()], rule+"e", "caller of end request: "+fnShort(site.Parent()), w.instrPos(site), "called from the container loop", "the end request is sent from outside the container loop")
	}
}

// checkCloseOnce: every close site can execute at most once per channel instance.
func checkCloseOnce(w *World, r *Report, rule string) {
	ct := w.Comm()
	n := 0
	for _, op := range ct.Ops {
		if op.Kind != "close" {
			continue
		}
		n++
		fn := op.Fn
		construct := "close(" + op.Class.String() + ") in " + fnShort(fn)
		// (1) the close cannot reach itself within one activation of fn, unless the
		// channel operand is derived from a value received in the current loop iteration
		selfReach := instrReaches(op.Instr, op.Instr)
		perIter := false
		if selfReach {
			perIter = closeOperandPerIteration(op)
		}
		if selfReach && !perIter && closesRangedChannel(op) {
			r.Holds(rule, construct, w.instrPos(op.Instr), "closes the channel its own loop ranges over: the next receive fails and the loop is left (no request follows the end request: "+rule[:len(rule)-1]+"4e)")
			continue
		}
		if selfReach && !perIter {
			r.Violated(rule, construct, w.instrPos(op.Instr), "the close can execute again in the same activation (loop without leaving): double close panics")
			continue
		}
		// (2) no other close of the same class can execute after it in the same activation
		dup := ""
		for _, op2 := range ct.byFn[fn] {
			if op2 != op && op2.Kind == "close" && sameClass(op.Class, op2.Class) && instrReaches(op.Instr, op2.Instr) {
				if !(perIter && closeOperandPerIteration(op2) && differentFields(op, op2)) {
					dup = w.instrPos(op2.Instr)
				}
			}
		}
		if dup != "" {
			r.Violated(rule, construct, w.instrPos(op.Instr), "a second close of the same channel ("+dup+") is reachable after this one")
			continue
		}
		r.Holds(rule, construct, w.instrPos(op.Instr), "executes at most once per activation / per received request")
	}
	r.Floor(rule, 9, "close sites: done x2, bsOk, request channel, iter, iterPop, iterDrop x2, traverse drop")
	r.Inv["close_sites"] = n

	// signal-only channels are never sent on
	for _, cls := range []string{"Progress.done", "Bar.bsOk", "pState.iterDrop", "iterData.drop"} {
		bad := ""
		for _, op := range ct.Ops {
			if op.Kind == "send" && op.Class.has(cls) {
				bad = w.instrPos(op.Instr)
			}
			if op.Kind == "select" {
				for _, s := range op.States {
					if s.Dir == types.SendOnly && s.Class.has(cls) {
						bad = w.instrPos(op.Instr)
					}
				}
			}
		}
		r.Check(bad == "", rule+"s", "signal-only "+cls, "", "closed, never sent on", "a value is sent on a channel that is used as a close-only signal ("+bad+")")
	}

	// iterDrop (closed in render and flush, called repeatedly by the container loop):
	// after a render call returned an error, no further render call is reachable (E4).
	checkNoRenderAfterError(w, r, rule+"d")

	// done is closed by exactly the listener that was started for it; bsOk by the bar loop; request channel by the heap loop
	for _, c := range []struct{ cls, where string }{{"Bar.bsOk", "bar loop"}, {"heapManager", "heap loop"}} {
		var want *ssa.Function
		if c.where == "bar loop" {
			want = w.barLoop()
		} else {
			want = w.heapLoop()
		}
		for _, op := range ct.Ops {
			if op.Kind == "close" && op.Class.has(c.cls) {
				r.Check(want != nil && w.unit(want)[op.Fn], rule+"w", "closer of "+c.cls+": "+fnShort(op.Fn), w.instrPos(op.Instr), "closed by its owner ("+c.where+")", "closed outside its owner loop")
			}
		}
	}
}

// closesRangedChannel: the closed value is the very channel the enclosing loop receives
// from with comma-ok (range over channel), whose !ok edge leaves the loop.
func closesRangedChannel(op *commOp) bool {
	c, ok := op.Instr.(*ssa.Call)
	if !ok || len(c.Call.Args) != 1 {
		return false
	}
	ch := c.Call.Args[0]
	fn := op.Fn
	for _, l := range naturalLoops(fn) {
		if !l.Blocks[op.Instr.Block()] {
			continue
		}
		for b := range l.Blocks {
			for _, in := range b.Instrs {
				u, ok := in.(*ssa.UnOp)
				if !ok || u.Op != token.ARROW || !u.CommaOk || u.X != ch {
					continue
				}
				// the ok result decides a branch that leaves the loop
				for _, ref := range *u.Referrers() {
					ex, ok := ref.(*ssa.Extract)
					if !ok || ex.Index != 1 {
						continue
					}
					for _, r2 := range *ex.Referrers() {
						if ifi, ok := r2.(*ssa.If); ok && !l.Blocks[ifi.Block().Succs[1]] {
							return true
						}
					}
				}
			}
		}
	}
	return false
}

func sameClass(a, b classSet) bool {
	for k := range a {
		if b[k] {
			return true
		}
	}
	return false
}

// closeOperandPerIteration: the closed channel is a field of a value obtained (by type
// assertion) from the request received in the current iteration of the enclosing loop.
func closeOperandPerIteration(op *commOp) bool {
	var c *ssa.CallCommon
	switch x := op.Instr.(type) {
	case *ssa.Call:
		c = &x.Call
	case *ssa.Defer:
		c = &x.Call
	}
	if c == nil || len(c.Args) != 1 {
		return false
	}
	v := c.Args[0]
	seen := map[ssa.Value]bool{}
	var derivesFromRecv func(v ssa.Value) bool
	derivesFromRecv = func(v ssa.Value) bool {
		if seen[v] {
			return false
		}
		seen[v] = true
		switch x := v.(type) {
		case *ssa.UnOp:
			if x.Op == token.ARROW {
				return true
			}
			if x.Op == token.MUL {
				// load from a local cell: all stores must derive from the receive
				if fa, ok := x.X.(*ssa.FieldAddr); ok {
					return derivesFromRecv(fa.X)
				}
				if al, ok := x.X.(*ssa.Alloc); ok {
					return allocFedByRecv(al, derivesFromRecv)
				}
			}
		case *ssa.Alloc:
			return allocFedByRecv(x, derivesFromRecv)
		case *ssa.Field:
			return derivesFromRecv(x.X)
		case *ssa.FieldAddr:
			return derivesFromRecv(x.X)
		case *ssa.TypeAssert:
			return derivesFromRecv(x.X)
		case *ssa.Extract:
			return derivesFromRecv(x.Tuple)
		case *ssa.Phi:
			for _, e := range x.Edges {
				if !isNilConst(e) && !derivesFromRecv(e) {
					return false
				}
			}
			return true
		}
		return false
	}
	return derivesFromRecv(v)
}

func allocFedByRecv(al *ssa.Alloc, rec func(ssa.Value) bool) bool {
	ok := false
	for _, ref := range *al.Referrers() {
		if st, isSt := ref.(*ssa.Store); isSt && st.Addr == al {
			if !rec(st.Val) {
				return false
			}
			ok = true
		}
	}
	return ok
}

func differentFields(a, b *commOp) bool { return a.Class.String() != b.Class.String() }

// checkHeapTable: E9(a) — request constructors vs handler arms.
func checkHeapTable(w *World, r *Report, rule string) {
	loop, arms, _ := w.heapArms()
	if loop == nil {
		r.Unresolved("anchor", "heap loop", "not found")
		return
	}
	// constants of type heapCmd
	var cmds []int64
	names := map[int64]string{}
	for _, m := range w.Mpb.Members {
		if nc, ok := m.(*ssa.NamedConst); ok && typeName(nc.Type()) == "mpb.heapCmd" {
			if k, ok := constInt(nc.Value); ok {
				cmds = append(cmds, k)
				names[k] = nc.Name()
			}
		}
	}
	sort.Slice(cmds, func(i, j int) bool { return cmds[i] < cmds[j] })
	// constructors: cmd -> boxed payload type
	payload := map[int64]types.Type{}
	senders := w.heapSenders()
	for fn, cmd := range senders {
		if cmd == -3 {
			continue // the generic entry point: its callers are the constructors
		}
		if cmd < 0 {
			r.Undecided(rule, "request constructor "+fnShort(fn), w.pos(fn.Pos()), "cannot determine the command constant / more than one send")
			continue
		}
		for _, b := range fn.Blocks {
			for _, in := range b.Instrs {
				if st, ok := in.(*ssa.Store); ok {
					if f, ok := fieldOf(st.Addr); ok && f.Owner == "mpb.heapRequest" && f.Name == "data" {
						if mi, ok := st.Val.(*ssa.MakeInterface); ok {
							payload[cmd] = mi.X.Type()
						}
					}
				}
				// payload boxed for the generic entry point
				if c, ok := in.(*ssa.Call); ok {
					if h := c.Call.StaticCallee(); h != nil && senders[h] == -3 {
						for _, a := range c.Call.Args {
							if mi, ok := a.(*ssa.MakeInterface); ok {
								payload[cmd] = mi.X.Type()
							}
						}
					}
				}
			}
		}
	}
	for _, k := range cmds {
		construct := "heap command " + names[k]
		arm, ok := arms[k]
		if !ok {
			r.Violated(rule, construct, w.pos(loop.Pos()), "no handler arm for this command in the heap loop")
			continue
		}
		pt, okp := payload[k]
		if !okp {
			r.Violated(rule, construct, w.pos(loop.Pos()), "no request constructor sends this command")
			continue
		}
		// asserted types within the arm
		bad := ""
		nAssert := 0
		for _, b := range loop.Blocks {
			if !armContains(loop, arms, k, arm, b) {
				continue
			}
			for _, in := range b.Instrs {
				ta, ok := in.(*ssa.TypeAssert)
				if !ok || ta.CommaOk {
					continue
				}
				if !isLoad(Val{V: ta.X}, "mpb.heapRequest", "data") {
					continue
				}
				nAssert++
				if !types.Identical(ta.AssertedType, pt) {
					bad = fmt.Sprintf("handler asserts %s but the constructor boxes %s: the heap loop panics on the first such request", shortType(ta.AssertedType), shortType(pt))
				}
			}
		}
		r.Check(bad == "", rule, construct, w.pos(arm.Instrs[0].Pos()), fmt.Sprintf("payload %s agrees (%d assertions)", shortType(pt), nAssert), bad)
	}
	r.Floor(rule, 6, "heap commands")
}

// checkProxyAssertions: x.ReadCloser.(io.WriterTo) / x.WriteCloser.(io.ReaderFrom) without
// comma-ok are reached only through types constructed under the matching successful assertion.
func checkProxyAssertions(w *World, r *Report, rule string) {
	for _, fn := range w.ModFns {
		if fn.Pkg != w.Mpb {
			continue
		}
		for _, b := range fn.Blocks {
			for _, in := range b.Instrs {
				ta, ok := in.(*ssa.TypeAssert)
				if !ok || ta.CommaOk {
					continue
				}
				iface := typeName(ta.AssertedType)
				if iface != "io.WriterTo" && iface != "io.ReaderFrom" {
					continue
				}
				if fn.Signature.Recv() == nil {
					continue
				}
				recvT := fn.Signature.Recv().Type()
				construct := "unchecked assertion to " + iface + " in " + fnShort(fn)
				// every construction of recvT: on every path through it, a successful comma-ok assertion to iface was taken
				bad := ""
				nCons := 0
				isOkAssert := func(v Val) bool {
					ex, ok := v.V.(*ssa.Extract)
					if !ok || ex.Index != 1 {
						return false
					}
					ta, ok := ex.Tuple.(*ssa.TypeAssert)
					return ok && ta.CommaOk && typeName(ta.AssertedType) == iface
				}
				for _, g := range w.ModFns {
					cons := map[ssa.Instruction]bool{}
					for _, gb := range g.Blocks {
						for _, gi := range gb.Instrs {
							if mi, ok := gi.(*ssa.MakeInterface); ok && types.Identical(mi.X.Type(), recvT) {
								cons[gi] = true
							}
						}
					}
					if len(cons) == 0 {
						continue
					}
					nCons += len(cons)
					// guarded(root): on every path of root (private helpers inlined) every construction
					// event is preceded by the successful assertion; a helper that receives the outcome
					// as a parameter is judged from its callers.
					var guarded func(root *ssa.Function, depth int) string
					guarded = func(root *ssa.Function, depth int) string {
						fail := ""
						opts := pathOpts{}
						if root != g {
							opts = pathOpts{InlineDepth: 3, Inline: w.helperInline(root)}
						}
						_, over := w.enumPaths(root, opts, func(p *Path) {
							for _, ev := range p.Events {
								if cons[ev.In] && !p.hasBool(ev.Idx, true, isOkAssert) {
									fail = "a " + shortType(recvT) + " is constructed at " + w.instrPos(ev.In) + " on a path without a successful check that the wrapped value implements " + iface
								}
							}
						})
						if over {
							return "path cap in " + fnShort(root)
						}
						if fail == "" || depth >= 3 {
							return fail
						}
						// escalate to the callers when root is a private helper called only statically
						sites := w.callers[root]
						if len(sites) == 0 || w.anchors()[root] || root.Parent() != nil || token.IsExported(root.Name()) {
							return fail
						}
						for _, site := range sites {
							if site.Common().StaticCallee() != root {
								return fail
							}
						}
						for _, site := range sites {
							if f2 := guarded(site.Parent(), depth+1); f2 != "" {
								return f2
							}
						}
						return ""
					}
					if f := guarded(g, 0); f != "" {
						bad = f
					}
				}
				r.Check(bad == "" && nCons > 0, rule, construct, w.instrPos(in), fmt.Sprintf("%d constructions, all under a successful assertion", nCons), orStr(bad, "receiver type is never constructed"))
			}
		}
	}
	r.Floor(rule, 4, "WriteTo x2, ReadFrom x2 (+ nop closer)")
}

func dominatedByOkAssert(at ssa.Instruction, iface string) bool {
	fn := at.Parent()
	for _, b := range fn.Blocks {
		ifi, ok := b.Instrs[len(b.Instrs)-1].(*ssa.If)
		if !ok {
			continue
		}
		ex, ok := ifi.Cond.(*ssa.Extract)
		if !ok || ex.Index != 1 {
			continue
		}
		ta, ok := ex.Tuple.(*ssa.TypeAssert)
		if !ok || !ta.CommaOk || typeName(ta.AssertedType) != iface {
			continue
		}
		thenB := b.Succs[0]
		if thenB.Dominates(at.Block()) && len(thenB.Preds) == 1 {
			return true
		}
	}
	return false
}

// checkPanics: the only panic instructions in the module are the documented ones.
func checkPanics(w *World, r *Report, rule string) {
	allowed := func(fn *ssa.Function, p *ssa.Panic) (string, bool) {
		name := fnShort(fn)
		switch {
		case name == "(*mpb.Progress).MustAdd":
			return "MustAdd after done (documented)", true
		case name == "(*mpb.Bar).ProxyReader" || name == "(*mpb.Bar).ProxyWriter":
			return "nil reader/writer (documented)", true
		case name == "(decor.WC).Sync":
			return "uninitialised width config (documented)", true
		}
		// fmt.Formatter write-error branches: panic(err) where err is the error result of a write to the fmt.State
		if fn.Signature.Recv() != nil && fn.Name() == "Format" && fn.Signature.Params().Len() == 2 {
			return "fmt.Formatter write error", true
		}
		if fn.Pkg == w.Decor {
			v := p.X
			if ci, ok := v.(*ssa.ChangeInterface); ok {
				v = ci.X
			}
			if mi, ok := v.(*ssa.MakeInterface); ok {
				v = mi.X
			}
			if ex, ok := v.(*ssa.Extract); ok {
				if c, ok := ex.Tuple.(*ssa.Call); ok {
					isWrite := (c.Call.IsInvoke() && c.Call.Method.Name() == "Write") || (c.Call.StaticCallee() != nil && c.Call.StaticCallee().String() == "io.WriteString")
					if isWrite {
						for _, prm := range fn.Params {
							if typeName(prm.Type()) == "fmt.State" {
								return "fmt.Formatter write error (helper)", true
							}
						}
					}
				}
			}
		}
		// compiler-generated "blocking select matched no case"
		if mi, ok := p.X.(*ssa.MakeInterface); ok {
			if c, ok := mi.X.(*ssa.Const); ok && c.Value != nil && strings.Contains(c.Value.String(), "blocking select") {
				return "unreachable select fallthrough", true
			}
		}
		return "", false
	}
	n := 0
	for _, fn := range w.ModFns {
		for _, b := range fn.Blocks {
			for _, in := range b.Instrs {
				p, ok := in.(*ssa.Panic)
				if !ok {
					continue
				}
				why, ok := allowed(fn, p)
				if why == "unreachable select fallthrough" {
					continue
				}
				n++
				r.Check(ok, rule, "panic in "+fnShort(fn), w.instrPos(in), why, "an explicit panic outside the documented set (nil proxy argument, MustAdd after done, uninitialised WC, fmt.Formatter write errors)")
			}
		}
	}
	r.Inv["explicit_panics"] = n
}

// checkModuloIndex: x[count % len(x)] needs len(x) != 0 on every constructor path.
func checkModuloIndex(w *World, r *Report, rule string) {
	n := 0
	for _, fn := range w.ModFns {
		for _, b := range fn.Blocks {
			for _, in := range b.Instrs {
				bin, ok := in.(*ssa.BinOp)
				if !ok || bin.Op != token.REM {
					continue
				}
				// divisor derives from len(slice)
				d := stripConv(bin.Y)
				call, ok := d.(*ssa.Call)
				if !ok || !isBuiltinCall(&call.Call, "len") {
					continue
				}
				n++
				src := call.Call.Args[0]
				construct := "index modulo len in " + fnShort(fn)
				ok, why := w.nonEmptyAt(src, in, 0)
				r.Check(ok, rule, construct, w.instrPos(in), why, "the list indexed modulo its length can be empty: integer divide by zero at render time ("+why+")")
			}
		}
	}
	r.Floor(rule, 3, "bar tip frames, spinner filler frames, spinner decorator frames")
}

// pathExitPos: position of the last root-frame block of a path (where it returns).
func pathExitPos(w *World, p *Path) string {
	if n := len(p.Blocks); n > 0 {
		b := p.Blocks[n-1]
		for i := len(b.Instrs) - 1; i >= 0; i-- {
			if pos := b.Instrs[i].Pos(); pos.IsValid() {
				return w.pos(pos)
			}
		}
	}
	return "?"
}
