package main

import (
	"fmt"
	"go/token"
	"go/types"
	"os"
	"path/filepath"
	"sort"
	"strings"

	"golang.org/x/tools/go/callgraph"
	"golang.org/x/tools/go/callgraph/cha"
	"golang.org/x/tools/go/callgraph/vta"
	"golang.org/x/tools/go/packages"
	"golang.org/x/tools/go/ssa"
	"golang.org/x/tools/go/ssa/ssautil"
)

const modPath = "github.com/vbauerster/mpb/v8"

// World is the resolved program: typed packages, SSA, call graph.
type World struct {
	Repo   string
	GOOS   string
	GOARCH string
	Fset   *token.FileSet
	Pkgs   []*packages.Package
	Prog   *ssa.Program
	Mpb    *ssa.Package
	Decor  *ssa.Package
	Cw     *ssa.Package
	Intern *ssa.Package

	ModFns  []*ssa.Function // every function (incl. anonymous, wrappers excluded) of the module, sorted
	modSet  map[*ssa.Function]bool
	vtaG    *callgraph.Graph
	chaG    *callgraph.Graph
	callees map[ssa.CallInstruction][]*ssa.Function
	callers map[*ssa.Function][]ssa.CallInstruction
	Files   map[string]bool // repo-relative files parsed

	roles                                 *roleInfo
	escMemo                               map[*ssa.Function]bool
	msgStructs                            map[string]bool
	actorChans                            map[string]bool
	msgFieldStores                        map[string][]*ssa.Store
	spawnMemo                             map[*ssa.Function]bool
	statPaths, statPathFns, statAbsStates int
	anchorSet                             map[*ssa.Function]bool
	comm                                  *commTable
}

type brokenError struct{ msg string }

func (e brokenError) Error() string { return e.msg }

func broken(format string, a ...interface{}) {
	panic(brokenError{fmt.Sprintf(format, a...)})
}

func loadWorld(repo, goos, goarch string) *World {
	w := &World{Repo: repo, GOOS: goos, GOARCH: goarch, Files: map[string]bool{}}
	env := append(os.Environ(), "GOFLAGS=-mod=mod", "GOPROXY=off", "GOSUMDB=off", "GOTOOLCHAIN=local", "GOWORK=off")
	if goos != "" {
		env = append(env, "GOOS="+goos, "CGO_ENABLED=0")
	}
	if goarch != "" {
		env = append(env, "GOARCH="+goarch, "CGO_ENABLED=0")
	}
	cfg := &packages.Config{
		Mode:  packages.LoadAllSyntax,
		Dir:   repo,
		Env:   env,
		Tests: false,
	}
	pkgs, err := packages.Load(cfg, "./...")
	if err != nil {
		broken("packages.Load: %v", err)
	}
	var nerr int
	packages.Visit(pkgs, nil, func(p *packages.Package) {
		for _, e := range p.Errors {
			fmt.Fprintf(os.Stderr, "load error: %v\n", e)
			nerr++
		}
	})
	if nerr > 0 {
		broken("%d load/type errors in %s", nerr, repo)
	}
	var mod []*packages.Package
	for _, p := range pkgs {
		if p.PkgPath == modPath || strings.HasPrefix(p.PkgPath, modPath+"/") {
			if strings.Contains(p.PkgPath, "/_examples") {
				continue
			}
			mod = append(mod, p)
		}
	}
	if len(mod) != 4 {
		var names []string
		for _, p := range pkgs {
			names = append(names, p.PkgPath)
		}
		broken("expected 4 module packages (mpb, decor, cwriter, internal), got %d: %v", len(mod), names)
	}
	w.Pkgs = mod
	w.Fset = mod[0].Fset
	for _, p := range mod {
		for _, f := range p.CompiledGoFiles {
			rel, _ := filepath.Rel(repo, f)
			w.Files[rel] = true
		}
	}
	prog, spkgs := ssautil.AllPackages(pkgs, ssa.InstantiateGenerics)
	prog.Build()
	w.Prog = prog
	for i, p := range pkgs {
		switch p.PkgPath {
		case modPath:
			w.Mpb = spkgs[i]
		case modPath + "/decor":
			w.Decor = spkgs[i]
		case modPath + "/cwriter":
			w.Cw = spkgs[i]
		case modPath + "/internal":
			w.Intern = spkgs[i]
		}
	}
	if w.Mpb == nil || w.Decor == nil || w.Cw == nil || w.Intern == nil {
		broken("module packages not all built")
	}
	registerPayloadShapes(w.Mpb)
	w.buildCallGraph()
	return w
}

func (w *World) inModule(fn *ssa.Function) bool {
	if fn == nil {
		return false
	}
	for fn.Parent() != nil {
		fn = fn.Parent()
	}
	if fn.Origin() != nil {
		fn = fn.Origin()
	}
	var pkg *types.Package
	if fn.Pkg != nil {
		pkg = fn.Pkg.Pkg
	} else if fn.Object() != nil {
		pkg = fn.Object().Pkg()
	}
	if pkg == nil {
		// synthetic wrapper / bound method / thunk: attribute by the wrapped object
		return false
	}
	p := pkg.Path()
	return p == modPath || strings.HasPrefix(p, modPath+"/")
}

// isSynthetic wrappers ($bound, $thunk, promoted-method wrappers).
func isWrapper(fn *ssa.Function) bool { return fn.Synthetic != "" && fn.Syntax() == nil }

// roundTripTypes: static types whose values are handed to the client and come back
// through API parameters; VTA cannot see those flows.
func (w *World) isRoundTripType(t types.Type) bool {
	t = types.Unalias(t)
	if n, ok := t.(*types.Named); ok {
		obj := n.Obj()
		if obj.Pkg() == nil {
			return false
		}
		p := obj.Pkg().Path()
		name := obj.Name()
		switch p {
		case modPath:
			switch name {
			case "BarOption", "ContainerOption", "BarFiller", "BarFillerBuilder", "BarFillerFunc", "extenderFunc", "barFillerBuilderFunc":
				return true
			}
		case modPath + "/decor":
			switch name {
			case "Decorator", "Synchronizer", "Formatter", "Wrapper", "EwmaDecorator", "AverageDecorator", "ShutdownListener", "TimeNormalizer", "TimeNormalizerFunc", "DecorFunc":
				return true
			}
		case "github.com/VividCortex/ewma":
			return name == "MovingAverage"
		}
		return false
	}
	// unnamed function types (closures received from the module's own channels, meta functions):
	// VTA is trusted when it finds callees; the CHA fallback applies only when it finds none.
	return false
}

func (w *World) buildCallGraph() {
	all := ssautil.AllFunctions(w.Prog)
	w.chaG = cha.CallGraph(w.Prog)
	w.vtaG = vta.CallGraph(all, w.chaG)
	w.modSet = map[*ssa.Function]bool{}
	for fn := range all {
		if fn.Blocks == nil {
			continue
		}
		if w.inModule(fn) && fn.Synthetic == "" {
			w.modSet[fn] = true
		}
	}
	// synthetic wrappers of module methods also count (their bodies call the real method)
	for fn := range w.modSet {
		w.ModFns = append(w.ModFns, fn)
	}
	sort.Slice(w.ModFns, func(i, j int) bool { return w.fnKey(w.ModFns[i]) < w.fnKey(w.ModFns[j]) })

	w.callees = map[ssa.CallInstruction][]*ssa.Function{}
	w.callers = map[*ssa.Function][]ssa.CallInstruction{}
	chaBySite := map[ssa.CallInstruction][]*ssa.Function{}
	for _, n := range w.chaG.Nodes {
		for _, e := range n.Out {
			if e.Site != nil {
				chaBySite[e.Site] = append(chaBySite[e.Site], e.Callee.Func)
			}
		}
	}
	vtaBySite := map[ssa.CallInstruction][]*ssa.Function{}
	for _, n := range w.vtaG.Nodes {
		for _, e := range n.Out {
			if e.Site != nil {
				vtaBySite[e.Site] = append(vtaBySite[e.Site], e.Callee.Func)
			}
		}
	}
	addSite := func(site ssa.CallInstruction) {
		c := site.Common()
		var out []*ssa.Function
		if sc := c.StaticCallee(); sc != nil {
			out = []*ssa.Function{sc}
		} else {
			out = vtaBySite[site]
			var st types.Type
			if c.IsInvoke() {
				st = c.Value.Type()
			} else {
				st = c.Value.Type()
			}
			if len(out) == 0 || w.isRoundTripType(st) {
				seen := map[*ssa.Function]bool{}
				for _, f := range out {
					seen[f] = true
				}
				for _, f := range chaBySite[site] {
					if !seen[f] && (w.inModule(f) || w.wrapsModule(f)) && w.escapesToClient(f) {
						seen[f] = true
						out = append(out, f)
					}
				}
			}
		}
		sort.Slice(out, func(i, j int) bool { return w.fnKey(out[i]) < w.fnKey(out[j]) })
		w.callees[site] = out
		for _, f := range out {
			w.callers[f] = append(w.callers[f], site)
		}
	}
	for fn := range all {
		if fn.Blocks == nil {
			continue
		}
		for _, b := range fn.Blocks {
			for _, in := range b.Instrs {
				if site, ok := in.(ssa.CallInstruction); ok {
					addSite(site)
				}
			}
		}
	}
}

// wrapsModule: synthetic wrapper (bound method closure, thunk, promoted method wrapper)
// whose wrapped object lives in the module.
func (w *World) wrapsModule(fn *ssa.Function) bool {
	if fn == nil || fn.Synthetic == "" {
		return false
	}
	if obj := fn.Object(); obj != nil && obj.Pkg() != nil {
		p := obj.Pkg().Path()
		return p == modPath || strings.HasPrefix(p, modPath+"/")
	}
	return false
}

// Callees returns the resolved callees of a call site (static, VTA, CHA fallback).
func (w *World) Callees(site ssa.CallInstruction) []*ssa.Function { return w.callees[site] }

func (w *World) fnKey(fn *ssa.Function) string {
	if fn == nil {
		return "<nil>"
	}
	return fn.String()
}

func (w *World) pos(p token.Pos) string {
	if !p.IsValid() {
		return "-"
	}
	pp := w.Fset.Position(p)
	rel, err := filepath.Rel(w.Repo, pp.Filename)
	if err != nil || strings.HasPrefix(rel, "..") {
		rel = pp.Filename
	}
	return fmt.Sprintf("%s:%d", rel, pp.Line)
}

func (w *World) instrPos(in ssa.Instruction) string {
	if in == nil {
		return "-"
	}
	p := in.Pos()
	if !p.IsValid() {
		// fall back to the nearest instruction with a position in the same block
		if b := in.Block(); b != nil {
			for _, x := range b.Instrs {
				if x.Pos().IsValid() {
					p = x.Pos()
					if x == in {
						break
					}
				}
			}
		}
		if !p.IsValid() && in.Parent() != nil {
			p = in.Parent().Pos()
		}
	}
	return w.pos(p)
}

// lookups ---------------------------------------------------------------

func (w *World) pkgByName(name string) *ssa.Package {
	switch name {
	case "mpb":
		return w.Mpb
	case "decor":
		return w.Decor
	case "cwriter":
		return w.Cw
	case "internal":
		return w.Intern
	}
	return nil
}

// Func finds a package-level function or method: "mpb.newBar", "mpb.(*Bar).serve", "mpb.(bState).completed".
func (w *World) Func(spec string) *ssa.Function {
	dot := strings.Index(spec, ".")
	pkg := w.pkgByName(spec[:dot])
	rest := spec[dot+1:]
	if pkg == nil {
		return nil
	}
	if strings.HasPrefix(rest, "(") {
		end := strings.Index(rest, ")")
		recv := rest[1:end]
		meth := rest[end+2:]
		ptr := strings.HasPrefix(recv, "*")
		recv = strings.TrimPrefix(recv, "*")
		tn := pkg.Type(recv)
		if tn == nil {
			return nil
		}
		var t types.Type = tn.Type()
		if ptr {
			t = types.NewPointer(t)
		}
		sel := w.Prog.MethodSets.MethodSet(t).Lookup(pkg.Pkg, meth)
		if sel == nil {
			return nil
		}
		fn := w.Prog.MethodValue(sel)
		return fn
	}
	return pkg.Func(rest)
}

// MustFunc: unresolved anchors make the check undecidable, not silently passing.
func (w *World) MustFunc(r *Report, spec string) *ssa.Function {
	fn := w.Func(spec)
	if fn == nil || fn.Blocks == nil {
		r.Unresolved("anchor", "func:"+spec, "function/method not found in the resolved program")
		return nil
	}
	return fn
}

// namedStruct returns the named type pkg.Name if it exists.
func (w *World) Named(pkg, name string) *types.Named {
	p := w.pkgByName(pkg)
	if p == nil {
		return nil
	}
	t := p.Type(name)
	if t == nil {
		return nil
	}
	n, _ := t.Type().(*types.Named)
	return n
}

// anonFuncsOf returns all anonymous functions nested (transitively) in fn, in source order.
func anonFuncsOf(fn *ssa.Function) []*ssa.Function {
	var out []*ssa.Function
	var rec func(f *ssa.Function)
	rec = func(f *ssa.Function) {
		for _, a := range f.AnonFuncs {
			out = append(out, a)
			rec(a)
		}
	}
	rec(fn)
	return out
}

// escapesToClient: can this function value reach client code (and so come back through an
// API parameter)? A closure whose every use is a channel send, a select send, a local call,
// go or defer only travels through channels the module owns - VTA routes those precisely -
// and is excluded from the CHA fallback for round-trip call sites.
func (w *World) escapesToClient(f *ssa.Function) bool {
	bound := f.Parent() == nil && strings.HasPrefix(f.Synthetic, "bound method wrapper")
	if f.Parent() == nil && !bound {
		return true // named functions and methods: reachable through interfaces / exported names
	}
	if w.escMemo == nil {
		w.escMemo = map[*ssa.Function]bool{}
	}
	if v, ok := w.escMemo[f]; ok {
		return v
	}
	esc := false
	seen := map[ssa.Value]bool{}
	var visit func(v ssa.Value)
	visit = func(v ssa.Value) {
		if seen[v] || esc {
			return
		}
		seen[v] = true
		refs := v.Referrers()
		if refs == nil {
			esc = true
			return
		}
		for _, ref := range *refs {
			switch x := ref.(type) {
			case *ssa.Send:
				if x.X != v {
					esc = true
				}
			case *ssa.Select:
				// send operand of a select state
			case *ssa.Call:
				if x.Call.Value != v {
					// passed as an argument: to a module function, follow the parameter; otherwise it escapes
					h := x.Call.StaticCallee()
					if h == nil || h.Blocks == nil || !w.modSet[h] {
						esc = true
						break
					}
					for i, a := range x.Call.Args {
						if a == v {
							if i < len(h.Params) {
								visit(h.Params[i])
							} else {
								esc = true
							}
						}
					}
				}
			case *ssa.Go:
				if x.Call.Value != v {
					esc = true
				}
			case *ssa.Defer:
				if x.Call.Value != v {
					esc = true
				}
			case *ssa.DebugRef:
			case *ssa.ChangeType:
				visit(x)
			case *ssa.Phi:
				visit(x)
			default:
				esc = true
			}
		}
	}
	if bound {
		// a method value x.m: judged by the uses of the closures made from it
		n := 0
		for _, g := range w.ModFns {
			for _, b := range g.Blocks {
				for _, in := range b.Instrs {
					if mc, ok := in.(*ssa.MakeClosure); ok && mc.Fn == f {
						n++
						visit(mc)
					}
				}
			}
		}
		if n == 0 {
			esc = true
		}
		w.escMemo[f] = esc
		return esc
	}
	for _, b := range f.Parent().Blocks {
		for _, in := range b.Instrs {
			if mc, ok := in.(*ssa.MakeClosure); ok && mc.Fn == f {
				visit(mc)
				continue
			}
			// closure without free variables: the function value itself is the operand
			for _, op := range in.Operands(nil) {
				if *op != ssa.Value(f) {
					continue
				}
				switch x := in.(type) {
				case *ssa.Send:
					if x.X != ssa.Value(f) {
						esc = true
					}
				case *ssa.Select:
				case *ssa.Call:
					if x.Call.Value != ssa.Value(f) {
						esc = true
					}
				case *ssa.Go:
					if x.Call.Value != ssa.Value(f) {
						esc = true
					}
				case *ssa.Defer:
					if x.Call.Value != ssa.Value(f) {
						esc = true
					}
				case *ssa.ChangeType:
					visit(x)
				case *ssa.Phi:
					visit(x)
				case *ssa.DebugRef:
				default:
					esc = true
				}
			}
		}
	}
	w.escMemo[f] = esc
	return esc
}

// anchors: functions that rules treat as opaque effects / roots; never inlined as "helpers".
func (w *World) anchors() map[*ssa.Function]bool {
	if w.anchorSet != nil {
		return w.anchorSet
	}
	a := map[*ssa.Function]bool{}
	add := func(f *ssa.Function) {
		if f != nil {
			a[f] = true
		}
	}
	add(w.triggerFn())
	add(w.completionPredicate())
	add(w.renderFn())
	add(w.flushFn())
	add(w.containerLoop())
	add(w.barLoop())
	add(w.heapLoop())
	add(w.distributor())
	add(w.renderClosure())
	add(w.makeBarStateFn())
	add(w.barConstructor())
	for fn := range w.heapSenders() {
		add(fn)
	}
	for _, s := range []string{"mpb.unwrap", "mpb.(*Bar).wSyncTable", "mpb.(*bState).wSyncTable", "decor.(WC).Format", "mpb.(*bState).draw", "mpb.(*Bar).render"} {
		add(w.Func(s))
	}
	// exported API entry points are roots of their own
	for _, fn := range w.ModFns {
		if fn.Parent() == nil && w.isClientEntry(fn) {
			a[fn] = true
		}
	}
	w.anchorSet = a
	return a
}

// helperInline: inline private helpers (same package as root, not an anchor, no go statement
// inside) so that extracting a block into a helper does not change what a rule sees.
func (w *World) helperInline(root *ssa.Function, opaque ...*ssa.Function) func(ssa.CallInstruction, *ssa.Function) bool {
	anch := w.anchors()
	op := map[*ssa.Function]bool{}
	for _, f := range opaque {
		if f != nil {
			op[f] = true
		}
	}
	return func(_ ssa.CallInstruction, callee *ssa.Function) bool {
		if callee.Pkg != root.Pkg && !(root.Parent() != nil && callee.Pkg == rootFn(root).Pkg) {
			return false
		}
		if op[callee] || (anch[callee] && callee != root) {
			return false
		}
		return true
	}
}

// unit: root plus the private helpers it reaches through static calls (depth <= 3).
func (w *World) unit(root *ssa.Function) map[*ssa.Function]bool {
	if root == nil {
		return map[*ssa.Function]bool{}
	}
	out := map[*ssa.Function]bool{root: true}
	inl := w.helperInline(root)
	var rec func(fn *ssa.Function, d int)
	rec = func(fn *ssa.Function, d int) {
		if d > 3 {
			return
		}
		for _, b := range fn.Blocks {
			for _, in := range b.Instrs {
				var c *ssa.CallCommon
				switch x := in.(type) {
				case *ssa.Call:
					c = &x.Call
				case *ssa.Defer:
					c = &x.Call
				}
				if c == nil {
					continue
				}
				sc := c.StaticCallee()
				if sc == nil || sc.Blocks == nil || out[sc] || !w.modSet[sc] {
					continue
				}
				if !inl(nil, sc) {
					continue
				}
				out[sc] = true
				rec(sc, d+1)
			}
		}
	}
	rec(root, 0)
	return out
}
