package main

import (
	"fmt"
	"go/token"
	"go/types"

	"golang.org/x/tools/go/ssa"
)

func init() { checks["C12"] = checkC12 }

func (w *World) decorConst(name string) (int64, bool) {
	m, ok := w.Decor.Members[name].(*ssa.NamedConst)
	if !ok {
		return 0, false
	}
	return constInt(m.Value)
}

// bitAtom: does the path carry the atom (load WC.C & bit) != 0 with the given truth?
func (p *Path) bitAtom(bit int64) tri {
	for _, a := range p.Atoms {
		c := p.cmpOf(a)
		if c.Op != token.NEQ && c.Op != token.EQL {
			continue
		}
		if k, ok := constInt(c.Y.V); !ok || k != 0 {
			continue
		}
		and, ok := stripConv(c.X.V).(*ssa.BinOp)
		if !ok || and.Op != token.AND {
			continue
		}
		// operands as the path resolves them (a helper `hasBit(conf, bit)` receives both as parameters)
		ax, ay := p.R(Val{and.X, c.X.F, c.X.E}), p.R(Val{and.Y, c.X.F, c.X.E})
		if _, isK := constInt(ax.V); isK {
			ax, ay = ay, ax
		}
		k, ok := constInt(ay.V)
		if !ok || k != bit || !isLoad(ax, "decor.WC", "C") {
			continue
		}
		if c.Op == token.NEQ {
			return triTrue
		}
		return triFalse
	}
	return triUnknown
}

// ruleFormatExchange: WC.Format.
func ruleFormatExchange(w *World, r *Report, pfx string) {
	rule := pfx + ".E-FORMAT"
	fn := w.Func("decor.(WC).Format")
	if fn == nil {
		r.Unresolved("anchor", "decor.WC.Format", "not found")
		return
	}
	syncBit, ok1 := w.decorConst("DSyncWidth")
	extraBit, ok2 := w.decorConst("DextraSpace")
	if !ok1 || !ok2 {
		r.Unresolved("anchor", "decor.DSyncWidth / DextraSpace", "constants not found")
		return
	}
	var curPath *Path
	isStrWV := func(v Val) bool {
		c, ok := stripConv(v.V).(*ssa.Call)
		if !ok {
			return false
		}
		sc := c.Call.StaticCallee()
		if sc == nil || sc.Name() != "StringWidth" || len(c.Call.Args) != 1 {
			return false
		}
		arg := c.Call.Args[0]
		if curPath != nil {
			arg = curPath.R(Val{arg, v.F, v.E}).V
		}
		return w.isParamOf(arg, fn, 1)
	}
	isStrW := func(v ssa.Value) bool { return isStrWV(Val{V: v}) }
	_ = isStrW
	bad := ""
	var wit []string
	sawSync, sawPlain := false, false
	n, over := w.enumPaths(fn, pathOpts{InlineDepth: 2, Inline: func(_ ssa.CallInstruction, c *ssa.Function) bool { return c.Pkg == w.Decor }}, func(p *Path) {
		curPath = p
		if bad != "" || p.Exit != "return" {
			return
		}
		var sends, recvs []Event
		for _, ev := range p.Events {
			if o := w.Comm().byIn[ev.In]; o != nil {
				if o.Kind == "send" {
					sends = append(sends, ev)
				}
				if o.Kind == "recv" {
					recvs = append(recvs, ev)
				}
				if o.Kind == "select" {
					bad = "Format uses a select"
				}
			}
		}
		if len(p.Ret) != 2 {
			bad = "Format does not return (string, width)"
			return
		}
		sync := p.bitAtom(syncBit)
		var natural Val // the width before any exchange
		switch sync {
		case triTrue:
			sawSync = true
			if len(sends) != 1 || len(recvs) != 1 || sends[0].Idx > recvs[0].Idx {
				bad = fmt.Sprintf("under the sync bit Format performs %d sends and %d receives (must be one send followed by one receive): the column distributor and the other bars block", len(sends), len(recvs))
				wit = p.describe()
				return
			}
			s := sends[0].In.(*ssa.Send)
			rv := recvs[0].In.(*ssa.UnOp)
			if !w.Comm().byIn[s].Class.only("WC.wsync") || !w.Comm().byIn[rv].Class.only("WC.wsync") {
				bad = "the exchange does not use the decorator's own sync channel"
				return
			}
			natural = p.val(sends[0], s.X)
			if p.R(p.Ret[1]).V != ssa.Value(rv) {
				bad = "the width returned under the sync bit is not the width received from the column distributor"
				wit = p.describe()
				return
			}
		case triFalse:
			sawPlain = true
			if len(sends)+len(recvs) != 0 {
				bad = "Format exchanges a width although the sync bit is not set (nobody answers: the bar blocks forever)"
				wit = p.describe()
				return
			}
			natural = p.Ret[1]
		default:
			bad = "a path of Format does not test the sync bit"
			wit = p.describe()
			return
		}
		// the natural width: max(W, strwidth), +1 under the extra-space bit only when W does not apply
		natural = p.R(natural)
		nv := stripConv(natural.V)
		nvV := Val{nv, natural.F, natural.E}
		switch {
		case p.hasCmp(-1, token.GTR, loadOf("decor.WC", "W"), isStrWV):
			if !isLoad(Val{V: nv}, "decor.WC", "W") {
				bad = "with W larger than the text the negotiated/returned width is not W"
				wit = p.describe()
			}
		case p.bitAtom(extraBit) == triTrue:
			add, ok := nv.(*ssa.BinOp)
			k := int64(0)
			if ok {
				k, _ = constInt(add.Y)
			}
			if !ok || add.Op != token.ADD || k != 1 || !isStrWV(p.R(Val{add.X, nvV.F, nvV.E})) {
				bad = "with the extra-space bit the negotiated/returned width is not text width + 1"
				wit = p.describe()
			}
		case p.bitAtom(extraBit) == triFalse:
			if !isStrWV(nvV) {
				bad = "the negotiated/returned width is not the text's display width"
				wit = p.describe()
			}
		default:
			bad = "a path of Format decides neither W > width nor the extra-space bit"
			wit = p.describe()
		}
		// the string is filled to the returned width
		okFill := false
		for _, ev := range p.Events {
			if c, ok := ev.In.(*ssa.Call); ok && isLoad(Val{V: c.Call.Value}, "decor.WC", "fill") && len(c.Call.Args) == 2 {
				if p.val(ev, c.Call.Args[1]).V == p.R(p.Ret[1]).V && p.R(p.Ret[0]).V == ssa.Value(c) {
					okFill = true
				}
			}
		}
		if !okFill && bad == "" {
			bad = "the returned string is not the text filled to the returned width"
		}
	})
	if over {
		r.Undecided(rule, "decor.WC.Format", w.pos(fn.Pos()), "path cap")
		return
	}
	r.Check(bad == "" && n > 0 && sawSync && sawPlain, rule, "decor.WC.Format", w.pos(fn.Pos()), fmt.Sprintf("%d paths: width = max(W, text) (+1 extra), one send then one receive iff sync bit, filled to the final width", n), orStr(bad, "sync or plain branch missing"), wit...)
}

// ruleDistributor: the column distributor collects one width per entry keeping the maximum and
// sends that maximum back on every entry of the same column.
func ruleDistributor(w *World, r *Report, pfx string) {
	rule := pfx + ".E-DISTRIB"
	d := w.distributor()
	if d == nil {
		r.Unresolved("anchor", "distributor", "no unique go target receiving from and sending on the column channels")
		return
	}
	colOf := func(f *ssa.Function) *ssa.Parameter {
		for _, p := range f.Params {
			if s, ok := p.Type().Underlying().(*types.Slice); ok {
				if _, ok := s.Elem().Underlying().(*types.Chan); ok {
					return p
				}
			}
		}
		return nil
	}
	col := colOf(d)
	if col == nil {
		r.Undecided(rule, "distributor", w.pos(d.Pos()), "column parameter not found")
		return
	}
	// the collect select and the distribute send: in the distributor or in a private helper it calls
	var send *ssa.Send
	var sel *ssa.Select
	var fnC, fnS *ssa.Function
	for _, g := range w.staticHelpers(d, 2) {
		for _, op := range w.Comm().byFn[g] {
			if op.Kind == "send" && op.Class.has("WC.wsync") {
				send, fnS = op.Instr.(*ssa.Send), g
			}
			if op.Kind == "select" {
				sel, fnC = op.Instr.(*ssa.Select), g
			}
		}
	}
	if send == nil || sel == nil {
		r.Violated(rule, "distributor", w.pos(d.Pos()), "the distributor lacks its collect select or its distribute send")
		return
	}
	// a helper works on the distributor's own column
	helperCall := map[*ssa.Function]*ssa.Call{}
	for _, g := range []*ssa.Function{fnC, fnS} {
		if g == d {
			continue
		}
		gc := colOf(g)
		okCol := gc != nil
		idx := -1
		if okCol {
			for i, q := range g.Params {
				if q == gc {
					idx = i
				}
			}
		}
		n := 0
		for _, site := range w.callers[g] {
			c, isCall := site.(*ssa.Call)
			if !isCall || site.Parent() != d || idx < 0 || idx >= len(c.Call.Args) || c.Call.Args[idx] != ssa.Value(col) {
				okCol = false
				continue
			}
			helperCall[g] = c
			n++
		}
		if !okCol || n != 1 {
			r.Undecided(rule, "distributor", w.pos(d.Pos()), "collect / distribute helper is not called exactly once by the distributor with its column")
			return
		}
	}
	lc, ls := innermostLoop(naturalLoops(fnC), sel.Block()), innermostLoop(naturalLoops(fnS), send.Block())
	bad := ""
	elemOf := func(ch ssa.Value, l *loopInfo, c *ssa.Parameter) bool {
		ld, ok := ch.(*ssa.UnOp)
		if !ok || ld.Op != token.MUL {
			return false
		}
		ia, ok := ld.X.(*ssa.IndexAddr)
		if !ok || ia.X != ssa.Value(c) {
			return false
		}
		iw := w.loopIndexWalk(l, c)
		return iw.OK && iw.CoversAll
	}
	// where collection / distribution happen in the distributor itself
	at := func(g *ssa.Function, in ssa.Instruction) ssa.Instruction {
		if g == d {
			return in
		}
		return helperCall[g]
	}
	switch {
	case lc == nil || ls == nil || (fnC == fnS && lc.Header == ls.Header):
		bad = "collect and distribute are not two separate loops (every bar must have sent its width before any gets the maximum)"
	case !elemOf(sel.States[recvStateOn(w, sel, "WC.wsync")].Chan, lc, colOf(fnC)):
		bad = "the collect loop does not receive from every entry of the column"
	case !elemOf(send.Chan, ls, colOf(fnS)):
		bad = "the distribute loop does not send on every entry of the column"
	case !instrReaches(at(fnC, sel), at(fnS, send)) || (at(fnC, sel) != at(fnS, send) && fnC != fnS && instrReaches(at(fnS, send), at(fnC, sel))):
		bad = "distribution does not follow collection"
	}
	// a cycle abandoned during collection distributes nothing (paths of the distributor, helpers inlined)
	if bad == "" {
		dropIdx := -1
		for i := range sel.States {
			if i != recvStateOn(w, sel, "WC.wsync") {
				dropIdx = i
			}
		}
		w.enumPaths(d, pathOpts{InlineDepth: 2, Inline: func(_ ssa.CallInstruction, c *ssa.Function) bool { return c == fnC || c == fnS }}, func(p *Path) {
			dropped := false
			for _, a := range p.Atoms {
				if s2, k, eq := p.selectArm(a); s2 == sel && eq && k == dropIdx {
					dropped = true
				}
			}
			if !dropped {
				return
			}
			for _, ev := range p.Events {
				if ev.In == ssa.Instruction(send) {
					bad = "widths are distributed although the cycle was abandoned during collection"
				}
			}
		})
	}
	// the value sent: the collect loop's running maximum, directly or as the helper's result
	sentPhi := func() (*ssa.Phi, bool) {
		if phi, ok := send.X.(*ssa.Phi); ok && fnC == fnS && phi.Block() == lc.Header {
			return phi, true
		}
		if fnC != d && fnS == d {
			ex, ok := w.origin(send.X).(*ssa.Extract)
			if !ok || ex.Tuple != ssa.Value(helperCall[fnC]) {
				return nil, false
			}
			var phi *ssa.Phi
			for _, b := range fnC.Blocks {
				ret, ok := b.Instrs[len(b.Instrs)-1].(*ssa.Return)
				if !ok || ex.Index >= len(ret.Results) {
					continue
				}
				q, ok := ret.Results[ex.Index].(*ssa.Phi)
				if !ok || q.Block() != lc.Header || (phi != nil && phi != q) {
					return nil, false
				}
				phi = q
			}
			return phi, phi != nil
		}
		return nil, false
	}
	if bad == "" {
		// the sent value is the collect loop's running maximum: a header phi starting at 0 whose per-iteration
		// update is: the received width under (received > max), itself otherwise
		phi, ok := sentPhi()
		if !ok {
			bad = "the value distributed is not the running maximum of the collect loop"
		} else {
			for i, e := range phi.Edges {
				if !lc.Blocks[lc.Header.Preds[i]] {
					if k, ok := constInt(e); !ok || k != 0 {
						bad = "the running maximum does not start at 0"
					}
				}
			}
			var body *ssa.BasicBlock
			for _, sc := range lc.Header.Succs {
				if lc.Blocks[sc] {
					body = sc
				}
			}
			recvIdx := recvStateOn(w, sel, "WC.wsync")
			isRecv := func(v Val) bool {
				ex, ok := v.V.(*ssa.Extract)
				return ok && ex.Tuple == ssa.Value(sel) && ex.Index >= 2
			}
			isMax := func(v Val) bool { return v.V == ssa.Value(phi) }
			sawTake, sawKeep := false, false
			w.enumPaths(fnC, pathOpts{Start: body, StopAt: func(b *ssa.BasicBlock) bool { return b == lc.Header }}, func(p *Path) {
				if bad != "" || p.Exit != "stop" || p.armTaken(sel) != recvIdx {
					return
				}
				last := p.Blocks[len(p.Blocks)-1]
				var nv ssa.Value
				for i, pr := range lc.Header.Preds {
					if pr == last {
						nv = phi.Edges[i]
					}
				}
				if nv == nil {
					return
				}
				v := p.R(Val{nv, p.eng.root, p.EndEnv})
				switch {
				case p.hasCmp(-1, token.GTR, isRecv, isMax):
					sawTake = true
					if !isRecv(v) {
						bad = "a received width larger than the running maximum does not replace it"
					}
				case p.hasCmp(-1, token.LEQ, isRecv, isMax):
					sawKeep = true
					if !isMax(v) {
						bad = "the running maximum is replaced although the received width is not larger (the column would not take the largest width)"
					}
				default:
					bad = "the running maximum is updated without comparing it with the received width"
				}
			})
			if bad == "" && !(sawTake && sawKeep) {
				bad = "the collect loop does not keep the maximum of the received widths"
			}
		}
	}
	r.Check(bad == "", rule, "distributor", w.pos(d.Pos()), "collect all, keep the maximum, distribute to all", bad)
}

func isNextOf(v ssa.Value, phi *ssa.Phi) bool {
	b, ok := v.(*ssa.BinOp)
	if !ok || b.Op != token.ADD || b.X != ssa.Value(phi) {
		return false
	}
	k, ok := constInt(b.Y)
	return ok && k == 1
}

func recvStateOn(w *World, sel *ssa.Select, cls string) int {
	op := w.Comm().byIn[sel]
	for i, s := range op.States {
		if s.Dir == types.RecvOnly && s.Class.has(cls) {
			return i
		}
	}
	return 0
}

// ruleDecorExchange (E8): every Decor implementation of the decor package performs exactly one
// width exchange on every path and returns that exchange's width.
func ruleDecorExchange(w *World, r *Report, pfx string) {
	rule := pfx + ".E-DECOR"
	format := w.Func("decor.(WC).Format")
	n := 0
	for _, fn := range w.ModFns {
		if fn.Pkg != w.Decor || fn.Parent() != nil || fn.Name() != "Decor" || fn.Signature.Recv() == nil {
			continue
		}
		n++
		construct := "Decor of " + shortType(fn.Signature.Recv().Type())
		bad := ""
		var wit []string
		nP, over := w.enumPaths(fn, pathOpts{InlineDepth: 2, Inline: w.helperInline(fn)}, func(p *Path) {
			if bad != "" || p.Exit != "return" {
				return
			}
			var ex []*ssa.Call
			for _, ev := range p.Events {
				c, ok := ev.In.(*ssa.Call)
				if !ok {
					continue
				}
				isEx := false
				if sc := c.Call.StaticCallee(); sc != nil {
					// direct WC.Format, or the promoted-method wrapper of an embedded WC
					if sc == format || (sc.Name() == "Format" && sc.Signature.Results().Len() == 2) {
						isEx = true
					}
				} else if c.Call.IsInvoke() {
					m := c.Call.Method.Name()
					if (m == "Format" && c.Call.Method.Type().(*types.Signature).Results().Len() == 2) || m == "Decor" {
						isEx = true
					}
				}
				if isEx {
					ex = append(ex, c)
				}
			}
			if len(ex) != 1 {
				bad = fmt.Sprintf("a path performs %d width exchanges (must be exactly one Format / wrapped Decor call): a synchronised column deadlocks or desynchronises", len(ex))
				wit = p.describe()
				return
			}
			if len(p.Ret) != 2 {
				bad = "Decor does not return (string, width)"
				return
			}
			wv, ok := p.Ret[1].V.(*ssa.Extract)
			if !ok || wv.Tuple != ssa.Value(ex[0]) || wv.Index != 1 {
				bad = "the width returned is not the width produced by the exchange"
				wit = p.describe()
			}
		})
		if over {
			r.Undecided(rule, construct, w.pos(fn.Pos()), "path cap")
			continue
		}
		r.Check(bad == "" && nP > 0, rule, construct, w.pos(fn.Pos()), fmt.Sprintf("%d paths, one exchange each, its width returned", nP), bad, wit...)
	}
	r.Floor(rule, 10, "Decor implementations of the decor package")
}

// ruleWrappersUnwrap: every struct in decor embedding Decorator implements Wrapper and Unwrap
// returns the embedded field.
func ruleWrappersUnwrap(w *World, r *Report, pfx string) {
	rule := pfx + ".E-UNWRAP"
	n := 0
	for _, m := range w.Decor.Members {
		t, ok := m.(*ssa.Type)
		if !ok {
			continue
		}
		st, ok := t.Type().Underlying().(*types.Struct)
		if !ok {
			continue
		}
		emb := -1
		for i := 0; i < st.NumFields(); i++ {
			if st.Field(i).Embedded() && typeName(st.Field(i).Type()) == "decor.Decorator" {
				emb = i
			}
		}
		if emb < 0 {
			continue
		}
		n++
		construct := "wrapper " + t.Name()
		var un *ssa.Function
		for _, recv := range []types.Type{t.Type(), types.NewPointer(t.Type())} {
			if sel := w.Prog.MethodSets.MethodSet(recv).Lookup(w.Decor.Pkg, "Unwrap"); sel != nil && un == nil {
				un = w.Prog.MethodValue(sel)
			}
		}
		if un == nil || un.Synthetic != "" {
			r.Violated(rule, construct, w.pos(t.Pos()), "a type embedding Decorator does not implement Wrapper: EWMA updates, shutdown notifications and average adjustment never reach the wrapped decorator")
			continue
		}
		ok2 := false
		for _, b := range un.Blocks {
			if ret, ok := b.Instrs[len(b.Instrs)-1].(*ssa.Return); ok && len(ret.Results) == 1 {
				if f, ok := loadedField(ret.Results[0]); ok && f.Name == "Decorator" {
					ok2 = true
				}
			}
		}
		r.Check(ok2, rule, construct, w.pos(un.Pos()), "Unwrap returns the embedded decorator", "Unwrap does not return the embedded decorator")
	}
	r.Floor(rule, 5, "onComplete, onCompleteMeta, onAbort, onAbortMeta, meta wrappers")
}

// ruleSyncTable: bState.wSyncTable visits both groups in order and splits at the boundary.
func ruleSyncTable(w *World, r *Report, pfx string) {
	rule := pfx + ".E-TABLE"
	fn := w.Func("mpb.(*bState).wSyncTable")
	if fn == nil {
		r.Unresolved("anchor", "bState.wSyncTable", "not found")
		return
	}
	// one Sync call (in wSyncTable or a private helper), in a loop over the whole group, inside (or called from) a loop over all groups
	var syncCall *ssa.Call
	var syncFn *ssa.Function
	for f := range w.unit(fn) {
		for _, b := range f.Blocks {
			for _, in := range b.Instrs {
				if c, ok := in.(*ssa.Call); ok && c.Call.IsInvoke() && c.Call.Method.Name() == "Sync" {
					if syncCall != nil {
						r.Violated(rule, "bState.wSyncTable", w.instrPos(in), "more than one Sync call site")
						return
					}
					syncCall, syncFn = c, f
				}
			}
		}
	}
	if syncCall == nil {
		r.Violated(rule, "bState.wSyncTable", w.pos(fn.Pos()), "no call of Synchronizer.Sync: no decorator would ever be width-synchronised")
		return
	}
	inner := innermostLoop(naturalLoops(syncFn), syncCall.Block())
	// the instruction of fn that stands for the inner walk: the inner loop's header, or the call of the helper
	var anchorBlock *ssa.BasicBlock
	var group ssa.Value // the group walked
	if syncFn == fn {
		if inner != nil {
			anchorBlock = inner.Header
		}
	} else {
		for _, b := range fn.Blocks {
			for _, in := range b.Instrs {
				if c, ok := in.(*ssa.Call); ok && c.Call.StaticCallee() == syncFn {
					anchorBlock = b
				}
			}
		}
	}
	var outer *loopInfo
	if anchorBlock != nil {
		for _, l := range naturalLoops(fn) {
			if l.Blocks[anchorBlock] && (inner == nil || syncFn != fn || l.Header != inner.Header) {
				if outer == nil || len(l.Blocks) < len(outer.Blocks) {
					outer = l
				}
			}
		}
	}
	bad := ""
	if inner == nil || outer == nil {
		bad = "the Sync call is not inside a loop over the group nested in (or called from) a loop over the groups"
	} else {
		// inner covers the whole group: the receiver of Sync is group[e(i)] with a full index walk
		if ld, ok := syncCall.Call.Value.(*ssa.UnOp); ok {
			if ia, ok := ld.X.(*ssa.IndexAddr); ok {
				group = ia.X
			}
		}
		iwI := indexWalk{}
		if group != nil {
			iwI = w.loopIndexWalk(inner, group)
		}
		if !iwI.OK || !iwI.CoversAll || !iwI.Ascending {
			bad = "the decorators of a group are not all visited in order"
		}
		// outer covers all groups in order: index walk over decorGroups (array: bound len or its constant length)
		co := classifyCountingLoop(outer)
		okOuter := w.loopCoversGroups(outer)
		if !okOuter {
			bad = orStr(bad, "the loop over the decorator groups does not cover both groups in order")
		}
		// append under ok (either polarity form)
		nApp := 0
		for b := range inner.Blocks {
			for _, in := range b.Instrs {
				c, ok := in.(*ssa.Call)
				if !ok || !isBuiltinCall(&c.Call, "append") {
					continue
				}
				nApp++
				okGuard := false
				for _, ref := range *syncCall.Referrers() {
					ex, isEx := ref.(*ssa.Extract)
					if !isEx || ex.Index != 1 {
						continue
					}
					for _, r2 := range *ex.Referrers() {
						ifi, isIf := r2.(*ssa.If)
						if !isIf {
							continue
						}
						t := ifi.Block().Succs[0]
						if (t == b || t.Dominates(b)) && len(t.Preds) == 1 {
							okGuard = true
						}
					}
					// negated form: if !ok { continue }
					for _, r2 := range *ex.Referrers() {
						if un, isUn := r2.(*ssa.UnOp); isUn && un.Op == token.NOT {
							for _, r3 := range *un.Referrers() {
								if ifi, isIf := r3.(*ssa.If); isIf {
									f := ifi.Block().Succs[1]
									if (f == b || f.Dominates(b)) && len(f.Preds) == 1 {
										okGuard = true
									}
								}
							}
						}
					}
				}
				if !okGuard {
					bad = orStr(bad, "a channel is appended to the row without the ok result of Sync")
				}
			}
		}
		if nApp != 1 {
			bad = orStr(bad, fmt.Sprintf("%d appends in the decorator loop", nApp))
		}
		// the table store in fn: index = outer induction, value = row[start:], start carried as len(row)
		nStore := 0
		for b := range outer.Blocks {
			if syncFn == fn && inner.Blocks[b] {
				continue
			}
			for _, in := range b.Instrs {
				st, ok := in.(*ssa.Store)
				if !ok {
					continue
				}
				ia, ok := st.Addr.(*ssa.IndexAddr)
				if !ok {
					continue
				}
				if _, isSlice := st.Val.(*ssa.Slice); !isSlice {
					continue
				}
				nStore++
				if !(ia.Index == ssa.Value(co.phi) || (co.phi != nil && isNextOf(ia.Index, co.phi))) {
					bad = orStr(bad, "the per-group slice is not stored at the group's index")
				}
				sl := st.Val.(*ssa.Slice)
				if xp, ok := sl.X.(*ssa.Phi); ok && xp.Block() == outer.Header {
					bad = orStr(bad, "the group's slice is taken from the row as it was before the group's decorators were appended (the group reports the previous group's channels, or none)")
				}
				if sl.Low == nil || sl.High != nil {
					bad = orStr(bad, "the per-group slice is not row[start:]")
				} else if lp, ok := sl.Low.(*ssa.Phi); !ok || lp.Block() != outer.Header {
					bad = orStr(bad, "the split point is not carried from the previous group")
				} else {
					okLen := false
					for i, e := range lp.Edges {
						if outer.Blocks[outer.Header.Preds[i]] {
							if lc, ok := e.(*ssa.Call); ok && isBuiltinCall(&lc.Call, "len") && lc.Call.Args[0] == sl.X {
								okLen = true
							}
						}
					}
					if !okLen {
						bad = orStr(bad, "the split point is not advanced to len(row) after each group")
					}
				}
			}
		}
		if nStore != 1 {
			bad = orStr(bad, "the table is not stored once per group")
		}
	}
	r.Check(bad == "", rule, "bState.wSyncTable", w.pos(fn.Pos()), "both groups, every decorator once in order, split at the group boundary", bad)
}

// ruleSyncArm: heap loop: push accumulates the sync flag; the sync arm rebuilds both matrices
// from every heap element under sync || len changed, resets both cached values, and starts the
// distributors for both matrices.
func ruleSyncArm(w *World, r *Report, pfx string) {
	rule := pfx + ".E-SYNCARM"
	loop, arms, _ := w.heapArms()
	if loop == nil {
		r.Unresolved("anchor", "heap loop", "not found")
		return
	}
	var outer *loopInfo
	for _, l := range naturalLoops(loop) {
		if outer == nil || len(l.Blocks) > len(outer.Blocks) {
			outer = l
		}
	}
	// the sync flag and cached length: header phis of type bool / int
	var syncPhi, lenPhi *ssa.Phi
	for _, in := range outer.Header.Instrs {
		if phi, ok := in.(*ssa.Phi); ok {
			if types.Identical(phi.Type(), types.Typ[types.Bool]) {
				syncPhi = phi
			}
			if types.Identical(phi.Type(), types.Typ[types.Int]) {
				lenPhi = phi
			}
		}
	}
	if syncPhi == nil || lenPhi == nil {
		r.Undecided(rule, "heap loop state", w.pos(loop.Pos()), "sync flag / cached length not found as loop-carried variables")
		return
	}
	pushFn := w.heapPushFn()
	senders := w.heapSenders()
	pushCmd, okc := senders[pushFn]
	if !okc {
		r.Undecided(rule, "push command", "", "not identified")
		return
	}
	stop := func(b *ssa.BasicBlock) bool { return b == outer.Header }
	// push arm: new flag = old || payload.sync
	{
		bad := ""
		n, _ := w.enumPaths(loop, pathOpts{Start: arms[pushCmd], StopAt: stop}, func(p *Path) {
			if p.Exit != "stop" || len(p.Blocks) == 0 {
				return
			}
			last := p.Blocks[len(p.Blocks)-1]
			var nv ssa.Value
			for i, pred := range outer.Header.Preds {
				if pred == last {
					nv = syncPhi.Edges[i]
				}
			}
			if nv == nil {
				return
			}
			v := p.R(Val{nv, p.eng.root, lastEnv(p)})
			oldTrue := p.hasBool(-1, true, func(x Val) bool { return x.V == ssa.Value(syncPhi) })
			oldFalse := p.hasBool(-1, false, func(x Val) bool { return x.V == ssa.Value(syncPhi) })
			switch {
			case oldTrue:
				if bv, ok := constBool(v.V); !(ok && bv) && v.V != ssa.Value(syncPhi) {
					bad = "a push clears a pending re-sync request (flag not sticky): a later sync with unchanged heap length keeps stale width matrices and a new bar blocks forever"
				}
			case oldFalse:
				if !isLoad(Val{V: stripConv(v.V)}, "mpb.pushData", "sync") {
					bad = "the push arm does not take over the payload's sync flag"
				}
			case p.hasBool(-1, true, loadOf("mpb.pushData", "sync")):
				// `if data.sync { sync = true }`: under payload.sync the flag becomes true ...
				if bv, ok := constBool(v.V); !(ok && bv) {
					bad = "a push that asks for a re-sync does not set the flag"
				}
			case p.hasBool(-1, false, loadOf("mpb.pushData", "sync")):
				// ... and otherwise keeps its previous value
				if v.V != ssa.Value(syncPhi) {
					bad = "a push clears a pending re-sync request (flag not sticky): a later sync with unchanged heap length keeps stale width matrices and a new bar blocks forever"
				}
			default:
				// unconditional assignment: must be old || payload (value form)
				bad = "the push arm overwrites the re-sync flag without consulting its previous value"
			}
			// the pushed bar is the payload's bar
			okPush := false
			for _, ev := range p.Events {
				if c, ok := ev.In.(*ssa.Call); ok && isHeapCall(c, "Push") {
					if mi, ok := c.Call.Args[1].(*ssa.MakeInterface); ok && isLoad(Val{V: mi.X}, "mpb.pushData", "bar") {
						okPush = true
					}
				}
			}
			if !okPush {
				bad = orStr(bad, "the push arm does not push the payload's bar onto the heap")
			}
		})
		r.Check(bad == "" && n > 0, rule, "push arm", w.instrPos(arms[pushCmd].Instrs[0]), "flag accumulates (sync = sync || data.sync), payload bar pushed", orStr(bad, "no path"))
	}
	// sync arm
	var syncCmd int64 = -1
	syncWidthFn := (*ssa.Function)(nil)
	dist := w.distributor()
	for _, g := range w.Roles().GoSites {
		for _, t := range w.goTargets(g) {
			if t == dist {
				syncWidthFn = g.Parent()
			}
		}
	}
	for k, ab := range arms {
		for _, b := range loop.Blocks {
			if !armContains(loop, arms, k, ab, b) {
				continue
			}
			for _, in := range b.Instrs {
				if c, ok := in.(*ssa.Call); ok && c.Call.StaticCallee() == syncWidthFn && syncWidthFn != nil {
					syncCmd = k
				}
			}
		}
	}
	if syncCmd < 0 {
		r.Violated(rule, "sync arm", w.pos(loop.Pos()), "no arm of the heap loop starts the width distributors")
		return
	}
	bad := ""
	sawRebuild, sawKeep := false, false
	wst := w.Func("mpb.(*Bar).wSyncTable")
	n, over := w.enumPaths(loop, pathOpts{Start: arms[syncCmd], StopAt: stop, MaxPaths: 50000, InlineDepth: 2,
		Inline: func(_ ssa.CallInstruction, c *ssa.Function) bool {
			return c.Pkg == w.Mpb && c != wst && c != syncWidthFn && c.Signature.Recv() == nil
		}}, func(p *Path) {
		if bad != "" || p.Exit != "stop" {
			return
		}
		maps, tables, dists := 0, 0, 0
		var distArgs []ssa.Value
		for _, ev := range p.Events {
			switch x := ev.In.(type) {
			case *ssa.MakeMap:
				maps++
			case *ssa.Call:
				if x.Call.StaticCallee() == wst && wst != nil {
					tables++
				}
				if x.Call.StaticCallee() == syncWidthFn {
					dists++
					if len(x.Call.Args) > 0 {
						distArgs = append(distArgs, p.stripR(p.val(ev, x.Call.Args[0])).V)
					}
				}
			}
		}
		if dists != 2 {
			bad = fmt.Sprintf("the sync arm starts the distributors for %d matrices (must be both the prepend and the append matrix)", dists)
			return
		}
		if len(distArgs) == 2 && distArgs[0] == distArgs[1] {
			bad = "the distributors are started twice for the same matrix: the decorators of the other side never get their column width and block forever"
			return
		}
		last := p.Blocks[len(p.Blocks)-1]
		var ns, nl ssa.Value
		for i, pred := range outer.Header.Preds {
			if pred == last {
				ns, nl = syncPhi.Edges[i], lenPhi.Edges[i]
			}
		}
		nsv := p.R(Val{ns, p.eng.root, lastEnv(p)})
		nlv := p.R(Val{nl, p.eng.root, lastEnv(p)})
		if maps > 0 {
			sawRebuild = true
			if maps != 2 {
				bad = "a rebuild does not renew both matrices"
				return
			}
			if bv, ok := constBool(nsv.V); !ok || bv {
				bad = "the re-sync flag is not cleared after a rebuild"
				return
			}
			if c, ok := nlv.V.(*ssa.Call); !ok || c.Call.StaticCallee() == nil || c.Call.StaticCallee().Name() != "Len" {
				bad = "the cached heap length is not refreshed after a rebuild"
				return
			}
			// the rebuild must be justified: flag set, or length changed
			flag := p.hasBool(-1, true, func(x Val) bool { return x.V == ssa.Value(syncPhi) })
			lenChanged := p.hasCmp(-1, token.NEQ, func(x Val) bool { return x.V == ssa.Value(lenPhi) }, func(x Val) bool {
				c, ok := x.V.(*ssa.Call)
				return ok && c.Call.StaticCallee() != nil && c.Call.StaticCallee().Name() == "Len"
			})
			if !flag && !lenChanged {
				bad = "matrices are rebuilt on a path that carries neither the re-sync flag nor a changed heap length"
			}
		} else {
			sawKeep = true
			if tables != 0 {
				bad = "bars are queried for their sync tables without a rebuild"
				return
			}
			// keeping the matrices needs: flag false and length unchanged
			flagF := p.hasBool(-1, false, func(x Val) bool { return x.V == ssa.Value(syncPhi) })
			lenSame := p.hasCmp(-1, token.EQL, func(x Val) bool { return x.V == ssa.Value(lenPhi) }, func(x Val) bool {
				c, ok := x.V.(*ssa.Call)
				return ok && c.Call.StaticCallee() != nil && c.Call.StaticCallee().Name() == "Len"
			})
			if !flagF || !lenSame {
				bad = "the width matrices are kept on a path that does not carry both !sync and an unchanged heap length (bars joining or leaving would not be announced)"
			}
		}
	})
	if over {
		r.Undecided(rule, "sync arm", w.instrPos(arms[syncCmd].Instrs[0]), "path cap")
		return
	}
	r.Check(bad == "" && n > 0 && sawRebuild && sawKeep, rule, "sync arm", w.instrPos(arms[syncCmd].Instrs[0]), fmt.Sprintf("%d paths: rebuild iff sync || len changed; both matrices; flag and length reset; two distributor launches", n), orStr(bad, "rebuild or keep branch missing"))

	// the rebuild loop covers every heap element, and per element both table halves are appended column-wise
	var rebuildLoop *loopInfo
	rebuildFns := []*ssa.Function{loop}
	for f := range w.unit(loop) {
		if f != loop && f != wst && f != syncWidthFn {
			rebuildFns = append(rebuildFns, f)
		}
	}
	var allLoops []*loopInfo
	for _, f := range rebuildFns {
		allLoops = append(allLoops, naturalLoops(f)...)
	}
	for _, l := range allLoops {
		if l.Header == outer.Header {
			continue
		}
		for b := range l.Blocks {
			for _, in := range b.Instrs {
				if c, ok := in.(*ssa.Call); ok && c.Call.StaticCallee() == wst && wst != nil {
					if rebuildLoop == nil || len(l.Blocks) > len(rebuildLoop.Blocks) {
						rebuildLoop = l
					}
				}
			}
		}
	}
	if rebuildLoop == nil {
		r.Violated(rule, "rebuild loop", w.pos(loop.Pos()), "no loop queries the bars' sync tables")
		return
	}
	cl := classifyCountingLoop(rebuildLoop)
	okCover := cl.ok && cl.step == 1
	if okCover {
		lc, isCall := cl.bound.(*ssa.Call)
		okCover = isCall && isBuiltinCall(&lc.Call, "len") && w.isWholeHeap(lc.Call.Args[0], 0)
	}
	nUpd := 0
	for b := range rebuildLoop.Blocks {
		for _, in := range b.Instrs {
			if _, ok := in.(*ssa.MapUpdate); ok {
				nUpd++
			}
			// or through a helper called once per table half
			if c, ok := in.(*ssa.Call); ok {
				if sc := c.Call.StaticCallee(); sc != nil && w.modSet[sc] && sc != wst {
					for f := range w.unit(sc) {
						for _, fb := range f.Blocks {
							for _, fi := range fb.Instrs {
								if _, ok := fi.(*ssa.MapUpdate); ok {
									nUpd++
								}
							}
						}
					}
				}
			}
		}
	}
	r.Check(okCover && nUpd >= 2, rule, "rebuild loop", w.instrPos(rebuildLoop.Header.Instrs[0]), "ranges over the whole heap; both matrices appended", "the rebuild does not visit every bar of the heap and append both halves of its sync table")
	// both halves of a bar's table are read: constant indices into the [2][]chan table cover {0, 1}
	// (a half read twice puts the same channels into both matrices - two distributors compete for one
	// answer each - and leaves the other half's decorators without any)
	{
		halves := map[int64]bool{}
		dynamic := false
		isTable := func(t types.Type) bool {
			if pt, ok := t.Underlying().(*types.Pointer); ok {
				t = pt.Elem()
			}
			a, ok := t.Underlying().(*types.Array)
			if !ok || a.Len() != 2 {
				return false
			}
			sl, ok := a.Elem().Underlying().(*types.Slice)
			if !ok {
				return false
			}
			_, isCh := sl.Elem().Underlying().(*types.Chan)
			return isCh
		}
		for _, f := range rebuildFns {
			for _, b := range f.Blocks {
				for _, in := range b.Instrs {
					var idx ssa.Value
					switch x := in.(type) {
					case *ssa.IndexAddr:
						if isTable(x.X.Type()) {
							idx = x.Index
						}
					case *ssa.Index:
						if isTable(x.X.Type()) {
							idx = x.Index
						}
					}
					if idx == nil {
						continue
					}
					if k, ok := constInt(idx); ok {
						halves[k] = true
					} else {
						dynamic = true
					}
				}
			}
		}
		if len(halves) > 0 || dynamic {
			r.Check(dynamic || (halves[0] && halves[1]), rule, "table halves", w.instrPos(rebuildLoop.Header.Instrs[0]), "prepend and append half both read", "only one half of the bars' sync tables is read while the matrices are rebuilt")
		}
	}
	// syncWidth: one distributor per column (range over the map, one go each)
	if syncWidthFn != nil {
		okSW := false
		for _, l := range naturalLoops(syncWidthFn) {
			gos := 0
			for b := range l.Blocks {
				for _, in := range b.Instrs {
					if _, ok := in.(*ssa.Go); ok {
						gos++
					}
				}
			}
			rng := false
			for _, in := range l.Header.Instrs {
				if _, ok := in.(*ssa.Next); ok {
					rng = true
				}
			}
			if gos == 1 && rng {
				okSW = true
				// on every path through the loop body: exactly one launch - a column of any length,
				// also a single entry, needs its distributor (the entry's Format blocks on it)
				var body *ssa.BasicBlock
				for _, sc := range l.Header.Succs {
					if l.Blocks[sc] {
						body = sc
					}
				}
				if body != nil {
					hdr := l.Header
					w.enumPaths(syncWidthFn, pathOpts{Start: body, StopAt: func(b *ssa.BasicBlock) bool { return b == hdr }}, func(p *Path) {
						n := 0
						for _, ev := range p.Events {
							if g, ok := ev.In.(*ssa.Go); ok {
								for _, t := range w.goTargets(g) {
									if t == dist {
										n++
									}
								}
							}
						}
						if p.Exit != "stop" || n != 1 {
							okSW = false
						}
					})
				}
			}
		}
		r.Check(okSW, rule, "distributor launch", w.pos(syncWidthFn.Pos()), "one distributor per column", "not exactly one distributor goroutine per column of the matrix")
	}
}

func lastEnv(p *Path) *env { return p.EndEnv }

// ruleDecorAlwaysCalled (C01.R7): in the decorator-writing closure of draw, Decor is called on every
// iteration before any continue; draw runs the closure for both groups.
func ruleDecorAlwaysCalled(w *World, r *Report, pfx string) {
	rule := pfx + ".E-ALWAYS"
	draw := w.Func("mpb.(*bState).draw")
	if draw == nil {
		r.Unresolved("anchor", "bState.draw", "not found")
		return
	}
	clo, decorCall := w.drawDecorSite(draw)
	if decorCall == nil {
		r.Violated(rule, "draw", w.pos(draw.Pos()), "draw never calls Decorator.Decor")
		return
	}
	l := innermostLoop(naturalLoops(clo), decorCall.Block())
	bad := ""
	if l == nil {
		bad = "Decor is not called in a loop over the group"
	} else {
		for _, latch := range l.Latch {
			if !(decorCall.Block() == latch || decorCall.Block().Dominates(latch)) {
				bad = "an iteration can continue without calling Decor: a synchronised decorator skipped in one bar blocks the column's distributor and every other bar"
			}
		}
		cl := classifyCountingLoop(l)
		if !cl.ok || cl.step != 1 {
			bad = orStr(bad, "the loop over the group is not a complete range loop")
		}
		// no return inside the loop
		for b := range l.Blocks {
			if _, ok := b.Instrs[len(b.Instrs)-1].(*ssa.Return); ok {
				bad = orStr(bad, "the decorator loop can return early")
			}
			// a break: an edge that leaves the loop from anywhere but the range test
			if b != l.Header {
				for _, sc := range b.Succs {
					if !l.Blocks[sc] {
						bad = orStr(bad, "the decorator loop can be left early (break): the remaining decorators of the group are not called, a synchronised one among them blocks its column's distributor and every other bar")
					}
				}
			}
		}
	}
	r.Check(bad == "", rule, "decorator-writing loop", w.instrPos(decorCall), "Decor dominates every latch, no early exit", bad)
	// both groups
	if clo != draw {
		nCalls := 0
		inLoop2 := false
		for _, b := range draw.Blocks {
			for _, in := range b.Instrs {
				if c, ok := in.(*ssa.Call); ok && c.Call.StaticCallee() == clo {
					nCalls++
					if ll := innermostLoop(naturalLoops(draw), b); ll != nil {
						if k, ok := constInt(classifyCountingLoop(ll).bound); ok && k == 2 {
							inLoop2 = true
						}
					}
				}
			}
		}
		if nCalls == 1 && !inLoop2 {
			inLoop2 = drawLoopCoversGroups(w, draw, clo)
		}
		r.Check(nCalls == 2 || (nCalls == 1 && inLoop2), rule, "draw covers both decorator groups", w.pos(draw.Pos()), "closure run for both groups", "draw does not run the decorators of both groups")
	}
}

// C12 — width-synchronised decorators line up.
func checkC12(w *World, r *Report) {
	r.Explain = "Width-exchange discipline (E8), decided structurally on SSA with path enumeration: WC.Format computes max(W, text width) (+1 extra space only when W does not apply), and under the sync bit sends exactly that value then receives the column width, which it returns and fills to; every Decor of the decor package performs exactly one exchange per path and returns its width (wrappers route their message through the wrapped Format); the distributor collects one width per column entry keeping the maximum under the guard received > max and sends it back on every entry; wSyncTable visits every decorator of both groups once, in order, and splits at the group boundary; the heap loop's push arm accumulates the re-sync flag, its sync arm rebuilds both matrices from every heap element exactly under sync || len changed, resets both cached values and launches one distributor per column of both matrices; new bars are pushed with sync=true. Decides these necessary conditions on every path; numeric equality of rendered widths is not computed."
	r.Assume = append(r.Assume, "runewidth.StringWidth/FillLeft/FillRight behave as documented", "one decorator instance per bar")
	ruleFormatExchange(w, r, "C12")
	ruleInitChannel(w, r, "C12")
	ruleSyncAPI(w, r, "C12")
	ruleDistributor(w, r, "C12")
	ruleDecorExchange(w, r, "C12")
	ruleWrappersUnwrap(w, r, "C12")
	ruleSyncTable(w, r, "C12")
	ruleSyncArm(w, r, "C12")
	ruleDecorAlwaysCalled(w, r, "C12")
	fi := w.analyseFlush()
	ruleSuccessorSwap(w, r, "C12", fi)
	ruleAddPushesOrParks(w, r, "C12")
	checkGetterFinalityTable(w, r, "C12")
	ruleStateAgrees(w, r, "C12")
}

// checkGetterFinalityTable: Bar.wSyncTable replies the bar state's table on both arms.
func checkGetterFinalityTable(w *World, r *Report, pfx string) {
	fn := w.Func("mpb.(*Bar).wSyncTable")
	tbl := w.Func("mpb.(*bState).wSyncTable")
	if fn == nil || tbl == nil {
		return
	}
	n := 0
	fns := append([]*ssa.Function{fn}, fn.AnonFuncs...)
	// the operation offered on the inbox, when it is not a local closure (method value of a request type)
	for _, o := range w.offersIn(fn) {
		if o.Closure != nil && o.Closure.Parent() != fn {
			fns = append(fns, o.Closure)
		}
	}
	for _, f := range fns {
		for _, b := range f.Blocks {
			for _, in := range b.Instrs {
				if c, ok := in.(*ssa.Call); ok && c.Call.StaticCallee() == tbl {
					n++
				}
			}
		}
	}
	r.Check(n == 2, pfx+".E-BARTABLE", "Bar.wSyncTable", w.pos(fn.Pos()), "both arms (live actor / exited bar) report the state's table", "a bar does not report its sync table on both the live and the exited arm")
}

// drawLoopCoversGroups: the single call of the decorator closure sits in a complete range loop
// whose index selects decorGroups[i] and whose bound is the length of a slice x[:k] with k the
// number of decorator groups.
func drawLoopCoversGroups(w *World, draw, clo *ssa.Function) bool {
	for _, b := range draw.Blocks {
		for _, in := range b.Instrs {
			c, ok := in.(*ssa.Call)
			if !ok || c.Call.StaticCallee() != clo {
				continue
			}
			l := innermostLoop(naturalLoops(draw), b)
			if l == nil {
				return false
			}
			cl := classifyCountingLoop(l)
			if !cl.ok || cl.step != 1 {
				return false
			}
			// group argument = decorGroups[i]
			okArg := false
			var nGroups int64 = -1
			for _, a := range c.Call.Args {
				ld, ok := a.(*ssa.UnOp)
				if !ok || ld.Op != token.MUL {
					continue
				}
				ia, ok := ld.X.(*ssa.IndexAddr)
				if !ok {
					continue
				}
				f, ok := fieldOf(ia.X)
				if !ok || f.Owner != tBState || f.Name != "decorGroups" {
					continue
				}
				if ia.Index == ssa.Value(cl.phi) || isNextOf(ia.Index, cl.phi) {
					okArg = true
				}
				if arr, ok := ia.X.Type().Underlying().(*types.Pointer).Elem().Underlying().(*types.Array); ok {
					nGroups = arr.Len()
				}
			}
			if !okArg {
				return false
			}
			lc, ok := cl.bound.(*ssa.Call)
			if !ok || !isBuiltinCall(&lc.Call, "len") {
				return false
			}
			sl, ok := lc.Call.Args[0].(*ssa.Slice)
			if !ok || sl.High == nil {
				return false
			}
			k, ok := constInt(sl.High)
			return ok && k == nGroups
		}
	}
	return false
}

// drawDecorSite: the function (draw itself, one of its closures, or a private helper) that calls
// Decorator.Decor for the row being drawn, and the call.
func (w *World) drawDecorSite(draw *ssa.Function) (*ssa.Function, *ssa.Call) {
	cands := append([]*ssa.Function{draw}, draw.AnonFuncs...)
	for f := range w.unit(draw) {
		if f != draw {
			cands = append(cands, f)
		}
	}
	for _, c := range cands {
		for _, b := range c.Blocks {
			for _, in := range b.Instrs {
				if call, ok := in.(*ssa.Call); ok && call.Call.IsInvoke() && call.Call.Method.Name() == "Decor" {
					return c, call
				}
			}
		}
	}
	return nil, nil
}

// loopCoversGroups: an ascending unit-step counting loop whose bound is the number of decorator
// groups (constant, len of the groups array, or len of a slice of it that reaches its end).
func (w *World) loopCoversGroups(l *loopInfo) bool {
	co := classifyCountingLoop(l)
	nGroups := int64(-1)
	if st := structOf(w.namedByTypeName(tBState)); st != nil {
		for i := 0; i < st.NumFields(); i++ {
			if st.Field(i).Name() == "decorGroups" {
				if arr, ok := st.Field(i).Type().Underlying().(*types.Array); ok {
					nGroups = arr.Len()
				}
			}
		}
	}
	if !co.ok || co.step != 1 {
		return false
	}
	if k, ok := constInt(co.bound); ok && k == nGroups {
		return true
	}
	// all of the groups: the array itself, or a slice of it from its first to its last element
	var allGroups func(x ssa.Value, d int) bool
	allGroups = func(x ssa.Value, d int) bool {
		if sl, ok := x.(*ssa.Slice); ok {
			if f, ok := fieldOf(sl.X); ok && f.Name == "decorGroups" {
				if sl.Low != nil {
					if k, ok := constInt(sl.Low); !ok || k != 0 {
						return false
					}
				}
				if sl.High == nil {
					return true
				}
				if k, ok := constInt(sl.High); ok && k == nGroups {
					return true
				}
			}
			return false
		}
		if f, ok := fieldOf(x); ok && f.Name == "decorGroups" {
			return true
		}
		if f, ok := loadedField(x); ok && f.Name == "decorGroups" {
			return true
		}
		// a helper's parameter: every caller hands it all of the groups
		if par, ok := x.(*ssa.Parameter); ok && d < 2 {
			h := par.Parent()
			idx := -1
			for i, q := range h.Params {
				if q == par {
					idx = i
				}
			}
			sites := w.callers[h]
			if len(sites) == 0 || idx < 0 {
				return false
			}
			for _, site := range sites {
				if site.Common().StaticCallee() != h || idx >= len(site.Common().Args) || !allGroups(site.Common().Args[idx], d+1) {
					return false
				}
			}
			return true
		}
		return false
	}
	if lc, ok := co.bound.(*ssa.Call); ok && isBuiltinCall(&lc.Call, "len") {
		return allGroups(lc.Call.Args[0], 0)
	}
	return false
}

// ruleInitChannel (E-INIT): WC.Init gives every initialised width configuration that asks for
// synchronisation its own fresh unbuffered channel: on every path with the sync bit set the
// channel field is overwritten with a new make(chan int), unconditionally. (Reusing an existing
// channel makes copies of one initialised WC - the documented way to share a configuration
// between bars - share one column channel: widths cross between bars and a distributor starves.)
func ruleInitChannel(w *World, r *Report, pfx string) {
	rule := pfx + ".E-INIT"
	fn := w.Func("decor.(*WC).Init")
	if fn == nil {
		r.Unresolved("anchor", "decor.(*WC).Init", "not found")
		return
	}
	syncBit := int64(-1)
	if m, ok := w.Decor.Members["DSyncWidth"].(*ssa.NamedConst); ok {
		if k, ok := constInt(m.Value); ok {
			syncBit = k
		}
	}
	if syncBit < 0 {
		r.Unresolved("anchor", "decor.DSyncWidth", "constant not found")
		return
	}
	bad := ""
	sawSync, sawPlain := false, false
	nP, over := w.enumPaths(fn, pathOpts{InlineDepth: 2, Inline: w.helperInline(fn)}, func(p *Path) {
		if p.Exit != "return" || bad != "" {
			return
		}
		on := p.bitAtom(syncBit) == triTrue
		off := p.bitAtom(syncBit) == triFalse
		st := p.storesTo("decor.WC", "wsync")
		switch {
		case on:
			sawSync = true
			if len(st) != 1 {
				bad = "a path with the sync bit set does not install a channel (or installs it more than once): an already initialised configuration keeps its old channel, so copies share one column channel"
				return
			}
			mc, ok := p.R(st[0].Val).V.(*ssa.MakeChan)
			if !ok {
				bad = "the installed channel is not a fresh make(chan int)"
				return
			}
			if k, ok := constInt(mc.Size); !ok || k != 0 {
				bad = "the width channel must be unbuffered (the exchange is a rendezvous with the column's distributor)"
			}
		case off:
			sawPlain = true
			if len(st) != 0 {
				bad = "a channel is installed although synchronisation was not requested"
			}
		default:
			if len(st) != 0 {
				bad = "the channel is installed on a path that does not test the sync bit"
			}
		}
	})
	if over {
		r.Undecided(rule, "decor.(*WC).Init", w.pos(fn.Pos()), "path cap")
		return
	}
	r.Check(bad == "" && nP > 0 && sawSync && sawPlain, rule, "decor.(*WC).Init", w.pos(fn.Pos()), "fresh unbuffered channel exactly on the paths with the sync bit", orStr(bad, "branch missing"))
}

// isWholeHeap: v is the heap manager's bar list as a whole: a value of the heap's slice type, or a
// helper's parameter to which every caller hands such a value (possibly converted to []*Bar).
func (w *World) isWholeHeap(v ssa.Value, depth int) bool {
	v = stripConv(v)
	if typeName(v.Type()) == "mpb.priorityQueue" {
		return true
	}
	par, ok := v.(*ssa.Parameter)
	if !ok || depth > 1 {
		return false
	}
	h := par.Parent()
	idx := -1
	for i, q := range h.Params {
		if q == par {
			idx = i
		}
	}
	sites := w.callers[h]
	if len(sites) == 0 || idx < 0 {
		return false
	}
	for _, site := range sites {
		if site.Common().StaticCallee() != h || idx >= len(site.Common().Args) || !w.isWholeHeap(site.Common().Args[idx], depth+1) {
			return false
		}
	}
	return true
}

// ruleSyncAPI (E-SYNCAPI): the two ends of the column wiring. WC.Sync hands the heap loop the
// configuration's own channel and tells it whether the sync bit is set - nothing else - and the
// configuration every built-in decorator is created with went through Init (initWC returns Init's
// result), so a synchronised decorator's channel exists and is the one its Format uses.
func ruleSyncAPI(w *World, r *Report, pfx string) {
	rule := pfx + ".E-SYNCAPI"
	syncBit, ok := w.decorConst("DSyncWidth")
	if !ok {
		r.Unresolved("anchor", "decor.DSyncWidth", "constant not found")
		return
	}
	if fn := w.Func("decor.(WC).Sync"); fn != nil {
		bad := ""
		n := 0
		w.enumPaths(fn, pathOpts{InlineDepth: 2, Inline: w.helperInline(fn)}, func(p *Path) {
			if p.Exit != "return" || len(p.Ret) != 2 || bad != "" {
				return
			}
			n++
			if !p.loadsField(p.Ret[0], "decor.WC", "wsync") {
				bad = "Sync hands out a channel other than the configuration's own (the decorator's Format would exchange on a different channel than the column's distributor)"
				return
			}
			// the flag: the sync bit test itself, or a constant that agrees with the bit's atom on this path
			fv := p.stripR(p.Ret[1])
			if bv, isK := constBool(fv.V); isK {
				if t := p.bitAtom(syncBit); (t == triTrue) != bv || t == triUnknown {
					bad = "Sync reports a synchronisation flag that does not follow the sync bit"
				}
				return
			}
			q := *p
			q.Atoms = []Atom{{Cond: fv, Pol: true}}
			if q.bitAtom(syncBit) != triTrue {
				bad = "Sync reports a synchronisation flag that is not the sync bit of the configuration"
			}
		})
		r.Check(bad == "" && n > 0, rule, "decor.WC.Sync", w.pos(fn.Pos()), "(own channel, sync bit)", orStr(bad, "no returning path"))
	} else {
		r.Unresolved("anchor", "decor.(WC).Sync", "not found")
	}
	init := w.Func("decor.(*WC).Init")
	if fn := w.Func("decor.initWC"); fn != nil && init != nil {
		bad := ""
		n := 0
		w.enumPaths(fn, pathOpts{}, func(p *Path) {
			if p.Exit != "return" || len(p.Ret) != 1 {
				return
			}
			n++
			c, ok := p.stripR(p.Ret[0]).V.(*ssa.Call)
			if !ok || c.Call.StaticCallee() != init {
				bad = "the configuration a decorator is created with is returned without Init: a synchronised decorator has no channel (Sync panics at the first frame) or keeps a shared one"
			}
		})
		r.Check(bad == "" && n > 0, rule, "decor.initWC", w.pos(fn.Pos()), "returns Init()'s result", orStr(bad, "no returning path"))
	}
}
