package main

import (
	"fmt"
	"go/token"
	"go/types"
	"sort"
	"strings"

	"golang.org/x/tools/go/ssa"
)

// E4 — abstract reachability: forward exploration of (block, facts, counter) to a
// fixpoint. Facts map SSA values to NIL/NONNIL (pointer-like) or FALSE/TRUE (bool).
// Phi edges substitute, nil/bool comparisons refine and prune, a select arm on a nil
// channel is infeasible. Needed because the container loop disables its inboxes by
// assigning nil to local channel variables (phis in lifted SSA).

type absVal int8

const (
	absUnknown absVal = 0
	absNo      absVal = 1 // nil / false
	absYes     absVal = 2 // non-nil / true
)

type absState struct {
	Block *ssa.BasicBlock
	Pred  *ssa.BasicBlock
	Facts map[ssa.Value]absVal
	Count int // saturating event counter maintained by the visitor
	Trace []int
}

func (s *absState) key() string {
	var ks []string
	for v, f := range s.Facts {
		if f != absUnknown {
			ks = append(ks, fmt.Sprintf("%s=%d", v.Name(), f))
		}
	}
	sort.Strings(ks)
	p := -1
	if s.Pred != nil {
		p = s.Pred.Index
	}
	return fmt.Sprintf("%d<%d|%d|%s", s.Block.Index, p, s.Count, strings.Join(ks, ","))
}

func (s *absState) eval(v ssa.Value) absVal {
	switch x := v.(type) {
	case *ssa.Const:
		if x.Value == nil {
			if _, isBasic := x.Type().Underlying().(*types.Basic); isBasic {
				return absUnknown
			}
			return absNo
		}
		if b, ok := constBool(x); ok {
			if b {
				return absYes
			}
			return absNo
		}
		return absUnknown
	case *ssa.MakeChan, *ssa.Alloc, *ssa.MakeClosure, *ssa.MakeMap, *ssa.MakeSlice, *ssa.Function:
		return absYes
	case *ssa.MakeInterface:
		return absYes
	case *ssa.ChangeType:
		return s.eval(x.X)
	case *ssa.UnOp:
		if x.Op == token.NOT {
			switch s.eval(x.X) {
			case absYes:
				return absNo
			case absNo:
				return absYes
			}
		}
	case *ssa.BinOp:
		if x.Op == token.EQL || x.Op == token.NEQ {
			var other ssa.Value
			if isNilConst(x.Y) {
				other = x.X
			} else if isNilConst(x.X) {
				other = x.Y
			}
			if other != nil {
				o := s.eval(other)
				if o != absUnknown {
					isNil := o == absNo
					if (x.Op == token.EQL) == isNil {
						return absYes
					}
					return absNo
				}
			}
		}
	}
	return s.Facts[v]
}

// refine records that cond evaluated to truth. Returns false if infeasible.
func (s *absState) refine(cond ssa.Value, truth bool) bool {
	cur := s.eval(cond)
	if cur != absUnknown {
		return (cur == absYes) == truth
	}
	switch x := cond.(type) {
	case *ssa.UnOp:
		if x.Op == token.NOT {
			return s.refine(x.X, !truth)
		}
	case *ssa.BinOp:
		if x.Op == token.EQL || x.Op == token.NEQ {
			var other ssa.Value
			if isNilConst(x.Y) {
				other = x.X
			} else if isNilConst(x.X) {
				other = x.Y
			}
			if other != nil {
				isNil := (x.Op == token.EQL) == truth
				if isNil {
					s.Facts[other] = absNo
				} else {
					s.Facts[other] = absYes
				}
				return true
			}
			// select index == k : arm on a nil channel is infeasible
			if ex, ok := x.X.(*ssa.Extract); ok && ex.Index == 0 {
				if sel, ok := ex.Tuple.(*ssa.Select); ok {
					if k, ok := constInt(x.Y); ok && (x.Op == token.EQL) == truth && int(k) < len(sel.States) {
						if s.eval(sel.States[k].Chan) == absNo {
							return false
						}
					}
				}
			}
		}
	}
	if truth {
		s.Facts[cond] = absYes
	} else {
		s.Facts[cond] = absNo
	}
	return true
}

type absVisitor func(in ssa.Instruction, st *absState)

// absExplore explores fn from block start (entered from pred, may be nil) with the given
// initial facts. visit is called for every instruction in every reachable abstract state.
// Returns the number of abstract states explored; cap exceeded -> ok=false.
func (w *World) absExplore(fn *ssa.Function, start, pred *ssa.BasicBlock, init map[ssa.Value]absVal, count0 int, visit absVisitor) (int, bool) {
	seen := map[string]bool{}
	type item struct{ st *absState }
	first := &absState{Block: start, Pred: pred, Facts: map[ssa.Value]absVal{}, Count: count0}
	for k, v := range init {
		first.Facts[k] = v
	}
	work := []*absState{first}
	n := 0
	for len(work) > 0 {
		st := work[len(work)-1]
		work = work[:len(work)-1]
		b := st.Block
		// entering b: phis take the operand of the taken edge; values defined in b are fresh
		newFacts := map[ssa.Value]absVal{}
		phiVals := map[ssa.Value]absVal{}
		if st.Pred != nil {
			pi := -1
			for i, p := range b.Preds {
				if p == st.Pred {
					pi = i
				}
			}
			for _, in := range b.Instrs {
				phi, ok := in.(*ssa.Phi)
				if !ok {
					break
				}
				if pi >= 0 {
					phiVals[phi] = st.eval(phi.Edges[pi])
				}
			}
		}
		defined := map[ssa.Value]bool{}
		for _, in := range b.Instrs {
			if v, ok := in.(ssa.Value); ok {
				defined[v] = true
			}
		}
		for v, f := range st.Facts {
			if !defined[v] {
				newFacts[v] = f
			}
		}
		for v, f := range phiVals {
			if f != absUnknown {
				newFacts[v] = f
			}
		}
		st.Facts = newFacts
		k := st.key()
		if seen[k] {
			continue
		}
		seen[k] = true
		n++
		w.statAbsStates++
		if n > 20000 {
			return n, false
		}
		for _, in := range b.Instrs {
			visit(in, st)
		}
		last := b.Instrs[len(b.Instrs)-1]
		switch x := last.(type) {
		case *ssa.If:
			for si, succ := range b.Succs {
				ns := &absState{Block: succ, Pred: b, Facts: map[ssa.Value]absVal{}, Count: st.Count}
				for v, f := range st.Facts {
					ns.Facts[v] = f
				}
				if !ns.refine(x.Cond, si == 0) {
					continue
				}
				work = append(work, ns)
			}
		case *ssa.Jump:
			ns := &absState{Block: b.Succs[0], Pred: b, Facts: st.Facts, Count: st.Count}
			cp := map[ssa.Value]absVal{}
			for v, f := range st.Facts {
				cp[v] = f
			}
			ns.Facts = cp
			work = append(work, ns)
		}
	}
	return n, true
}
