package main

import (
	"fmt"
	"go/token"
	"go/types"
	"sort"
	"strings"

	"golang.org/x/tools/go/ssa"
)

// E4 — abstract reachability: forward exploration of (block, facts, counter) to a
// fixpoint. Facts map SSA values to NIL/NONNIL (pointer-like) or FALSE/TRUE (bool).
// Phi edges substitute, nil/bool comparisons refine and prune, a select arm on a nil
// channel is infeasible. Needed because the container loop disables its inboxes by
// assigning nil to local channel variables (phis in lifted SSA).

type absVal int8

const (
	absUnknown absVal = 0
	absNo      absVal = 1 // nil / false
	absYes     absVal = 2 // non-nil / true
)

type absState struct {
	Block *ssa.BasicBlock
	Pred  *ssa.BasicBlock
	Facts map[ssa.Value]absVal
	Count int // saturating event counter maintained by the visitor
	Trace []int
}

func (s *absState) key() string {
	var ks []string
	for v, f := range s.Facts {
		if f != absUnknown {
			ks = append(ks, fmt.Sprintf("%s=%d", v.Name(), f))
		}
	}
	sort.Strings(ks)
	p := -1
	if s.Pred != nil {
		p = s.Pred.Index
	}
	return fmt.Sprintf("%d<%d|%d|%s", s.Block.Index, p, s.Count, strings.Join(ks, ","))
}

func (s *absState) eval(v ssa.Value) absVal {
	switch x := v.(type) {
	case *ssa.Const:
		if x.Value == nil {
			if _, isBasic := x.Type().Underlying().(*types.Basic); isBasic {
				return absUnknown
			}
			return absNo
		}
		if b, ok := constBool(x); ok {
			if b {
				return absYes
			}
			return absNo
		}
		return absUnknown
	case *ssa.MakeChan, *ssa.Alloc, *ssa.MakeClosure, *ssa.MakeMap, *ssa.MakeSlice, *ssa.Function:
		return absYes
	case *ssa.MakeInterface:
		return absYes
	case *ssa.ChangeType:
		return s.eval(x.X)
	case *ssa.UnOp:
		if x.Op == token.NOT {
			switch s.eval(x.X) {
			case absYes:
				return absNo
			case absNo:
				return absYes
			}
		}
	case *ssa.BinOp:
		if x.Op == token.EQL || x.Op == token.NEQ {
			var other ssa.Value
			if isNilConst(x.Y) {
				other = x.X
			} else if isNilConst(x.X) {
				other = x.Y
			}
			if other != nil {
				o := s.eval(other)
				if o != absUnknown {
					isNil := o == absNo
					if (x.Op == token.EQL) == isNil {
						return absYes
					}
					return absNo
				}
			}
		}
	}
	return s.Facts[v]
}

// refine records that cond evaluated to truth. Returns false if infeasible.
func (s *absState) refine(cond ssa.Value, truth bool) bool {
	cur := s.eval(cond)
	if cur != absUnknown {
		return (cur == absYes) == truth
	}
	switch x := cond.(type) {
	case *ssa.UnOp:
		if x.Op == token.NOT {
			return s.refine(x.X, !truth)
		}
	case *ssa.BinOp:
		if x.Op == token.EQL || x.Op == token.NEQ {
			var other ssa.Value
			if isNilConst(x.Y) {
				other = x.X
			} else if isNilConst(x.X) {
				other = x.Y
			}
			if other != nil {
				isNil := (x.Op == token.EQL) == truth
				if isNil {
					s.Facts[other] = absNo
				} else {
					s.Facts[other] = absYes
				}
				return true
			}
			// select index == k : arm on a nil channel is infeasible
			if ex, ok := x.X.(*ssa.Extract); ok && ex.Index == 0 {
				if sel, ok := ex.Tuple.(*ssa.Select); ok {
					if k, ok := constInt(x.Y); ok && (x.Op == token.EQL) == truth && int(k) < len(sel.States) {
						if s.eval(sel.States[k].Chan) == absNo {
							return false
						}
					}
				}
			}
		}
	}
	if truth {
		s.Facts[cond] = absYes
	} else {
		s.Facts[cond] = absNo
	}
	return true
}

type absVisitor func(in ssa.Instruction, st *absState)

// absDescend: optional inter-procedural step. For a call instruction it may return the set of
// counter values with which the callee returns (having shown the callee's instructions to the
// visitor itself); handled=false leaves the call opaque.
type absDescend func(call *ssa.Call, st *absState) (counts []int, handled bool)

// absExplore explores fn from block start (entered from pred, may be nil) with the given
// initial facts. visit is called for every instruction in every reachable abstract state.
// Returns the number of abstract states explored; cap exceeded -> ok=false.
func (w *World) absExplore(fn *ssa.Function, start, pred *ssa.BasicBlock, init map[ssa.Value]absVal, count0 int, visit absVisitor) (int, bool) {
	return w.absExploreX(fn, start, pred, init, count0, visit, nil)
}

func (w *World) absExploreX(fn *ssa.Function, start, pred *ssa.BasicBlock, init map[ssa.Value]absVal, count0 int, visit absVisitor, descend absDescend) (int, bool) {
	seen := map[string]bool{}
	type item struct {
		st  *absState
		idx int // resume inside the block at this instruction (0: enter the block)
	}
	first := &absState{Block: start, Pred: pred, Facts: map[ssa.Value]absVal{}, Count: count0}
	for k, v := range init {
		first.Facts[k] = v
	}
	work := []item{{first, 0}}
	n := 0
	for len(work) > 0 {
		it := work[len(work)-1]
		work = work[:len(work)-1]
		st := it.st
		b := st.Block
		if it.idx == 0 {
			// entering b: phis take the operand of the taken edge; values defined in b are fresh
			newFacts := map[ssa.Value]absVal{}
			phiVals := map[ssa.Value]absVal{}
			if st.Pred != nil {
				pi := -1
				for i, p := range b.Preds {
					if p == st.Pred {
						pi = i
					}
				}
				for _, in := range b.Instrs {
					phi, ok := in.(*ssa.Phi)
					if !ok {
						break
					}
					if pi >= 0 {
						phiVals[phi] = st.eval(phi.Edges[pi])
					}
				}
			}
			defined := map[ssa.Value]bool{}
			for _, in := range b.Instrs {
				if v, ok := in.(ssa.Value); ok {
					defined[v] = true
				}
			}
			for v, f := range st.Facts {
				if !defined[v] {
					newFacts[v] = f
				}
			}
			for v, f := range phiVals {
				if f != absUnknown {
					newFacts[v] = f
				}
			}
			st.Facts = newFacts
		}
		k := fmt.Sprintf("%s@%d", st.key(), it.idx)
		if seen[k] {
			continue
		}
		seen[k] = true
		n++
		w.statAbsStates++
		if n > 20000 {
			return n, false
		}
		split := false
		for i := it.idx; i < len(b.Instrs); i++ {
			in := b.Instrs[i]
			visit(in, st)
			if descend == nil {
				continue
			}
			call, ok := in.(*ssa.Call)
			if !ok {
				continue
			}
			counts, handled := descend(call, st)
			if !handled {
				continue
			}
			if len(counts) == 1 {
				st.Count = counts[0]
				continue
			}
			// the callee does not return (no count), or returns with several counter values
			for _, c := range counts {
				ns := &absState{Block: b, Pred: st.Pred, Facts: map[ssa.Value]absVal{}, Count: c}
				for v, f := range st.Facts {
					ns.Facts[v] = f
				}
				work = append(work, item{ns, i + 1})
			}
			split = true
			break
		}
		if split {
			continue
		}
		last := b.Instrs[len(b.Instrs)-1]
		switch x := last.(type) {
		case *ssa.If:
			for si, succ := range b.Succs {
				ns := &absState{Block: succ, Pred: b, Facts: map[ssa.Value]absVal{}, Count: st.Count}
				for v, f := range st.Facts {
					ns.Facts[v] = f
				}
				if !ns.refine(x.Cond, si == 0) {
					continue
				}
				work = append(work, item{ns, 0})
			}
		case *ssa.Jump:
			ns := &absState{Block: b.Succs[0], Pred: b, Count: st.Count}
			cp := map[ssa.Value]absVal{}
			for v, f := range st.Facts {
				cp[v] = f
			}
			ns.Facts = cp
			work = append(work, item{ns, 0})
		}
	}
	return n, true
}

// absSummary explores callee from its entry with the facts known about the call's arguments
// and returns the counter values at its returns.
func (w *World) absSummary(callee *ssa.Function, call *ssa.Call, st *absState, visit absVisitor, descend absDescend) ([]int, bool) {
	init := map[ssa.Value]absVal{}
	for i, a := range call.Call.Args {
		if i < len(callee.Params) {
			if f := st.eval(a); f != absUnknown {
				init[callee.Params[i]] = f
			}
		}
	}
	counts := map[int]bool{}
	_, ok := w.absExploreX(callee, callee.Blocks[0], nil, init, st.Count, func(x ssa.Instruction, s2 *absState) {
		visit(x, s2)
		if _, isRet := x.(*ssa.Return); isRet && x.Block() != callee.Recover {
			counts[s2.Count] = true
		}
	}, descend)
	var out []int
	for c := range counts {
		out = append(out, c)
	}
	sort.Ints(out)
	return out, ok
}
