package main

import (
	"fmt"
	"go/token"

	"golang.org/x/tools/go/ssa"
)

func init() { checks["C09"] = checkC09 }

// C09 — bar counters follow the documented sequential rules: the transition of every
// public operation, as guarded-effect facts over the closure it offers to the bar actor.
func checkC09(w *World, r *Report) {
	r.Explain = "Guarded-effect analysis (path enumeration over SSA, atoms normalised, no solver) of the closure each public Bar operation offers to the bar goroutine: clamp-and-trigger discipline after every store to current, SetTotal/EnableTriggerComplete/Abort/SetRefill guards and effects, completion predicate, constructor's trigger flag, pass-through of the shorthand methods. Decides the per-operation transition rules; by induction over call sequences these are the documented sequential rules. Does not replay sequences or compare with a reference model at run time."
	r.Assume = append(r.Assume, "operations are executed one at a time by the bar goroutine (C10)", "go/ssa faithfully represents the source")
	trig := w.triggerFn()
	pred := w.completionPredicate()
	if trig == nil {
		r.Unresolved("anchor", "trigger function", "no unique bState method that stores triggerComplete<-true and cancels/spawns refresh")
		return
	}
	if pred == nil {
		r.Unresolved("anchor", "completion predicate", "no unique bState method returning bool that reads triggerComplete")
		return
	}
	opts := pathOpts{InlineDepth: 3, Inline: noInline(trig, pred)}

	ruleClamp(w, r, "C09", trig, pred, opts)
	ruleStoredValues(w, r, "C09", trig, pred, opts)
	ruleNegSetCurrent(w, r, "C09", trig, pred, opts)
	ruleSetTotal(w, r, "C09", trig, pred, opts)
	ruleEnableTrigger(w, r, "C09", trig, pred, opts)
	ruleAbort(w, r, "C09", trig, pred, opts)
	rulePredicate(w, r, "C09", trig, pred, opts)
	ruleCtorFlag(w, r, "C09", trig, pred, opts)
	ruleSetRefill(w, r, "C09", trig, pred, opts)
	ruleGetters(w, r, "C09", trig, pred, opts)
	ruleShorthands(w, r, "C09", trig, pred, opts)
	ruleLocksReleased(w, r, "C09.L-UNLOCK")
	r.Floor("C09.F1v", 4, "increment/set closures")
	r.Floor("C09.F9", 3, "getters")
	r.Floor("C09.F10", 4, "shorthands")
}

func ruleClamp(w *World, r *Report, pfx string, trig, pred *ssa.Function, opts pathOpts) {
	// G1: clamp discipline after every store to current, in every function of the module.
	nWriters := 0
	covered := map[*ssa.Function]bool{}
	analyse := func(fn *ssa.Function, construct string, mustStore bool) {
		nWriters++
		bad := ""
		var wit []string
		stored := false
		nPaths, over := w.enumPaths(fn, opts, func(p *Path) {
			sts := p.storesTo(tBState, "current")
			for _, s := range sts {
				stored = true
				covered[s.Ev.F.Fn] = true
			}
			if bad != "" {
				return
			}
			for i, s := range sts {
				isClamp := isLoad(Val{stripConv(s.Val.V), s.Val.F, s.Val.E}, tBState, "total")
				if isClamp {
					// a clamp store must be followed by the trigger call
					if !anyAfter(p.callsTo(trig), s.Idx) {
						bad = "current <- total is not followed by the completion trigger on this path"
						wit = p.describe()
					}
					continue
				}
				// value store: the guard must be decided afterwards
				next := 1 << 30
				if i+1 < len(sts) {
					next = sts[i+1].Idx
				}
				decided, pol := p.boolFieldAtom(s.Idx, tBState, "triggerComplete")
				if !decided {
					bad = "after the store to current the path never tests triggerComplete (clamp-and-trigger block missing)"
					wit = p.describe()
					return
				}
				trigAfter := anyAfter(p.callsTo(trig), s.Idx)
				if !pol {
					if trigAfter || next != 1<<30 {
						bad = "completion triggered / current rewritten although triggerComplete is false"
						wit = p.describe()
					}
					continue
				}
				op, ok := p.cmpFieldsAfter(s.Idx, tBState, "current", "total")
				if !ok {
					bad = "triggerComplete is true but current is not compared with total after the store"
					wit = p.describe()
					return
				}
				switch op {
				case token.GEQ:
					// must clamp and trigger
					clamped := false
					if i+1 < len(sts) {
						nv := sts[i+1].Val
						clamped = isLoad(Val{stripConv(nv.V), nv.F, nv.E}, tBState, "total")
					}
					if !clamped || !trigAfter {
						bad = "triggerComplete && current >= total does not clamp current to total and trigger completion"
						wit = p.describe()
					}
				case token.LSS:
					if trigAfter || next != 1<<30 {
						bad = "completion triggered / current rewritten although current < total"
						wit = p.describe()
					}
				default:
					bad = fmt.Sprintf("clamp guard compares current %s total; the rule needs current >= total (reaching total completes the bar, exceeding it is capped)", op)
					wit = p.describe()
				}
			}
		})
		if over {
			r.Undecided(pfx+".G1", construct, w.pos(fn.Pos()), "path cap exceeded")
			return
		}
		if mustStore && !stored && bad == "" {
			bad = "the operation never stores to current (its documented effect on the counter is missing)"
		}
		r.Check(bad == "", pfx+".G1", construct, w.pos(fn.Pos()),
			fmt.Sprintf("%d paths: every value store to current is followed by the clamp-and-trigger guard; every clamp store by the trigger", nPaths), bad, wit...)
	}
	// the six documented writers, through whatever helpers they use (inlined)
	for _, spec := range []string{"mpb.(*Bar).IncrInt64", "mpb.(*Bar).EwmaIncrInt64", "mpb.(*Bar).SetCurrent", "mpb.(*Bar).EwmaSetCurrent", "mpb.(*Bar).SetTotal", "mpb.(*Bar).EnableTriggerComplete"} {
		if clo, _ := w.apiClosure(r, spec); clo != nil {
			analyse(clo, "API:"+spec+" closure", true)
		}
	}
	// any other writer of current in the module obeys the same discipline
	for _, fn := range w.ModFns {
		if fnStoresField(fn, tBState, "current") && !covered[fn] {
			analyse(fn, "writer-of-current:"+fnShort(fn), false)
		}
	}
	r.Floor(pfx+".G1", 6, "the six API closures that write bState.current")
	r.Inv["writers_of_current"] = nWriters

}

func ruleStoredValues(w *World, r *Report, pfx string, trig, pred *ssa.Function, opts pathOpts) {
	// F1v: stored values: increments accumulate, SetCurrent stores its argument.
	for _, m := range []struct {
		spec string
		add  bool
	}{{"mpb.(*Bar).IncrInt64", true}, {"mpb.(*Bar).EwmaIncrInt64", true}, {"mpb.(*Bar).SetCurrent", false}, {"mpb.(*Bar).EwmaSetCurrent", false}} {
		clo, off := w.apiClosure(r, m.spec)
		if clo == nil {
			continue
		}
		meth := off.Fn
		bad := ""
		n, _ := w.enumPaths(clo, opts, func(p *Path) {
			sts := p.storesTo(tBState, "current")
			if len(sts) == 0 {
				bad = "a path of the closure does not store to current"
				return
			}
			v := sts[0].Val
			if m.add {
				b, ok := stripConv(v.V).(*ssa.BinOp)
				if !ok || b.Op != token.ADD {
					bad = "first store to current is not current + n"
					return
				}
				x, y := Val{b.X, v.F, v.E}, Val{b.Y, v.F, v.E}
				okXY := isLoad(Val{stripConv(x.V), x.F, x.E}, tBState, "current") && w.isParamOf(y.V, meth, 1)
				okYX := isLoad(Val{stripConv(y.V), y.F, y.E}, tBState, "current") && w.isParamOf(x.V, meth, 1)
				if !okXY && !okYX {
					bad = "first store to current is not (load current) + (the method's amount argument)"
				}
			} else if !w.isParamOf(v.V, meth, 1) {
				bad = "first store to current is not the method's argument"
			}
		})
		r.Check(bad == "" && n > 0, pfx+".F1v", "API:"+m.spec+" closure", w.pos(clo.Pos()), "stored value is current+n / the argument on all paths", bad)
	}

}

func ruleNegSetCurrent(w *World, r *Report, pfx string, trig, pred *ssa.Function, opts pathOpts) {
	// F2: negative SetCurrent ignored: the offer is control dependent on arg >= 0.
	for _, spec := range []string{"mpb.(*Bar).SetCurrent", "mpb.(*Bar).EwmaSetCurrent"} {
		fn := w.Func(spec)
		if fn == nil {
			r.Unresolved("anchor", "API:"+spec, "not found")
			continue
		}
		bad := ""
		sawOffer := false
		w.enumPaths(fn, pathOpts{InlineDepth: 0}, func(p *Path) {
			for _, ev := range p.Events {
				if _, ok := ev.In.(*ssa.Select); ok {
					sawOffer = true
					if !p.hasCmp(ev.Idx, token.GEQ, func(v Val) bool { return w.isParamOf(v.V, fn, 1) }, isConstInt(0)) {
						bad = "the operation is offered to the bar on a path without the atom arg >= 0"
					}
				}
			}
		})
		r.Check(bad == "" && sawOffer, pfx+".F2", "API:"+spec, w.pos(fn.Pos()), "offer only under arg >= 0", bad+"")
	}

}

func ruleSetTotal(w *World, r *Report, pfx string, trig, pred *ssa.Function, opts pathOpts) {
	// F3: SetTotal
	if clo, off := w.apiClosure(r, "mpb.(*Bar).SetTotal"); clo != nil {
		meth := off.Fn
		bad := ""
		var wit []string
		sawNeg, sawPos, sawComplete := false, false, false
		w.enumPaths(clo, opts, func(p *Path) {
			if bad != "" {
				return
			}
			stT := p.storesTo(tBState, "total")
			stC := p.storesTo(tBState, "current")
			calls := p.callsTo(trig)
			first := 1 << 30
			for _, s := range stT {
				if s.Idx < first {
					first = s.Idx
				}
			}
			for _, s := range stC {
				if s.Idx < first {
					first = s.Idx
				}
			}
			for _, c := range calls {
				if c < first {
					first = c
				}
			}
			if first != 1<<30 {
				// any effect needs ¬triggerComplete before it
				if !p.hasBool(first, false, loadOf(tBState, "triggerComplete")) {
					bad = "SetTotal has an effect on a path without the atom !triggerComplete"
					wit = p.describe()
					return
				}
			} else {
				// effect-free path: must be the triggerComplete path
				if !p.hasBool(-1, true, loadOf(tBState, "triggerComplete")) {
					bad = "SetTotal has an effect-free path that is not guarded by triggerComplete"
					wit = p.describe()
				}
				return
			}
			if len(stT) == 0 {
				bad = "SetTotal does not store total on an effective path"
				wit = p.describe()
				return
			}
			// what counts is the value total has when the closure is done: the last store on the path
			// (`s.total = arg; if arg < 0 { s.total = s.current }` is the same rule as the if/else form)
			stT = stT[len(stT)-1:]
			isArg := func(v Val) bool { return w.isParamOf(v.V, meth, 1) }
			if isLoad(Val{stripConv(stT[0].Val.V), stT[0].Val.F, stT[0].Val.E}, tBState, "current") {
				sawNeg = true
				if !p.hasCmp(-1, token.LSS, isArg, isConstInt(0)) {
					bad = "total <- current without the atom total < 0"
					wit = p.describe()
				}
			} else if isArg(stT[0].Val) {
				sawPos = true
				if !p.hasCmp(-1, token.GEQ, isArg, isConstInt(0)) {
					bad = "total <- arg without the atom total >= 0"
					wit = p.describe()
				}
			} else {
				bad = "total is assigned something other than current or the argument"
				wit = p.describe()
			}
			isComplete := func(v Val) bool { return w.isParamOf(v.V, meth, 2) }
			compl := p.hasBool(-1, true, isComplete)
			notCompl := p.hasBool(-1, false, isComplete)
			if compl {
				sawComplete = true
				ok := len(stC) == 1 && isLoad(Val{stripConv(stC[0].Val.V), stC[0].Val.F, stC[0].Val.E}, tBState, "total") && stC[0].Idx > stT[0].Idx && anyAfter(calls, stC[0].Idx)
				if !ok {
					bad = "complete=true does not (after setting total) store current <- total and trigger completion"
					wit = p.describe()
				}
			} else if notCompl {
				if len(stC) != 0 || len(calls) != 0 {
					bad = "current stored / completion triggered although complete is false"
					wit = p.describe()
				}
			} else {
				bad = "path does not test the complete argument"
				wit = p.describe()
			}
		})
		r.Check(bad == "" && sawNeg && sawPos && sawComplete, pfx+".F3", "API:mpb.(*Bar).SetTotal closure", w.pos(clo.Pos()),
			"ignored under triggerComplete; total<-current iff arg<0 else arg; complete => current<-total, trigger", orStr(bad, "SetTotal lacks one of the three documented branches (negative total, explicit total, complete)"), wit...)
	}

}

func ruleEnableTrigger(w *World, r *Report, pfx string, trig, pred *ssa.Function, opts pathOpts) {
	// F4: EnableTriggerComplete
	if clo, _ := w.apiClosure(r, "mpb.(*Bar).EnableTriggerComplete"); clo != nil {
		bad := ""
		var wit []string
		sawA, sawB := false, false
		w.enumPaths(clo, opts, func(p *Path) {
			if bad != "" {
				return
			}
			stC := p.storesTo(tBState, "current")
			stTC := p.storesTo(tBState, "triggerComplete")
			calls := p.callsTo(trig)
			if len(stC)+len(stTC)+len(calls) == 0 {
				if !p.hasBool(-1, true, loadOf(tBState, "triggerComplete")) {
					bad = "effect-free path not guarded by triggerComplete"
					wit = p.describe()
				}
				return
			}
			if !p.hasBool(-1, false, loadOf(tBState, "triggerComplete")) {
				bad = "effect without the atom !triggerComplete"
				wit = p.describe()
				return
			}
			op, ok := p.cmpFieldsAfter(-1, tBState, "current", "total")
			if !ok {
				bad = "effective path does not compare current with total"
				wit = p.describe()
				return
			}
			switch op {
			case token.GEQ:
				sawA = true
				if !(len(stC) == 1 && isLoad(Val{stripConv(stC[0].Val.V), stC[0].Val.F, stC[0].Val.E}, tBState, "total") && anyAfter(calls, stC[0].Idx)) {
					bad = "current >= total does not clamp current to total and trigger completion right away"
					wit = p.describe()
				}
			case token.LSS:
				sawB = true
				okB := len(stC) == 0 && len(calls) == 0 && len(stTC) == 1
				if okB {
					bv, isC := constBool(stTC[0].Val.V)
					okB = isC && bv
				}
				if !okB {
					bad = "current < total must only set triggerComplete <- true"
					wit = p.describe()
				}
			default:
				bad = fmt.Sprintf("guard compares current %s total, documented rule is current >= total", op)
				wit = p.describe()
			}
		})
		r.Check(bad == "" && sawA && sawB, pfx+".F4", "API:mpb.(*Bar).EnableTriggerComplete closure", w.pos(clo.Pos()),
			"no-op when enabled; current>=total => clamp+trigger; else enable", orStr(bad, "one of the two documented branches is missing"), wit...)
	}

}

func ruleAbort(w *World, r *Report, pfx string, trig, pred *ssa.Function, opts pathOpts) {
	// F5: Abort
	if clo, off := w.apiClosure(r, "mpb.(*Bar).Abort"); clo != nil {
		meth := off.Fn
		bad := ""
		var wit []string
		sawEff := false
		isPredCall := func(v Val) bool {
			c, ok := v.V.(*ssa.Call)
			return ok && c.Call.StaticCallee() == pred
		}
		w.enumPaths(clo, opts, func(p *Path) {
			if bad != "" {
				return
			}
			stA := p.storesTo(tBState, "aborted")
			stR := p.storesTo(tBState, "rmOnComplete")
			calls := p.callsTo(trig)
			if len(stA)+len(stR)+len(calls) == 0 {
				if !p.hasBool(-1, true, loadOf(tBState, "aborted")) && !p.hasBool(-1, true, isPredCall) {
					bad = "effect-free path not guarded by aborted || completed()"
					wit = p.describe()
				}
				return
			}
			sawEff = true
			if !p.hasBool(-1, false, loadOf(tBState, "aborted")) || !p.hasBool(-1, false, isPredCall) {
				bad = "Abort takes effect on a path without both atoms !aborted and !completed()"
				wit = p.describe()
				return
			}
			okA := len(stA) == 1
			if okA {
				bv, isC := constBool(stA[0].Val.V)
				okA = isC && bv
			}
			okR := len(stR) == 1 && w.isParamOf(stR[0].Val.V, meth, 1)
			if !okA || !okR || len(calls) != 1 {
				bad = "effective Abort must set aborted <- true, rmOnComplete <- drop and trigger completion, each once"
				wit = p.describe()
			}
		})
		r.Check(bad == "" && sawEff, pfx+".F5", "API:mpb.(*Bar).Abort closure", w.pos(clo.Pos()), "effects only under !aborted && !completed()", orStr(bad, "no effective path"), wit...)
	}

}

func rulePredicate(w *World, r *Report, pfx string, trig, pred *ssa.Function, opts pathOpts) {
	// F6: completion predicate
	{
		bad := ""
		sawTrue := false
		w.enumPaths(pred, pathOpts{InlineDepth: 0}, func(p *Path) {
			if len(p.Ret) != 1 {
				bad = "predicate does not return one value"
				return
			}
			rv := p.Ret[0]
			if bv, ok := constBool(rv.V); ok && !bv {
				return // returns false
			}
			// the path may return true: its conjuncts are the atoms plus the returned expression
			q := *p
			if _, ok := constBool(rv.V); !ok {
				q.Atoms = append(append([]Atom(nil), p.Atoms...), Atom{Cond: rv, Pol: true})
			}
			sawTrue = true
			eq := false
			for _, a := range q.Atoms {
				c := q.cmpOf(a)
				if c.Op == token.EQL {
					x := isLoad(Val{stripConv(c.X.V), c.X.F, c.X.E}, tBState, "current") && isLoad(Val{stripConv(c.Y.V), c.Y.F, c.Y.E}, tBState, "total")
					y := isLoad(Val{stripConv(c.Y.V), c.Y.F, c.Y.E}, tBState, "current") && isLoad(Val{stripConv(c.X.V), c.X.F, c.X.E}, tBState, "total")
					if x || y {
						eq = true
					}
				}
			}
			if !eq || !q.hasBool(-1, true, loadOf(tBState, "triggerComplete")) {
				bad = "predicate may return true on a path without triggerComplete && current == total"
			}
		})
		r.Check(bad == "" && sawTrue, pfx+".F6", "completion predicate", w.pos(pred.Pos()), "true only under triggerComplete && current == total", orStr(bad, "predicate never returns true"))
	}

}

func ruleCtorFlag(w *World, r *Report, pfx string, trig, pred *ssa.Function, opts pathOpts) {
	// F7: constructor: triggerComplete <- true iff total > 0
	if mk := w.makeBarStateFn(); mk != nil {
		bad := ""
		sawSet, sawUnset := false, false
		totalParam := -1
		for i, p := range mk.Params {
			if p.Name() == "total" || (types64(p) && totalParam < 0) {
				totalParam = i
			}
		}
		isTotal := func(v Val) bool { return totalParam >= 0 && w.isParamOf(v.V, mk, totalParam) }
		// analyse only up to the first options loop: stores to triggerComplete anywhere in the function
		w.enumPaths(mk, pathOpts{InlineDepth: 0, MaxPaths: 50000}, func(p *Path) {
			st := p.storesTo(tBState, "triggerComplete")
			has := p.hasCmp(-1, token.GTR, isTotal, isConstInt(0))
			hasNot := p.hasCmp(-1, token.LEQ, isTotal, isConstInt(0))
			// alternative form: a single unconditional store of the comparison itself
			if len(st) == 1 {
				if _, isC := constBool(st[0].Val.V); !isC {
					c := p.cmpOf(Atom{Cond: st[0].Val, Pol: true})
					isGT := (c.Op == token.GTR && isTotal(c.X) && isConstInt(0)(c.Y)) || (c.Op == token.LSS && isTotal(c.Y) && isConstInt(0)(c.X))
					if !isGT {
						bad = "constructor stores a triggerComplete value other than total > 0"
					}
					sawSet, sawUnset = true, true
					return
				}
			}
			switch {
			case len(st) == 1:
				bv, isC := constBool(st[0].Val.V)
				if !isC || !bv || !p.hasCmp(st[0].Idx, token.GTR, isTotal, isConstInt(0)) {
					bad = "constructor sets triggerComplete without the atom total > 0"
				}
				sawSet = true
			case len(st) == 0:
				if has || !hasNot {
					bad = "constructor leaves triggerComplete unset on a path that does not carry total <= 0"
				}
				sawUnset = true
			default:
				bad = "constructor stores triggerComplete more than once"
			}
		})
		r.Check(bad == "" && sawSet && sawUnset, pfx+".F7", "bar state constructor", w.pos(mk.Pos()), "triggerComplete <- true exactly under total > 0", orStr(bad, "missing branch"))
		// F7t: the initial counters: total is the caller's value, whatever its sign (the documented rules
		// are stated "from every initial total": a negative one is the cap EnableTriggerComplete applies),
		// current starts at zero
		badT := ""
		nT := 0
		_, overT := w.enumPaths(mk, pathOpts{InlineDepth: 2, Inline: w.helperInline(mk), MaxPaths: 50000}, func(p *Path) {
			if p.Exit != "return" || badT != "" {
				return
			}
			nT++
			st := p.storesTo(tBState, "total")
			switch {
			case len(st) == 0:
				badT = "the constructor has a path that does not store the initial total"
			case !isTotal(Val{V: w.origin(p.R(st[len(st)-1].Val).V)}):
				badT = "the constructor stores an initial total other than the caller's value (e.g. a non-positive total normalised to 0: EnableTriggerComplete/SetTotal(-1) then cap at a different value than documented)"
			}
			for _, c := range p.storesTo(tBState, "current") {
				if k, ok := constInt(p.R(c.Val).V); !ok || k != 0 {
					badT = "the constructor starts the counter at a value other than zero"
				}
			}
		})
		if overT {
			r.Undecided(pfx+".F7t", "bar state constructor: initial counters", w.pos(mk.Pos()), "path cap")
		} else {
			r.Check(badT == "" && nT > 0, pfx+".F7t", "bar state constructor: initial counters", w.pos(mk.Pos()), "total <- the caller's total on every path; current starts at 0", orStr(badT, "no returning path"))
		}
	} else {
		r.Unresolved("anchor", "bar state constructor", "function allocating bState not found")
	}

}

func ruleSetRefill(w *World, r *Report, pfx string, trig, pred *ssa.Function, opts pathOpts) {
	// F8: SetRefill caps the mark at current
	if clo, off := w.apiClosure(r, "mpb.(*Bar).SetRefill"); clo != nil {
		meth := off.Fn
		bad := ""
		sawArg, sawCur := false, false
		isArg := func(v Val) bool { return w.isParamOf(v.V, meth, 1) }
		w.enumPaths(clo, opts, func(p *Path) {
			st := p.storesTo(tBState, "refill")
			if len(st) != 1 {
				bad = "refill is not stored exactly once on every path"
				return
			}
			v := st[0].Val
			switch {
			case isArg(v):
				sawArg = true
				if !p.hasCmp(st[0].Idx, token.LSS, isArg, loadOf(tBState, "current")) {
					bad = "refill <- amount without the atom amount < current"
				}
			case isLoad(Val{stripConv(v.V), v.F, v.E}, tBState, "current"):
				sawCur = true
				if !p.hasCmp(st[0].Idx, token.GEQ, isArg, loadOf(tBState, "current")) {
					bad = "refill <- current without the atom amount >= current"
				}
			default:
				bad = "refill is assigned something other than the argument or current"
			}
		})
		r.Check(bad == "" && sawArg && sawCur, pfx+".F8", "API:mpb.(*Bar).SetRefill closure", w.pos(clo.Pos()), "refill = min(amount, current)", orStr(bad, "missing branch"))
	}

}

func ruleGetters(w *World, r *Report, pfx string, trig, pred *ssa.Function, opts pathOpts) {
	// F9: getters reply the field / the predicate, on both arms
	for _, g := range []struct{ spec, field string }{{"mpb.(*Bar).Current", "current"}, {"mpb.(*Bar).Aborted", "aborted"}, {"mpb.(*Bar).Completed", ""}} {
		clo, off := w.apiClosure(r, g.spec)
		if clo == nil {
			continue
		}
		okClo := false
		w.enumPaths(clo, pathOpts{InlineDepth: 0}, func(p *Path) {
			for _, ev := range p.Events {
				if s, ok := ev.In.(*ssa.Send); ok {
					v := p.val(ev, s.X)
					if g.field != "" {
						okClo = isLoad(Val{stripConv(v.V), v.F, v.E}, tBState, g.field)
					} else if c, ok := v.V.(*ssa.Call); ok {
						okClo = c.Call.StaticCallee() == pred
					}
				}
			}
		})
		// the direct (post-exit) arm returns the same field of b.bs
		okDirect := false
		w.enumPaths(off.Fn, off.opts(w), func(p *Path) {
			if p.armTaken(off.Sel) == off.State || p.Exit != "return" || len(p.Ret) != 1 {
				return
			}
			v := p.Ret[0]
			if g.field != "" {
				if isLoad(Val{stripConv(v.V), v.F, v.E}, tBState, g.field) {
					okDirect = true
				}
			} else if c, ok := v.V.(*ssa.Call); ok && c.Call.StaticCallee() == pred {
				okDirect = true
			}
		})
		r.Check(okClo && okDirect, pfx+".F9", "API:"+g.spec, w.pos(off.Fn.Pos()), "both arms report the same quantity", "getter arms do not both report bState."+orStr(g.field, "completed()"))
	}

}

func ruleShorthands(w *World, r *Report, pfx string, trig, pred *ssa.Function, opts pathOpts) {
	// F10: shorthands pass through
	for _, s := range []struct {
		spec, target string
		one          bool
	}{{"mpb.(*Bar).Increment", "mpb.(*Bar).IncrInt64", true}, {"mpb.(*Bar).IncrBy", "mpb.(*Bar).IncrInt64", false},
		{"mpb.(*Bar).EwmaIncrement", "mpb.(*Bar).EwmaIncrInt64", true}, {"mpb.(*Bar).EwmaIncrBy", "mpb.(*Bar).EwmaIncrInt64", false}} {
		fn, tgt := w.Func(s.spec), w.Func(s.target)
		if fn == nil || tgt == nil {
			r.Unresolved("anchor", "API:"+s.spec, "not found")
			continue
		}
		ok := false
		n := 0
		for _, b := range fn.Blocks {
			for _, in := range b.Instrs {
				if c, okc := in.(*ssa.Call); okc {
					n++
					if c.Call.StaticCallee() == tgt && len(c.Call.Args) >= 2 {
						if s.one {
							k, isK := constInt(c.Call.Args[1])
							ok = isK && k == 1
						} else {
							ok = w.isParamOf(c.Call.Args[1], fn, 1)
						}
						if ok && len(c.Call.Args) == 3 {
							ok = w.isParamOf(c.Call.Args[2], fn, len(fn.Params)-1)
						}
					}
				}
			}
		}
		r.Check(ok && n == 1, pfx+".F10", "API:"+s.spec, w.pos(fn.Pos()), "single pass-through call", "shorthand does not forward its arguments unchanged to "+s.target)
	}
}

func orStr(a, b string) string {
	if a != "" {
		return a
	}
	return b
}

func types64(p *ssa.Parameter) bool { return p.Type().String() == "int64" }

func fnStoresField(fn *ssa.Function, owner, name string) bool {
	for _, b := range fn.Blocks {
		for _, in := range b.Instrs {
			if st, ok := in.(*ssa.Store); ok {
				if f, ok := fieldOf(st.Addr); ok && f.Owner == owner && f.Name == name {
					return true
				}
			}
		}
	}
	return false
}

// makeBarStateFn = the function that allocates a bState (composite literal) and returns it.
func (w *World) makeBarStateFn() *ssa.Function {
	var out []*ssa.Function
	for _, fn := range w.ModFns {
		if fn.Parent() != nil {
			continue
		}
		for _, b := range fn.Blocks {
			for _, in := range b.Instrs {
				if a, ok := in.(*ssa.Alloc); ok && a.Heap && typeName(a.Type()) == tBState {
					out = appendUniqueFn(out, fn)
				}
			}
		}
	}
	if len(out) == 1 {
		return out[0]
	}
	return nil
}
