package main

import (
	"fmt"
	"go/token"
	"go/types"
	"sort"
	"strings"

	"golang.org/x/tools/go/ssa"
)

// E1 — communication shape: every channel / WaitGroup / go operation of the module,
// each channel operand resolved to a set of channel classes by cycle-safe origin tracing.

type classSet map[string]bool

func (c classSet) add(s string) { c[s] = true }
func (c classSet) union(o classSet) {
	for k := range o {
		c[k] = true
	}
}
func (c classSet) String() string {
	var ks []string
	for k := range c {
		ks = append(ks, k)
	}
	sort.Strings(ks)
	return strings.Join(ks, "|")
}
func (c classSet) has(s string) bool { return c[s] }

// only reports whether every member of c is in the allowed list (and c is non-empty).
func (c classSet) only(allowed ...string) bool {
	if len(c) == 0 {
		return false
	}
	for k := range c {
		ok := false
		for _, a := range allowed {
			if k == a {
				ok = true
			}
		}
		if !ok {
			return false
		}
	}
	return true
}
func (c classSet) any(pred func(string) bool) bool {
	for k := range c {
		if pred(k) {
			return true
		}
	}
	return false
}

type selState struct {
	Dir   types.ChanDir
	Class classSet
	Chan  ssa.Value
	Send  ssa.Value
}

type commOp struct {
	Kind     string // send recv select close go wg.Add wg.Done wg.Wait
	Instr    ssa.Instruction
	Fn       *ssa.Function
	Class    classSet
	States   []selState
	Blocking bool
	CommaOk  bool
	GoTarget []*ssa.Function
	Deferred bool
}

type commTable struct {
	Ops  []*commOp
	byFn map[*ssa.Function][]*commOp
	byIn map[ssa.Instruction]*commOp
}

func (w *World) Comm() *commTable {
	if w.comm != nil {
		return w.comm
	}
	t := &commTable{byFn: map[*ssa.Function][]*commOp{}, byIn: map[ssa.Instruction]*commOp{}}
	cr := &classResolver{w: w, memo: map[ssa.Value]classSet{}}
	for _, fn := range w.ModFns {
		for _, b := range fn.Blocks {
			for _, in := range b.Instrs {
				var op *commOp
				switch x := in.(type) {
				case *ssa.Send:
					op = &commOp{Kind: "send", Class: cr.classOf(x.Chan), Blocking: true}
				case *ssa.UnOp:
					if x.Op == token.ARROW {
						op = &commOp{Kind: "recv", Class: cr.classOf(x.X), Blocking: true, CommaOk: x.CommaOk}
					}
				case *ssa.Select:
					op = &commOp{Kind: "select", Blocking: x.Blocking}
					for _, st := range x.States {
						op.States = append(op.States, selState{Dir: st.Dir, Class: cr.classOf(st.Chan), Chan: st.Chan, Send: st.Send})
					}
				case *ssa.Go:
					op = &commOp{Kind: "go", GoTarget: w.goTargets(x)}
				case *ssa.Call:
					op = w.commCall(cr, x, &x.Call, false)
				case *ssa.Defer:
					op = w.commCall(cr, x, &x.Call, true)
				}
				if op != nil {
					op.Instr = in
					op.Fn = fn
					t.Ops = append(t.Ops, op)
					t.byFn[fn] = append(t.byFn[fn], op)
					t.byIn[in] = op
				}
			}
		}
	}
	w.comm = t
	return t
}

func (w *World) commCall(cr *classResolver, in ssa.Instruction, c *ssa.CallCommon, deferred bool) *commOp {
	if isBuiltinCall(c, "close") {
		return &commOp{Kind: "close", Class: cr.classOf(c.Args[0]), Deferred: deferred}
	}
	switch staticCalleeName(c) {
	case "(*sync.WaitGroup).Add":
		return &commOp{Kind: "wg.Add", Class: cr.wgClass(c.Args[0]), Deferred: deferred}
	case "(*sync.WaitGroup).Done":
		return &commOp{Kind: "wg.Done", Class: cr.wgClass(c.Args[0]), Deferred: deferred}
	case "(*sync.WaitGroup).Wait":
		return &commOp{Kind: "wg.Wait", Class: cr.wgClass(c.Args[0]), Blocking: true, Deferred: deferred}
	}
	return nil
}

// goTargets resolves the function(s) a go statement starts (bound-method wrappers unwrapped).
func (w *World) goTargets(g *ssa.Go) []*ssa.Function {
	var out []*ssa.Function
	for _, f := range w.Callees(g) {
		out = append(out, w.unwrapSynthetic(f))
	}
	return out
}

// unwrapSynthetic: for $bound/$thunk wrappers return the wrapped declared method.
func (w *World) unwrapSynthetic(f *ssa.Function) *ssa.Function {
	if f.Synthetic != "" && f.Object() != nil {
		if fn, ok := f.Object().(*types.Func); ok {
			if real := w.Prog.FuncValue(fn); real != nil && real.Blocks != nil {
				return real
			}
		}
	}
	return f
}

type classResolver struct {
	w    *World
	memo map[ssa.Value]classSet
	busy map[ssa.Value]bool
}

func (cr *classResolver) wgClass(v ssa.Value) classSet { return cr.wgClassD(v, 0) }

func (cr *classResolver) wgClassD(v ssa.Value, depth int) classSet {
	cs := classSet{}
	if depth < 4 {
		switch x := v.(type) {
		case *ssa.Parameter:
			// a *sync.WaitGroup handed to a private helper: the groups of the callers' arguments
			h := x.Parent()
			idx := -1
			for i, q := range h.Params {
				if q == x {
					idx = i
				}
			}
			for _, site := range cr.w.callers[h] {
				if site.Parent().Synthetic != "" || site.Common().StaticCallee() != h || idx < 0 || idx >= len(site.Common().Args) {
					continue
				}
				cs.union(cr.wgClassD(site.Common().Args[idx], depth+1))
			}
			if len(cs) > 0 {
				return cs
			}
		case *ssa.FreeVar:
			// captured by a closure: what was bound (a helper's pointer parameter stays the callers' group)
			clo := x.Parent()
			idx := -1
			for i, q := range clo.FreeVars {
				if q == x {
					idx = i
				}
			}
			if par := clo.Parent(); par != nil && idx >= 0 {
				for _, b := range par.Blocks {
					for _, in := range b.Instrs {
						if mc, ok := in.(*ssa.MakeClosure); ok && mc.Fn == ssa.Value(clo) && idx < len(mc.Bindings) {
							switch mc.Bindings[idx].(type) {
							case *ssa.Parameter, *ssa.FreeVar:
								cs.union(cr.wgClassD(mc.Bindings[idx], depth+1))
							}
						}
					}
				}
			}
			if len(cs) > 0 {
				return cs
			}
		case *ssa.UnOp:
			// the pointer parameter moved into a cell because a closure captures it: *cell, in the
			// helper itself (cell = Alloc) or in the closure (cell = FreeVar bound to that Alloc)
			if x.Op == token.MUL {
				cell := x.X
				if fv, ok := cell.(*ssa.FreeVar); ok {
					clo := fv.Parent()
					idx := -1
					for i, q := range clo.FreeVars {
						if q == fv {
							idx = i
						}
					}
					if par := clo.Parent(); par != nil && idx >= 0 {
						for _, b := range par.Blocks {
							for _, in := range b.Instrs {
								if mc, ok := in.(*ssa.MakeClosure); ok && mc.Fn == ssa.Value(clo) && idx < len(mc.Bindings) {
									cell = mc.Bindings[idx]
								}
							}
						}
					}
				}
				if al, ok := cell.(*ssa.Alloc); ok && al.Referrers() != nil {
					var stored []ssa.Value
					for _, ref := range *al.Referrers() {
						if st, ok := ref.(*ssa.Store); ok && st.Addr == ssa.Value(al) {
							stored = append(stored, st.Val)
						}
					}
					if len(stored) == 1 {
						if par, ok := stored[0].(*ssa.Parameter); ok {
							if c := cr.wgClassD(par, depth+1); len(c) > 0 && !c.has("wg:?") {
								return c
							}
						}
					}
				}
			}
		}
	}
	switch x := v.(type) {
	case *ssa.FieldAddr:
		if f, ok := fieldOf(x); ok {
			cs.add("wg:" + f.String())
			return cs
		}
	case *ssa.Alloc:
		cs.add(fmt.Sprintf("wg:local@%s", fnShort(rootFn(x.Parent()))))
		return cs
	case *ssa.FreeVar:
		// captured local WaitGroup cell
		cs.add(fmt.Sprintf("wg:local@%s", fnShort(rootFn(x.Parent()))))
		return cs
	case *ssa.UnOp:
		if x.Op == token.MUL {
			if f, ok := fieldOf(x.X); ok { // *sync.WaitGroup stored in a field (uwg)
				cs.add("wg:" + f.String())
				return cs
			}
		}
	}
	cs.add("wg:?")
	return cs
}

func (cr *classResolver) classOf(v ssa.Value) classSet {
	if cs, ok := cr.memo[v]; ok {
		return cs
	}
	if cr.busy == nil {
		cr.busy = map[ssa.Value]bool{}
	}
	if cr.busy[v] {
		return classSet{}
	}
	cr.busy[v] = true
	cs := cr.classOf1(v)
	delete(cr.busy, v)
	// only memoise when not inside a cycle in progress
	if len(cr.busy) == 0 {
		cr.memo[v] = cs
	}
	return cs
}

func namedChan(t types.Type) string {
	t = types.Unalias(t)
	if n, ok := t.(*types.Named); ok {
		if _, ok := n.Underlying().(*types.Chan); ok {
			return n.Obj().Name()
		}
	}
	return ""
}

func (cr *classResolver) classOf1(v ssa.Value) classSet {
	cs := classSet{}
	// a named channel type that is an actor's inbox (a method of it is a go target) is a class of
	// its own; other named channel types (e.g. a one-shot request type) are traced like any channel
	if nc := namedChan(v.Type()); nc != "" && cr.w.actorChanType(nc) {
		cs.add(nc)
		return cs
	}
	switch x := v.(type) {
	case *ssa.Const:
		if x.Value == nil {
			cs.add("nil")
		}
	case *ssa.MakeChan:
		capStr := "?"
		if n, ok := constInt(x.Size); ok {
			capStr = fmt.Sprint(n)
		}
		// ordinal among the makes of the same channel type in the same function, so that two
		// channels made side by side (iter, iterPop) are two classes
		ord := 0
		for _, b := range x.Parent().Blocks {
			for _, in := range b.Instrs {
				if mc, ok := in.(*ssa.MakeChan); ok && types.Identical(mc.Type(), x.Type()) && mc.Pos() < x.Pos() {
					ord++
				}
			}
		}
		name := fmt.Sprintf("make(%s,%s)@%s", shortType(x.Type()), capStr, fnShort(x.Parent()))
		if ord > 0 {
			name += fmt.Sprintf("#%d", ord+1)
		}
		cs.add(name)
	case *ssa.ChangeType:
		return cr.classOf(x.X)
	case *ssa.Convert:
		return cr.classOf(x.X)
	case *ssa.Phi:
		for _, e := range x.Edges {
			cs.union(cr.classOf(e))
		}
	case *ssa.Field:
		if f, ok := fieldOf(x); ok {
			cs.add(f.String())
		}
	case *ssa.UnOp:
		switch x.Op {
		case token.MUL:
			if f, ok := fieldOf(x.X); ok {
				// a channel carried in a request object: the channel(s) stored there
				if cr.w.messageStructs()[f.Owner] {
					for _, st := range cr.w.msgFieldStores[f.String()] {
						cs.union(cr.classOf(st.Val))
					}
					if len(cs) > 0 {
						break
					}
				}
				cs.add(f.String())
				break
			}
			// load of a local cell / captured cell: join the stores
			cs.union(cr.cellClass(x.X))
		}
	case *ssa.Call:
		c := x.Call
		if c.IsInvoke() && c.Method.Name() == "Done" && typeName(c.Value.Type()) == "context.Context" {
			inner := cr.ctxClass(c.Value)
			for k := range inner {
				cs.add("Done(" + k + ")")
			}
			break
		}
		// result of a module function returning a channel: join its returns
		for _, f := range cr.w.Callees(x) {
			if f.Blocks == nil {
				continue
			}
			for _, b := range f.Blocks {
				if ret, ok := b.Instrs[len(b.Instrs)-1].(*ssa.Return); ok {
					for _, rv := range ret.Results {
						if _, ok := rv.Type().Underlying().(*types.Chan); ok {
							cs.union(cr.classOf(rv))
						}
					}
				}
			}
		}
	case *ssa.Extract:
		// tuple result (e.g. d.Sync() -> (chan int, bool)) or select recv
		if call, ok := x.Tuple.(*ssa.Call); ok {
			for _, f := range cr.w.Callees(call) {
				if f.Blocks == nil {
					continue
				}
				for _, b := range f.Blocks {
					if ret, ok := b.Instrs[len(b.Instrs)-1].(*ssa.Return); ok && x.Index < len(ret.Results) {
						cs.union(cr.classOf(ret.Results[x.Index]))
					}
				}
			}
		}
		if len(cs) == 0 {
			cs.add("elem:" + shortType(v.Type()))
		}
	case *ssa.Parameter:
		fn := x.Parent()
		idx := -1
		for i, p := range fn.Params {
			if p == x {
				idx = i
			}
		}
		sites := cr.w.callers[fn]
		for _, site := range sites {
			if site.Parent().Synthetic != "" {
				// a method value: its other parameters are the wrapper's, fed by the wrapper's callers
				if idx > 0 && strings.HasPrefix(site.Parent().Synthetic, "bound method wrapper") {
					for _, s2 := range cr.w.callers[site.Parent()] {
						a2 := s2.Common().Args
						if idx-1 < len(a2) && !s2.Common().IsInvoke() {
							cs.union(cr.classOf(a2[idx-1]))
						}
					}
				}
				// receiver of a method value: what the closures made from the bound wrapper bind
				if idx == 0 && strings.HasPrefix(site.Parent().Synthetic, "bound method wrapper") {
					for _, g := range cr.w.ModFns {
						for _, gb := range g.Blocks {
							for _, gi := range gb.Instrs {
								if mc, ok := gi.(*ssa.MakeClosure); ok && mc.Fn == ssa.Value(site.Parent()) && len(mc.Bindings) == 1 {
									cs.union(cr.classOf(mc.Bindings[0]))
								}
							}
						}
					}
				}
				continue
			}
			args := site.Common().Args
			if site.Common().IsInvoke() {
				// receiver is not in Args
				if idx == 0 {
					continue
				}
				if idx-1 < len(args) {
					cs.union(cr.classOf(args[idx-1]))
				}
				continue
			}
			// closures called with bound receiver: Args align with Params
			if idx < len(args) {
				cs.union(cr.classOf(args[idx]))
			}
		}
		// go/defer of bound method wrappers: look through synthetic wrappers
		if len(cs) == 0 {
			cs.add("param:" + fnShort(fn) + "#" + fmt.Sprint(idx))
		}
	case *ssa.FreeVar:
		cs.union(cr.freeVarClass(x))
	case *ssa.TypeAssert:
		cs.union(cr.payloadClass(x))
	case *ssa.Index, *ssa.Lookup:
		cs.add("elem:" + shortType(v.Type()))
	}
	if len(cs) == 0 {
		switch x := v.(type) {
		case *ssa.UnOp:
			if x.Op == token.MUL {
				if _, ok := x.X.(*ssa.IndexAddr); ok {
					cs.add("elem:" + shortType(v.Type()))
				}
			}
		}
	}
	if len(cs) == 0 {
		cs.add("?" + shortType(v.Type()))
	}
	// WC.wsync and the column entries are the same channels (Sync() hands wsync to the matrices)
	if cs["elem:chan int"] {
		delete(cs, "elem:chan int")
		cs.add("WC.wsync")
	}
	return cs
}

func shortType(t types.Type) string {
	s := types.TypeString(t, func(p *types.Package) string { return p.Name() })
	return s
}

// ctxClass: where does this context value come from.
func (cr *classResolver) ctxClass(v ssa.Value) classSet {
	cs := classSet{}
	seen := map[ssa.Value]bool{}
	var rec func(v ssa.Value)
	rec = func(v ssa.Value) {
		if seen[v] {
			return
		}
		seen[v] = true
		switch x := v.(type) {
		case *ssa.UnOp:
			if x.Op == token.MUL {
				if f, ok := fieldOf(x.X); ok {
					cs.add(f.String())
					return
				}
				for _, s := range cr.cellStores(x.X) {
					rec(s)
				}
				return
			}
		case *ssa.Field:
			if f, ok := fieldOf(x); ok {
				cs.add(f.String())
				return
			}
		case *ssa.Phi:
			for _, e := range x.Edges {
				rec(e)
			}
			return
		case *ssa.Extract:
			if call, ok := x.Tuple.(*ssa.Call); ok && staticCalleeName(&call.Call) == "context.WithCancel" {
				cs.add("WithCancel")
				return
			}
		case *ssa.Parameter:
			cs.add("param")
			return
		case *ssa.FreeVar:
			for _, b := range cr.freeVarBindings(x) {
				rec(b)
			}
			return
		}
		cs.add("?ctx")
	}
	rec(v)
	return cs
}

// cellStores: values stored into a local cell (Alloc) or a captured cell (FreeVar of pointer type),
// across the defining function and all its nested closures.
func (cr *classResolver) cellStores(addr ssa.Value) []ssa.Value { return cr.w.cellStores(addr) }

func (w *World) cellStores(addr ssa.Value) []ssa.Value {
	cr := &classResolver{w: w}
	var cell ssa.Value = addr
	// resolve FreeVar to the Alloc it is bound to
	if fv, ok := addr.(*ssa.FreeVar); ok {
		bs := cr.freeVarBindings(fv)
		var out []ssa.Value
		for _, b := range bs {
			out = append(out, cr.cellStores(b)...)
		}
		return out
	}
	al, ok := cell.(*ssa.Alloc)
	if !ok {
		return nil
	}
	var out []ssa.Value
	root := al.Parent()
	fns := append([]*ssa.Function{root}, anonFuncsOf(root)...)
	for _, fn := range fns {
		for _, b := range fn.Blocks {
			for _, in := range b.Instrs {
				st, ok := in.(*ssa.Store)
				if !ok {
					continue
				}
				if cr.sameCell(st.Addr, al) {
					out = append(out, st.Val)
				}
			}
		}
	}
	return out
}

func (cr *classResolver) sameCell(addr ssa.Value, al *ssa.Alloc) bool {
	if addr == al {
		return true
	}
	if fv, ok := addr.(*ssa.FreeVar); ok {
		for _, b := range cr.freeVarBindings(fv) {
			if cr.sameCell(b, al) {
				return true
			}
		}
	}
	return false
}

func (cr *classResolver) cellClass(addr ssa.Value) classSet {
	cs := classSet{}
	for _, v := range cr.cellStores(addr) {
		cs.union(cr.classOf(v))
	}
	return cs
}

// freeVarBindings: the values bound to this free variable at the MakeClosure sites of its function.
func (cr *classResolver) freeVarBindings(fv *ssa.FreeVar) []ssa.Value { return freeVarBindings(fv) }

func freeVarBindings(fv *ssa.FreeVar) []ssa.Value {
	fn := fv.Parent()
	idx := -1
	for i, f := range fn.FreeVars {
		if f == fv {
			idx = i
		}
	}
	var out []ssa.Value
	if fn.Parent() == nil || idx < 0 {
		return nil
	}
	for _, b := range fn.Parent().Blocks {
		for _, in := range b.Instrs {
			if mc, ok := in.(*ssa.MakeClosure); ok && mc.Fn == fn && idx < len(mc.Bindings) {
				out = append(out, mc.Bindings[idx])
			}
		}
	}
	return out
}

func (cr *classResolver) freeVarClass(fv *ssa.FreeVar) classSet {
	cs := classSet{}
	for _, b := range cr.freeVarBindings(fv) {
		cs.union(cr.classOf(b))
	}
	return cs
}

// payloadClass: a channel obtained by type-asserting an interface payload: join the
// values boxed into that interface type anywhere in the module (heapRequest.data).
func (cr *classResolver) payloadClass(ta *ssa.TypeAssert) classSet {
	cs := classSet{}
	for _, fn := range cr.w.ModFns {
		for _, b := range fn.Blocks {
			for _, in := range b.Instrs {
				mi, ok := in.(*ssa.MakeInterface)
				if !ok {
					continue
				}
				if !types.Identical(mi.X.Type(), ta.AssertedType) {
					continue
				}
				if !types.Identical(mi.Type(), ta.X.Type()) {
					continue
				}
				cs.union(cr.classOf(mi.X))
			}
		}
	}
	if len(cs) == 0 {
		cs.add("payload:" + shortType(ta.AssertedType))
	}
	return cs
}

// inventory ------------------------------------------------------------

func (t *commTable) inventory() map[string]int {
	inv := map[string]int{}
	for _, op := range t.Ops {
		k := op.Kind
		if op.Kind == "recv" && op.CommaOk {
			k = "recv(commaok/range)"
		}
		inv[k]++
	}
	return inv
}

// actorChanType: the named channel type has a method that is started as a goroutine.
func (w *World) actorChanType(name string) bool {
	if w.actorChans == nil {
		w.actorChans = map[string]bool{}
		for _, fn := range w.ModFns {
			for _, b := range fn.Blocks {
				for _, in := range b.Instrs {
					g, ok := in.(*ssa.Go)
					if !ok {
						continue
					}
					if sc := g.Call.StaticCallee(); sc != nil && sc.Signature.Recv() != nil {
						if nc := namedChan(sc.Signature.Recv().Type()); nc != "" {
							w.actorChans[nc] = true
						}
					}
				}
			}
		}
	}
	return w.actorChans[name]
}
