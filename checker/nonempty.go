package main

import (
	"fmt"
	"go/token"
	"go/types"

	"golang.org/x/tools/go/ssa"
)

// Non-emptiness of a slice value by construction (E6c helper): used for x[i % len(x)].
// Accepted origins, recursively:
//   - slice of a whole array of positive length, make([]T, len(y)) with y non-empty;
//   - a value under a dominating / edge guard len(v) != 0;
//   - load of a struct field: every store to that field in the module stores a non-empty
//     value and every fresh allocation of the struct assigns the field on all paths;
//   - load of a local cell (captured variable): on every path to the point where the cell
//     is handed to the closure, the last store is non-empty or a later guard proves it.

func (w *World) nonEmptyAt(val ssa.Value, at ssa.Instruction, depth int) (bool, string) {
	if depth > 8 {
		return false, "origin chain too long"
	}
	val = stripConvKeepType(val)
	if w.guardedNonEmpty(val, at) {
		return true, "guarded by len != 0"
	}
	switch x := val.(type) {
	case *ssa.Slice:
		if p, ok := x.X.Type().Underlying().(*types.Pointer); ok {
			if arr, ok := p.Elem().Underlying().(*types.Array); ok && x.Low == nil && x.High == nil {
				return arr.Len() > 0, fmt.Sprintf("slice of an array of length %d", arr.Len())
			}
		}
		return false, "slice expression with bounds"
	case *ssa.MakeSlice:
		if call, ok := stripConv(x.Len).(*ssa.Call); ok && isBuiltinCall(&call.Call, "len") {
			return w.nonEmptyAt(call.Call.Args[0], x, depth+1)
		}
		if k, ok := constInt(x.Len); ok {
			return k > 0, "make with constant length"
		}
		return false, "make with unknown length"
	case *ssa.Phi:
		for i, e := range x.Edges {
			pred := x.Block().Preds[i]
			if w.guardedOnEdge(e, pred, x.Block()) {
				continue
			}
			if ok, why := w.nonEmptyAt(e, pred.Instrs[len(pred.Instrs)-1], depth+1); !ok {
				return false, why
			}
		}
		return true, "all phi edges non-empty"
	case *ssa.Field:
		return w.fieldNonEmpty(x.X.Type(), x.Field, depth)
	case *ssa.UnOp:
		if x.Op != token.MUL {
			break
		}
		switch a := x.X.(type) {
		case *ssa.FieldAddr:
			return w.fieldNonEmpty(a.X.Type(), a.Field, depth)
		case *ssa.FreeVar:
			return w.cellNonEmptyAtCapture(a, depth)
		case *ssa.Alloc:
			return w.cellNonEmptyBefore(a, at, depth)
		}
	}
	return false, "value " + val.Name() + " is not provably non-empty"
}

func stripConvKeepType(v ssa.Value) ssa.Value {
	for {
		if c, ok := v.(*ssa.ChangeType); ok {
			v = c.X
			continue
		}
		return v
	}
}

// guardedOnEdge: the CFG edge pred->succ is the "len(val) != 0" edge of pred's If.
func (w *World) guardedOnEdge(val ssa.Value, pred, succ *ssa.BasicBlock) bool {
	ifi, ok := pred.Instrs[len(pred.Instrs)-1].(*ssa.If)
	if !ok {
		return false
	}
	good := lenGuardGoodSucc(w, ifi, val)
	return good != nil && good == succ
}

func lenGuardGoodSucc(w *World, ifi *ssa.If, val ssa.Value) *ssa.BasicBlock {
	bin, ok := ifi.Cond.(*ssa.BinOp)
	if !ok {
		return nil
	}
	call, ok := stripConv(bin.X).(*ssa.Call)
	if !ok || !isBuiltinCall(&call.Call, "len") {
		return nil
	}
	if w.origin(call.Call.Args[0]) != w.origin(val) {
		return nil
	}
	k, ok := constInt(bin.Y)
	if !ok || k != 0 {
		return nil
	}
	b := ifi.Block()
	switch bin.Op {
	case token.NEQ, token.GTR:
		return b.Succs[0]
	case token.EQL, token.LEQ:
		return b.Succs[1]
	}
	return nil
}

// guardedNonEmpty: `at` is dominated by the good edge of a len(val) != 0 test.
func (w *World) guardedNonEmpty(val ssa.Value, at ssa.Instruction) bool {
	fn := at.Parent()
	for _, b := range fn.Blocks {
		ifi, ok := b.Instrs[len(b.Instrs)-1].(*ssa.If)
		if !ok {
			continue
		}
		good := lenGuardGoodSucc(w, ifi, val)
		if good != nil && len(good.Preds) == 1 && good.Dominates(at.Block()) {
			return true
		}
	}
	return false
}

func sameStructField(t types.Type, field int, u types.Type, ufield int) bool {
	st, su := structOf(t), structOf(u)
	if st == nil || su == nil || field != ufield {
		return false
	}
	return types.Identical(st, su)
}

// fieldNonEmpty: all stores to the field store non-empty values, and fresh allocations assign it.
func (w *World) fieldNonEmpty(owner types.Type, field int, depth int) (bool, string) {
	n := 0
	for _, fn := range w.ModFns {
		for _, b := range fn.Blocks {
			for _, in := range b.Instrs {
				st, ok := in.(*ssa.Store)
				if !ok {
					continue
				}
				fa, ok := st.Addr.(*ssa.FieldAddr)
				if !ok || !sameStructField(fa.X.Type(), fa.Field, owner, field) {
					continue
				}
				n++
				if ok, why := w.nonEmptyAt(st.Val, in, depth+1); !ok {
					// a provisional value that is replaced before the object leaves the function
					// whenever it is empty (`x.f = v; if len(v) == 0 { x.f = dflt }`)
					if w.replacedIfEmpty(st, fa, depth) {
						continue
					}
					return false, "store at " + w.instrPos(in) + ": " + why
				}
			}
		}
	}
	if n == 0 {
		return false, "the list field is never assigned"
	}
	// fresh allocations of the owner struct: the field must be stored on every path to a return
	so := structOf(owner)
	for _, fn := range w.ModFns {
		for _, b := range fn.Blocks {
			for _, in := range b.Instrs {
				al, ok := in.(*ssa.Alloc)
				if !ok {
					continue
				}
				sa := structOf(al.Type())
				if sa == nil || !containsStruct(sa, so) {
					continue
				}
				if allocIsCopy(al) {
					continue
				}
				if ok, why := w.allocAssignsField(fn, al, so, field); !ok {
					return false, why
				}
			}
		}
	}
	return true, fmt.Sprintf("%d stores to the field, each non-empty; fresh allocations assign it", n)
}

func containsStruct(outer, inner *types.Struct) bool {
	if types.Identical(outer, inner) {
		return true
	}
	for i := 0; i < outer.NumFields(); i++ {
		if s, ok := outer.Field(i).Type().Underlying().(*types.Struct); ok && containsStruct(s, inner) {
			return true
		}
	}
	return false
}

// allocIsCopy: the allocation is initialised by a whole-struct store (parameter spill, copy).
func allocIsCopy(al *ssa.Alloc) bool {
	for _, ref := range *al.Referrers() {
		if st, ok := ref.(*ssa.Store); ok && st.Addr == al {
			return true
		}
	}
	return false
}

func (w *World) allocAssignsField(fn *ssa.Function, al *ssa.Alloc, so *types.Struct, field int) (bool, string) {
	bad := ""
	_, over := w.enumPaths(fn, pathOpts{MaxPaths: 50000}, func(p *Path) {
		if p.Exit != "return" {
			return
		}
		sawAlloc, assigned := false, false
		for _, ev := range p.Events {
			if ev.In == al {
				sawAlloc = true
			}
			if st, ok := ev.In.(*ssa.Store); ok && sawAlloc {
				if fa, ok := st.Addr.(*ssa.FieldAddr); ok && fa.Field == field && types.Identical(structOf(fa.X.Type()), so) {
					assigned = true
				}
			}
		}
		if sawAlloc && !assigned {
			bad = "a fresh " + shortType(al.Type()) + " allocated in " + fnShort(fn) + " reaches a return without the list field assigned"
		}
	})
	if over {
		return false, "path cap in " + fnShort(fn)
	}
	return bad == "", bad
}

// cellNonEmptyAtCapture: fv is a captured variable; the cell is only written by the parent
// before the closure is created, and is non-empty at that point on every path.
func (w *World) cellNonEmptyAtCapture(fv *ssa.FreeVar, depth int) (bool, string) {
	clo := fv.Parent()
	parent := clo.Parent()
	if parent == nil {
		return false, "free variable without parent"
	}
	binds := freeVarBindings(fv)
	if len(binds) != 1 {
		return false, "closure created at several sites"
	}
	al, ok := binds[0].(*ssa.Alloc)
	if !ok {
		return false, "captured value is not a local cell"
	}
	// no stores inside any nested closure
	for _, c := range anonFuncsOf(parent) {
		for _, b := range c.Blocks {
			for _, in := range b.Instrs {
				if st, ok := in.(*ssa.Store); ok && w.sameCellAddr(st.Addr, al) {
					return false, "the captured list is reassigned inside a closure (" + w.instrPos(in) + ")"
				}
			}
		}
	}
	var mc ssa.Instruction
	for _, b := range parent.Blocks {
		for _, in := range b.Instrs {
			if m, ok := in.(*ssa.MakeClosure); ok && m.Fn == clo {
				mc = m
			}
		}
	}
	if mc == nil {
		return false, "closure creation not found"
	}
	// stores after the capture point
	for _, ref := range *al.Referrers() {
		if st, ok := ref.(*ssa.Store); ok && st.Addr == al && instrReaches(mc, st) {
			return false, "the captured list is reassigned after the closure is created"
		}
	}
	return w.cellNonEmptyBefore(al, mc, depth)
}

func (w *World) sameCellAddr(a, b ssa.Value) bool {
	if a == b {
		return true
	}
	if fv, ok := a.(*ssa.FreeVar); ok {
		for _, x := range freeVarBindings(fv) {
			if w.sameCellAddr(x, b) {
				return true
			}
		}
	}
	return false
}

// cellNonEmptyBefore: on every path of al's function reaching `at`, the cell holds a non-empty slice.
func (w *World) cellNonEmptyBefore(al *ssa.Alloc, at ssa.Instruction, depth int) (bool, string) {
	fn := al.Parent()
	bad := ""
	reached := false
	_, over := w.enumPaths(fn, pathOpts{}, func(p *Path) {
		if bad != "" {
			return
		}
		atIdx := -1
		for _, ev := range p.Events {
			if ev.In == at {
				atIdx = ev.Idx
				break
			}
		}
		if atIdx < 0 {
			return
		}
		reached = true
		var last *ssa.Store
		lastIdx := -1
		for _, ev := range p.Events[:atIdx] {
			if st, ok := ev.In.(*ssa.Store); ok && st.Addr == al {
				last = st
				lastIdx = ev.Idx
			}
		}
		if last == nil {
			bad = "the list is read before any assignment"
			return
		}
		// a guard on a load of the cell made after the last store
		for _, a := range p.Atoms {
			c := p.cmpOf(a)
			if c.Op != token.NEQ && c.Op != token.GTR {
				continue
			}
			if k, ok := constInt(c.Y.V); !ok || k != 0 {
				continue
			}
			call, ok := stripConv(c.X.V).(*ssa.Call)
			if !ok || !isBuiltinCall(&call.Call, "len") {
				continue
			}
			ld, ok := call.Call.Args[0].(*ssa.UnOp)
			if !ok || ld.Op != token.MUL || ld.X != al {
				continue
			}
			if idx := p.idxOfVal(Val{ld, c.X.F, c.X.E}); idx > lastIdx && idx < atIdx {
				return // guarded
			}
		}
		if ok, why := w.nonEmptyAt(last.Val, last, depth+1); !ok {
			bad = "on a path to " + w.instrPos(at) + " the list holds " + why
		}
	})
	if over {
		return false, "path cap"
	}
	if !reached {
		return false, "capture point unreachable"
	}
	return bad == "", orStr(bad, "non-empty on every path to the capture point")
}

// replacedIfEmpty: st stores a possibly empty value into field fa of a local struct variable; on
// every path from st to a point where the variable is read as a whole, passed on or the function
// returns, either the path takes the len(value) != 0 edge of a test of the same value, or the
// field is stored again with a non-empty value.
func (w *World) replacedIfEmpty(st *ssa.Store, fa *ssa.FieldAddr, depth int) bool {
	al, ok := fa.X.(*ssa.Alloc)
	if !ok {
		return false
	}
	sameField := func(addr ssa.Value) bool {
		f2, ok := addr.(*ssa.FieldAddr)
		return ok && f2.X == ssa.Value(al) && f2.Field == fa.Field
	}
	usesWhole := func(in ssa.Instruction) bool {
		for _, op := range in.Operands(nil) {
			if *op == ssa.Value(al) {
				switch in.(type) {
				case *ssa.FieldAddr, *ssa.DebugRef:
				default:
					return true
				}
			}
		}
		return false
	}
	type key struct {
		b   *ssa.BasicBlock
		idx int
	}
	seen := map[key]bool{}
	var walk func(b *ssa.BasicBlock, idx int) bool
	walk = func(b *ssa.BasicBlock, idx int) bool {
		if seen[key{b, idx}] {
			return true
		}
		seen[key{b, idx}] = true
		for i := idx; i < len(b.Instrs); i++ {
			in := b.Instrs[i]
			if s2, ok := in.(*ssa.Store); ok && sameField(s2.Addr) {
				ok2, _ := w.nonEmptyAt(s2.Val, in, depth+1)
				return ok2
			}
			if _, isRet := in.(*ssa.Return); isRet || usesWhole(in) {
				return false
			}
			if ifi, ok := in.(*ssa.If); ok {
				good := lenGuardGoodSucc(w, ifi, st.Val)
				for _, succ := range b.Succs {
					if good != nil && succ == good {
						continue // the value is non-empty on this edge
					}
					if !walk(succ, 0) {
						return false
					}
				}
				return true
			}
		}
		for _, succ := range b.Succs {
			if !walk(succ, 0) {
				return false
			}
		}
		return len(b.Succs) > 0
	}
	return walk(st.Block(), instrIndex(st)+1)
}
