package main

import (
	"go/token"
	"go/types"

	"golang.org/x/tools/go/ssa"
)

func init() { checks["C11"] = checkC11 }

// barExitArm returns the bar loop, its select, and the first block of the arm taken when
// the bar's context is done.
func (w *World) barExitArm(r *Report) (*ssa.Function, *ssa.Select, *ssa.BasicBlock) {
	loop := w.barLoop()
	if loop == nil {
		r.Unresolved("anchor", "bar loop", "no unique go target receiving from Bar.operateState")
		return nil, nil, nil
	}
	for _, op := range w.Comm().byFn[loop] {
		if op.Kind != "select" {
			continue
		}
		for i, st := range op.States {
			if st.Dir == types.RecvOnly && st.Class.has("Done(Bar.ctx)") {
				sel := op.Instr.(*ssa.Select)
				arms := selectArms(sel)
				if b, ok := arms[i]; ok {
					return loop, sel, b
				}
				// last state of a blocking select: else-branch of the previous comparison
				if b, ok := arms[-1-(i-1)]; ok && i == len(op.States)-1 {
					return loop, sel, b
				}
			}
		}
	}
	r.Undecided("anchor", "bar loop exit arm", w.pos(loop.Pos()), "no select arm on the bar context's Done channel")
	return loop, nil, nil
}

// C11 — terminal state exclusive and stable: I ≡ ¬(aborted ∧ completed()) is inductive over the
// operation closures, and the terminal flags are written only where they cannot be reset.
func checkC11(w *World, r *Report) {
	r.Explain = "Inductive-invariant style argument by guarded-effect facts (path enumeration over SSA, no solver): (a) the completion predicate is false whenever aborted is set; (b) Abort takes effect only under !aborted && !completed(); (c) aborted is written only by Abort (true) and by the bar loop's exit (aborted <- !completed()); (d) the exit computes it before publishing the state; (e) triggerComplete is never reset; (f) after completion increments re-clamp to total and SetTotal is a no-op; (g) post-exit getters read the published state. Decides that no operation closure and no exit path can make Completed and Aborted both true or flip a terminal answer under non-decreasing updates."
	r.Assume = append(r.Assume, "updates after the terminal state are non-decreasing (as in the property statement)", "one operation at a time per bar (C10)")
	trig := w.triggerFn()
	pred := w.completionPredicate()
	if trig == nil || pred == nil {
		r.Unresolved("anchor", "trigger function / completion predicate", "not found")
		return
	}
	opts := pathOpts{InlineDepth: 3, Inline: noInline(trig, pred)}

	// (a) predicate implies !aborted
	{
		bad := ""
		saw := false
		w.enumPaths(pred, pathOpts{}, func(p *Path) {
			if len(p.Ret) != 1 {
				return
			}
			rv := p.Ret[0]
			if bv, ok := constBool(rv.V); ok && !bv {
				return
			}
			q := *p
			if _, ok := constBool(rv.V); !ok {
				q.Atoms = append(append([]Atom(nil), p.Atoms...), Atom{Cond: rv, Pol: true})
			}
			saw = true
			if !q.hasBool(-1, false, loadOf(tBState, "aborted")) {
				bad = "the completion predicate can be true while aborted is set"
			}
		})
		r.Check(bad == "" && saw, "C11.a", "completion predicate", w.pos(pred.Pos()), "completed() implies !aborted on every path", orStr(bad, "predicate has no true path"))
	}
	// (b) Abort guard
	ruleAbort(w, r, "C11", trig, pred, opts)
	// decorators see the same pair of terminal answers as the getters
	ruleStatisticsFaithful(w, r, "C11")

	// (c) writers of aborted
	loop, _, exitArm := w.barExitArm(r)
	abortClo, _ := w.apiClosure(r, "mpb.(*Bar).Abort")
	nW := 0
	for _, fn := range w.ModFns {
		for _, b := range fn.Blocks {
			for _, in := range b.Instrs {
				st, ok := in.(*ssa.Store)
				if !ok {
					continue
				}
				f, ok := fieldOf(st.Addr)
				if !ok || f.Owner != tBState || f.Name != "aborted" {
					continue
				}
				nW++
				construct := "store aborted in " + fnShort(fn)
				if bv, isC := constBool(st.Val); isC {
					r.Check(bv && abortClo != nil && w.unit(abortClo)[fn], "C11.c", construct, w.instrPos(in), "aborted <- true in the Abort closure (guarded by C11.b)",
						"aborted is set to a constant outside the Abort closure, or reset to false")
					continue
				}
				// must be !pred(bs) in the bar loop
				okExit := false
				if u, isU := st.Val.(*ssa.UnOp); isU && u.Op == token.NOT {
					if c, isCall := u.X.(*ssa.Call); isCall && c.Call.StaticCallee() == pred {
						okExit = true
					}
				}
				r.Check(okExit && loop != nil && w.unit(loop)[fn], "C11.c", construct, w.instrPos(in), "exit derives aborted <- !completed()",
					"aborted is assigned a value other than !completed() (a bar ended by cancellation must be aborted exactly when it is not completed), or outside the bar loop")
			}
		}
	}
	r.Floor("C11.c", 2, "Abort closure and bar-loop exit")

	// (d) exit arm: aborted computed, then state published, then bsOk closed, then wait group released, then return
	if exitArm != nil {
		bad := ""
		n, over := w.enumPaths(loop, pathOpts{InlineDepth: 3, Inline: w.helperInline(loop), Start: exitArm, StopAt: func(b *ssa.BasicBlock) bool { return false }}, func(p *Path) {
			if bad != "" {
				return
			}
			if p.Exit != "return" {
				bad = "the exit arm does not return from the bar loop on every path"
				return
			}
			iAb, iPub, iClose, iDone := -1, -1, -1, -1
			for _, ev := range p.Events {
				if f, _, ok := p.storeField(ev); ok {
					if f.Owner == tBState && f.Name == "aborted" {
						iAb = ev.Idx
					}
					if f.Owner == tBar && f.Name == "bs" {
						iPub = ev.Idx
					}
				}
				if op := w.Comm().byIn[ev.In]; op != nil {
					if op.Kind == "close" && op.Class.has("Bar.bsOk") {
						iClose = ev.Idx
					}
					if op.Kind == "wg.Done" && op.Class.has("wg:Progress.bwg") {
						iDone = ev.Idx
					}
				}
			}
			if iAb < 0 || iPub < 0 || iClose < 0 || iDone < 0 {
				bad = "exit path lacks one of: aborted store, publication of the state, close of the ready channel, release of the wait group"
				return
			}
			if !(iAb < iPub && iPub < iClose && iClose < iDone) {
				bad = "exit order must be: compute aborted, publish state, close ready channel, release wait group"
			}
		})
		if over {
			r.Undecided("C11.d", "bar loop exit arm", w.pos(loop.Pos()), "path cap")
		} else {
			r.Check(bad == "" && n > 0, "C11.d", "bar loop exit arm", w.pos(loop.Pos()), "aborted computed before publish before close before Done on all exit paths", orStr(bad, "no exit path"))
		}
	}

	// (e) triggerComplete never reset
	nTC := 0
	for _, fn := range w.ModFns {
		for _, b := range fn.Blocks {
			for _, in := range b.Instrs {
				st, ok := in.(*ssa.Store)
				if !ok {
					continue
				}
				f, ok := fieldOf(st.Addr)
				if !ok || f.Owner != tBState || f.Name != "triggerComplete" {
					continue
				}
				nTC++
				bv, isC := constBool(st.Val)
				if !isC && fn == w.makeBarStateFn() {
					// initialisation of a state that is not yet published: not a reset
					if fa, ok := st.Addr.(*ssa.FieldAddr); ok {
						if al, ok := w.origin(fa.X).(*ssa.Alloc); ok && al.Heap && al.Parent() == fn {
							r.HoldsTrivial("C11.e", "store triggerComplete in "+fnShort(fn), w.instrPos(in), "initialises the freshly allocated, unpublished state (value decided by C09.F7)")
							continue
						}
					}
				}
				r.Check(isC && bv, "C11.e", "store triggerComplete in "+fnShort(fn), w.instrPos(in), "stores true", "triggerComplete may be reset (a completed bar could become incomplete)")
			}
		}
	}
	r.Floor("C11.e", 3, "trigger function, EnableTriggerComplete, constructor")

	// (f) stability under later updates
	ruleClamp(w, r, "C11", trig, pred, opts)
	ruleSetTotal(w, r, "C11", trig, pred, opts)
	// (g) getters
	ruleGetters(w, r, "C11", trig, pred, opts)

	ruleBarWait(w, r, "C11")
	// (h) the trigger function itself: sets the flag on every path and never touches aborted/current/total
	{
		bad := ""
		w.enumPaths(trig, pathOpts{}, func(p *Path) {
			st := p.storesTo(tBState, "triggerComplete")
			if len(st) == 0 {
				bad = "trigger function has a path that does not set triggerComplete"
			}
			for _, f := range []string{"aborted", "current", "total"} {
				if len(p.storesTo(tBState, f)) != 0 {
					bad = "trigger function writes " + f
				}
			}
		})
		r.Check(bad == "", "C11.h", "trigger function", w.pos(trig.Pos()), "sets triggerComplete on all paths, writes no counter or terminal flag", bad)
	}
}
