package main

import (
	"go/constant"
	"go/token"
	"go/types"
	"strings"

	"golang.org/x/tools/go/ssa"
)

// typeName returns "pkgname.Name" for a (pointer to) named type, else "".
func typeName(t types.Type) string {
	t = types.Unalias(t)
	if p, ok := t.(*types.Pointer); ok {
		t = types.Unalias(p.Elem())
	}
	if n, ok := t.(*types.Named); ok {
		if n.Obj().Pkg() != nil {
			name := n.Obj().Pkg().Name() + "." + n.Obj().Name()
			if c, ok := canonType[name]; ok {
				return c
			}
			return name
		}
		return n.Obj().Name()
	}
	return ""
}

// The payload structs of the heap protocol are recognised by shape, so that renaming them or
// their (unexported) fields does not move a rule: (<-chan struct{}, chan<- *Bar, chan<- *Bar)
// is the iteration request, (*Bar, int, bool) the fix request, (*Bar, bool) the push request.
// canonType maps the actual type name to the name the rules use, canonField gives the rule
// names of the fields by index.
var (
	canonType  = map[string]string{}
	canonField = map[string][]string{}
)

func registerPayloadShapes(pkg *ssa.Package) {
	canonType = map[string]string{}
	canonField = map[string][]string{}
	isBarPtr := func(t types.Type) bool {
		p, ok := t.(*types.Pointer)
		if !ok {
			return false
		}
		n, ok := p.Elem().(*types.Named)
		return ok && n.Obj().Name() == "Bar"
	}
	chanOf := func(t types.Type, dir types.ChanDir, elemBar bool) bool {
		c, ok := t.Underlying().(*types.Chan)
		if !ok || c.Dir() != dir {
			return false
		}
		if elemBar {
			return isBarPtr(c.Elem())
		}
		st, ok := c.Elem().Underlying().(*types.Struct)
		return ok && st.NumFields() == 0
	}
	basic := func(t types.Type, k types.BasicKind) bool {
		b, ok := t.Underlying().(*types.Basic)
		return ok && b.Kind() == k
	}
	for _, m := range pkg.Members {
		tm, ok := m.(*ssa.Type)
		if !ok {
			continue
		}
		n, ok := tm.Type().(*types.Named)
		if !ok {
			continue
		}
		st, ok := n.Underlying().(*types.Struct)
		if !ok {
			continue
		}
		actual := n.Obj().Pkg().Name() + "." + n.Obj().Name()
		f := func(i int) types.Type { return st.Field(i).Type() }
		switch {
		case st.NumFields() == 3 && chanOf(f(0), types.RecvOnly, false) && chanOf(f(1), types.SendOnly, true) && chanOf(f(2), types.SendOnly, true):
			canonType[actual] = "mpb.iterData"
			canonField["mpb.iterData"] = []string{"drop", "iter", "iterPop"}
		case st.NumFields() == 3 && isBarPtr(f(0)) && basic(f(1), types.Int) && basic(f(2), types.Bool):
			canonType[actual] = "mpb.fixData"
			canonField["mpb.fixData"] = []string{"bar", "priority", "lazy"}
		case st.NumFields() == 2 && isBarPtr(f(0)) && basic(f(1), types.Bool):
			canonType[actual] = "mpb.pushData"
			canonField["mpb.pushData"] = []string{"bar", "sync"}
		}
	}
}

func canonFieldName(owner string, st *types.Struct, idx int) string {
	if names, ok := canonField[owner]; ok && idx < len(names) {
		return names[idx]
	}
	return st.Field(idx).Name()
}

func structOf(t types.Type) *types.Struct {
	t = types.Unalias(t)
	if p, ok := t.Underlying().(*types.Pointer); ok {
		t = p.Elem()
	}
	s, _ := t.Underlying().(*types.Struct)
	return s
}

// fieldRef describes a FieldAddr or Field instruction: owner type name and field name.
type fieldRef struct {
	Owner string // "mpb.bState"
	Name  string
	Base  ssa.Value
}

func (f fieldRef) String() string {
	o := f.Owner
	if i := strings.Index(o, "."); i >= 0 {
		o = o[i+1:]
	}
	return o + "." + f.Name
}

func fieldOf(v ssa.Value) (fieldRef, bool) {
	switch x := v.(type) {
	case *ssa.FieldAddr:
		st := structOf(x.X.Type())
		if st == nil {
			return fieldRef{}, false
		}
		o := typeName(x.X.Type())
		return fieldRef{Owner: o, Name: canonFieldName(o, st, x.Field), Base: x.X}, true
	case *ssa.Field:
		st := structOf(x.X.Type())
		if st == nil {
			return fieldRef{}, false
		}
		o := typeName(x.X.Type())
		return fieldRef{Owner: o, Name: canonFieldName(o, st, x.Field), Base: x.X}, true
	}
	return fieldRef{}, false
}

// loadedField: v is `*(&x.f)` or `x.f` (Field on a struct value); returns the field.
func loadedField(v ssa.Value) (fieldRef, bool) {
	switch x := v.(type) {
	case *ssa.UnOp:
		if x.Op == token.MUL {
			return fieldOf(x.X)
		}
	case *ssa.Field:
		return fieldOf(x)
	}
	return fieldRef{}, false
}

// stripConv removes value-preserving wrappers.
func stripConv(v ssa.Value) ssa.Value {
	for {
		switch x := v.(type) {
		case *ssa.ChangeType:
			v = x.X
		case *ssa.Convert:
			v = x.X
		case *ssa.MakeInterface:
			v = x.X
		case *ssa.ChangeInterface:
			v = x.X
		default:
			return v
		}
	}
}

func constInt(v ssa.Value) (int64, bool) {
	c, ok := v.(*ssa.Const)
	if !ok || c.Value == nil {
		return 0, false
	}
	if c.Value.Kind() != constant.Int {
		return 0, false
	}
	i, ok := constant.Int64Val(c.Value)
	return i, ok
}

func constBool(v ssa.Value) (bool, bool) {
	c, ok := v.(*ssa.Const)
	if !ok || c.Value == nil || c.Value.Kind() != constant.Bool {
		return false, false
	}
	return constant.BoolVal(c.Value), true
}

func isNilConst(v ssa.Value) bool {
	c, ok := v.(*ssa.Const)
	return ok && c.Value == nil
}

// staticCalleeName returns e.g. "sync.(*WaitGroup).Add", "context.WithCancel", "" if dynamic.
func staticCalleeName(c *ssa.CallCommon) string {
	if f := c.StaticCallee(); f != nil {
		return f.String()
	}
	if c.IsInvoke() {
		return "invoke " + typeName(c.Value.Type()) + "." + c.Method.Name()
	}
	return ""
}

func isBuiltinCall(c *ssa.CallCommon, name string) bool {
	b, ok := c.Value.(*ssa.Builtin)
	return ok && b.Name() == name
}

// instrIndex returns the index of in within its block.
func instrIndex(in ssa.Instruction) int {
	for i, x := range in.Block().Instrs {
		if x == in {
			return i
		}
	}
	return -1
}

// dominates: a executes before b on every path reaching b (same function).
func instrDominates(a, b ssa.Instruction) bool {
	if a.Block() == b.Block() {
		return instrIndex(a) < instrIndex(b)
	}
	return a.Block().Dominates(b.Block())
}

// reachableBlocks returns the set of blocks reachable from b (including b if on a cycle; b itself
// is included only when includeSelf).
func reachableFrom(b *ssa.BasicBlock, includeSelf bool) map[*ssa.BasicBlock]bool {
	seen := map[*ssa.BasicBlock]bool{}
	var stack []*ssa.BasicBlock
	if includeSelf {
		seen[b] = true
	}
	stack = append(stack, b.Succs...)
	for len(stack) > 0 {
		x := stack[len(stack)-1]
		stack = stack[:len(stack)-1]
		if seen[x] {
			continue
		}
		seen[x] = true
		stack = append(stack, x.Succs...)
	}
	return seen
}

// instrReaches: can control flow from a to b (a executed strictly before b on some path)?
func instrReaches(a, b ssa.Instruction) bool {
	if a.Block() == b.Block() && instrIndex(a) < instrIndex(b) {
		return true
	}
	r := reachableFrom(a.Block(), false)
	return r[b.Block()]
}

// natural loops -----------------------------------------------------------

type loopInfo struct {
	Header *ssa.BasicBlock
	Blocks map[*ssa.BasicBlock]bool
	Latch  []*ssa.BasicBlock
}

func naturalLoops(fn *ssa.Function) []*loopInfo {
	byHeader := map[*ssa.BasicBlock]*loopInfo{}
	var order []*ssa.BasicBlock
	for _, b := range fn.Blocks {
		for _, s := range b.Succs {
			if s.Dominates(b) { // back edge b -> s
				li := byHeader[s]
				if li == nil {
					li = &loopInfo{Header: s, Blocks: map[*ssa.BasicBlock]bool{s: true}}
					byHeader[s] = li
					order = append(order, s)
				}
				li.Latch = append(li.Latch, b)
				// collect body
				stack := []*ssa.BasicBlock{b}
				for len(stack) > 0 {
					x := stack[len(stack)-1]
					stack = stack[:len(stack)-1]
					if li.Blocks[x] {
						continue
					}
					li.Blocks[x] = true
					stack = append(stack, x.Preds...)
				}
			}
		}
	}
	var out []*loopInfo
	for _, h := range order {
		out = append(out, byHeader[h])
	}
	return out
}

func (l *loopInfo) exits() [][2]*ssa.BasicBlock {
	var out [][2]*ssa.BasicBlock
	for b := range l.Blocks {
		for _, s := range b.Succs {
			if !l.Blocks[s] {
				out = append(out, [2]*ssa.BasicBlock{b, s})
			}
		}
	}
	return out
}

// innermostLoop containing block b.
func innermostLoop(loops []*loopInfo, b *ssa.BasicBlock) *loopInfo {
	var best *loopInfo
	for _, l := range loops {
		if l.Blocks[b] && (best == nil || len(l.Blocks) < len(best.Blocks)) {
			best = l
		}
	}
	return best
}

func fnShort(fn *ssa.Function) string {
	if fn == nil {
		return "<nil>"
	}
	s := fn.String()
	s = strings.ReplaceAll(s, modPath+"/", "")
	s = strings.ReplaceAll(s, modPath, "mpb")
	s = strings.ReplaceAll(s, "github.com/vbauerster/", "")
	return s
}

// rootFn: outermost enclosing named function.
func rootFn(fn *ssa.Function) *ssa.Function {
	for fn.Parent() != nil {
		fn = fn.Parent()
	}
	return fn
}

// origin follows value-preserving conversions and loads of single-assignment cells
// (spilled parameters / captured variables that are stored exactly once) back to the
// value that was stored. It never crosses a cell with more than one store.
func (w *World) origin(v ssa.Value) ssa.Value {
	for i := 0; i < 32; i++ {
		v = stripConv(v)
		u, ok := v.(*ssa.UnOp)
		if !ok || u.Op != token.MUL {
			return v
		}
		switch x := u.X.(type) {
		case *ssa.Alloc, *ssa.FreeVar:
			st := w.cellStores(u.X)
			if len(st) != 1 {
				return v
			}
			v = st[0]
		case *ssa.FieldAddr:
			// a field of a request object (a fresh struct bound as the receiver of an offered
			// method value) that is stored exactly once in the whole module
			sv := w.messageFieldValue(x)
			if sv == nil {
				sv = w.valueReceiverField(x)
			}
			if sv == nil {
				return v
			}
			v = sv
		default:
			return v
		}
	}
	return v
}

// messageStructs: named struct types of which a freshly allocated value is bound as the
// receiver of a method value (`req.handle`), i.e. request objects travelling to an actor.
func (w *World) messageStructs() map[string]bool {
	if w.msgStructs != nil {
		return w.msgStructs
	}
	w.msgStructs = map[string]bool{}
	w.msgFieldStores = map[string][]*ssa.Store{}
	for _, fn := range w.ModFns {
		for _, b := range fn.Blocks {
			for _, in := range b.Instrs {
				mc, ok := in.(*ssa.MakeClosure)
				if !ok || len(mc.Bindings) != 1 {
					continue
				}
				f, _ := mc.Fn.(*ssa.Function)
				if f == nil || !strings.HasPrefix(f.Synthetic, "bound method wrapper") {
					continue
				}
				al, ok := mc.Bindings[0].(*ssa.Alloc)
				if !ok || !al.Heap || structOf(al.Type()) == nil {
					continue
				}
				switch tn := typeName(al.Type()); tn {
				case tPState, tBState, tBar, "mpb.Progress":
				default:
					w.msgStructs[tn] = true
				}
			}
		}
	}
	if len(w.msgStructs) == 0 {
		return w.msgStructs
	}
	for _, fn := range w.ModFns {
		for _, b := range fn.Blocks {
			for _, in := range b.Instrs {
				if st, ok := in.(*ssa.Store); ok {
					if f, ok := fieldOf(st.Addr); ok && w.msgStructs[f.Owner] {
						w.msgFieldStores[f.String()] = append(w.msgFieldStores[f.String()], st)
					}
				}
			}
		}
	}
	return w.msgStructs
}

// messageFieldValue: the single value ever stored to the field addressed by fa, when fa's
// struct is a request object type; nil otherwise.
func (w *World) messageFieldValue(fa *ssa.FieldAddr) ssa.Value {
	f, ok := fieldOf(fa)
	if !ok || !w.messageStructs()[f.Owner] {
		return nil
	}
	st := w.msgFieldStores[f.String()]
	if len(st) != 1 {
		return nil
	}
	// the store initialises a fresh object in its constructor function
	sf, ok := st[0].Addr.(*ssa.FieldAddr)
	if !ok {
		return nil
	}
	if _, ok := sf.X.(*ssa.Alloc); !ok {
		return nil
	}
	return st[0].Val
}

// isParam: v originates from parameter #idx (receiver counted) of fn.
func (w *World) isParamOf(v ssa.Value, fn *ssa.Function, idx int) bool {
	o := w.origin(v)
	p, ok := o.(*ssa.Parameter)
	return ok && p.Parent() == fn && idx < len(fn.Params) && fn.Params[idx] == p
}

// valueReceiverField: fa addresses field k of the (spilled) value receiver of a method that is
// only ever used as a method value `op.m` of one local struct variable op (a request carried by
// value): the single value stored into op.k before the method value was taken. nil otherwise.
func (w *World) valueReceiverField(fa *ssa.FieldAddr) ssa.Value {
	al, ok := fa.X.(*ssa.Alloc)
	if !ok || !localStruct(al) {
		return nil
	}
	m := al.Parent()
	if m.Signature.Recv() == nil || len(m.Params) == 0 {
		return nil
	}
	// the alloc is the spill of the receiver: one whole store of parameter 0, no field stores
	whole := 0
	for _, ref := range *al.Referrers() {
		switch x := ref.(type) {
		case *ssa.Store:
			if x.Val != ssa.Value(m.Params[0]) {
				return nil
			}
			whole++
		case *ssa.FieldAddr:
			if x.Referrers() != nil {
				for _, r2 := range *x.Referrers() {
					if _, isSt := r2.(*ssa.Store); isSt {
						return nil
					}
				}
			}
		}
	}
	if whole != 1 {
		return nil
	}
	// every use of the method is through its bound wrapper, made from exactly one closure site
	var wrapper *ssa.Function
	for _, site := range w.callers[m] {
		c := site.Parent()
		if !strings.HasPrefix(c.Synthetic, "bound method wrapper") {
			return nil
		}
		wrapper = c
	}
	if wrapper == nil {
		return nil
	}
	var mcs []*ssa.MakeClosure
	for _, fn := range w.ModFns {
		for _, b := range fn.Blocks {
			for _, in := range b.Instrs {
				if mc, ok := in.(*ssa.MakeClosure); ok && mc.Fn == ssa.Value(wrapper) {
					mcs = append(mcs, mc)
				}
			}
		}
	}
	if len(mcs) != 1 || len(mcs[0].Bindings) != 1 {
		return nil
	}
	ld, ok := mcs[0].Bindings[0].(*ssa.UnOp)
	if !ok || ld.Op != token.MUL {
		return nil
	}
	src, ok := ld.X.(*ssa.Alloc)
	if !ok || !localStruct(src) {
		return nil
	}
	var stores []*ssa.Store
	for _, ref := range *src.Referrers() {
		switch x := ref.(type) {
		case *ssa.Store:
			return nil // whole-value assignment: not followed
		case *ssa.FieldAddr:
			if x.Field != fa.Field || x.Referrers() == nil {
				continue
			}
			for _, r2 := range *x.Referrers() {
				if st, isSt := r2.(*ssa.Store); isSt {
					stores = append(stores, st)
				}
			}
		}
	}
	if len(stores) != 1 {
		return nil
	}
	return stores[0].Val
}


// incrOf: v is `x + 1` or `1 + x` where x is a load of owner.name.
func incrOf(v ssa.Value, owner, name string) bool {
	add, ok := v.(*ssa.BinOp)
	if !ok || add.Op != token.ADD {
		return false
	}
	for _, pr := range [][2]ssa.Value{{add.X, add.Y}, {add.Y, add.X}} {
		if k, isK := constInt(pr[1]); isK && k == 1 && isLoad(Val{V: pr[0]}, owner, name) {
			return true
		}
	}
	return false
}
