package main

import (
	"fmt"
	"path/filepath"
	"sort"
	"strings"
)

// sweepAll is a development aid (mutation sweeps): one load of the tree, every check, one line per
// property that does not hold ("<id>: rule,rule"). No evidence is written.
func sweepAll(repo, verif string) int {
	known := loadKnown(filepath.Join(verif, "known_findings.json"))
	var ids []string
	for id := range checks {
		ids = append(ids, id)
	}
	sort.Strings(ids)
	worlds := map[string]*World{}
	world := func(os, arch string) (w *World, err interface{}) {
		k := os + "/" + arch
		if w, ok := worlds[k]; ok {
			return w, nil
		}
		defer func() { err = recover() }()
		w = loadWorld(repo, os, arch)
		worlds[k] = w
		return w, nil
	}
	rc := 0
	for _, id := range ids {
		cfgs := [][2]string{{"", ""}}
		switch id {
		case "C03", "C04", "C13", "C15":
			cfgs = append(cfgs, [2]string{"windows", "amd64"})
		}
		r := newReport(id, "quick", 0)
		for _, c := range cfgs {
			w, err := world(c[0], c[1])
			if err != nil {
				fmt.Printf("%s: BROKEN(%v)\n", id, err)
				return 2
			}
			r.Config = c[0] + "/" + c[1]
			func() {
				defer func() {
					if e := recover(); e != nil {
						r.Undecided(id+".INTERNAL", "analysis aborted", "", fmt.Sprint(e))
					}
				}()
				checks[id](w, r)
			}()
			r.applyFloors()
		}
		bad := map[string]bool{}
		for _, o := range r.Obs {
			if o.Verdict == HOLDS {
				continue
			}
			isKnown := false
			if o.Verdict == VIOLATED {
				for _, kf := range known {
					if kf.Status == "open" && kf.Property == id && kf.Rule == o.Rule && kf.Construct == o.Construct {
						isKnown = true
					}
				}
			}
			if !isKnown {
				bad[o.Rule] = true
			}
		}
		if len(bad) > 0 {
			var rs []string
			for k := range bad {
				rs = append(rs, k)
			}
			sort.Strings(rs)
			fmt.Printf("%s: %s\n", id, strings.Join(rs, ","))
			rc = 1
		}
	}
	return rc
}
