package main

import (
	"fmt"
	"go/token"
	"go/types"
	"sort"

	"golang.org/x/tools/go/ssa"
)

// E5 — termination of computation loops. Each natural loop gets a stated ranking argument
// or is UNDECIDED:
//
//	T1 range over slice/array/string/map/int (range-index shape, or ssa.Next iterator)
//	T2 counting: a test executed on every iteration compares a monotone affine expression of an
//	   induction variable with a loop-invariant bound, and every step is loop-invariant and
//	   provably of the advancing sign and non-zero (constant, or guarded by `step > 0`)
//	T2p two-pointer: l < r with l increasing and r decreasing
//	T3 drain: for h.Len() != 0 { heap.Pop(h) }; for { x.ReadBytes(..); if err != nil { break } } on a bytes.Buffer
//	CH channel loop (blocking operation inside: E1's business)

type loopClass struct {
	Class string
	OK    bool
	Why   string
}

func loopInvariant(l *loopInfo, v ssa.Value) bool { return loopInvariantD(l, v, 0) }

// loopInvariantD: the value is the same on every iteration: defined outside the loop, or a
// pure expression (arithmetic, conversion, len/cap, field/element address) over invariant
// operands, or a load from a field / local cell that nothing in the loop can store to.
func loopInvariantD(l *loopInfo, v ssa.Value, depth int) bool {
	if depth > 8 {
		return false
	}
	switch x := v.(type) {
	case *ssa.Const, *ssa.Parameter, *ssa.FreeVar, *ssa.Global, *ssa.Function:
		return true
	case ssa.Instruction:
		if !l.Blocks[x.Block()] {
			return true
		}
	}
	switch x := v.(type) {
	case *ssa.BinOp:
		return loopInvariantD(l, x.X, depth+1) && loopInvariantD(l, x.Y, depth+1)
	case *ssa.Convert:
		return loopInvariantD(l, x.X, depth+1)
	case *ssa.ChangeType:
		return loopInvariantD(l, x.X, depth+1)
	case *ssa.FieldAddr:
		return loopInvariantD(l, x.X, depth+1)
	case *ssa.Field:
		return loopInvariantD(l, x.X, depth+1)
	case *ssa.IndexAddr:
		// element of a local array variable (`table[0]` of `table := b.wSyncTable()`)
		if _, isArr := x.X.(*ssa.Alloc); isArr {
			return loopInvariantD(l, x.Index, depth+1)
		}
	case *ssa.Call:
		if b, ok := x.Call.Value.(*ssa.Builtin); ok && (b.Name() == "len" || b.Name() == "cap") {
			return loopInvariantD(l, x.Call.Args[0], depth+1)
		}
	case *ssa.UnOp:
		if x.Op != token.MUL {
			return loopInvariantD(l, x.X, depth+1)
		}
		// load: the address is invariant and nothing in the loop stores to that location
		if !loopInvariantD(l, x.X, depth+1) {
			return false
		}
		return !loopMayStore(l, x.X)
	}
	return false
}

// loopMayStore: can any instruction of the loop (or a module function it calls) write the
// location addr? Locations are compared by struct field (owner+name) or by local cell.
func loopMayStore(l *loopInfo, addr ssa.Value) bool {
	baseOf := func(a ssa.Value) ssa.Value {
		if ia, ok := a.(*ssa.IndexAddr); ok {
			return ia.X
		}
		return a
	}
	same := func(a ssa.Value) bool {
		if a == addr {
			return true
		}
		if _, isEl := addr.(*ssa.IndexAddr); isEl && baseOf(a) == baseOf(addr) {
			return true // the array variable itself, or one of its elements, is written
		}
		fa, ok1 := fieldOf(a)
		fb, ok2 := fieldOf(addr)
		if ok1 && ok2 {
			return fa.Owner == fb.Owner && fa.Name == fb.Name
		}
		return false
	}
	_, isCell := addr.(*ssa.Alloc)
	_, isFV := addr.(*ssa.FreeVar)
	for b := range l.Blocks {
		for _, in := range b.Instrs {
			switch x := in.(type) {
			case *ssa.Store:
				if same(x.Addr) {
					return true
				}
			case *ssa.MapUpdate:
			case ssa.CallInstruction:
				// a call may write a struct field it can reach; local cells are only reachable by closures
				c := x.Common()
				if _, isB := c.Value.(*ssa.Builtin); isB {
					continue
				}
				if isCell || isFV {
					// a closure capturing the cell, called or spawned here
					if mc, ok := c.Value.(*ssa.MakeClosure); ok {
						for _, bnd := range mc.Bindings {
							if bnd == addr {
								return true
							}
						}
					}
					continue
				}
				if f, ok := fieldOf(addr); ok {
					if callMayStoreField(c, f) {
						return true
					}
				}
			}
		}
	}
	return false
}

var fieldWriters = map[string]map[*ssa.Function]bool{}

// callMayStoreField: the static callee (transitively through static calls) contains a store to
// the field; dynamic calls are assumed not to write library-private fields of another object
// (user callbacks cannot name unexported fields).
func callMayStoreField(c *ssa.CallCommon, f fieldRef) bool {
	callee := c.StaticCallee()
	if callee == nil || callee.Blocks == nil {
		return false
	}
	seen := map[*ssa.Function]bool{}
	var rec func(fn *ssa.Function, d int) bool
	rec = func(fn *ssa.Function, d int) bool {
		if seen[fn] || fn.Blocks == nil || d > 6 {
			return false
		}
		seen[fn] = true
		for _, b := range fn.Blocks {
			for _, in := range b.Instrs {
				if st, ok := in.(*ssa.Store); ok {
					if g, ok := fieldOf(st.Addr); ok && g.Owner == f.Owner && g.Name == f.Name {
						return true
					}
				}
				if ci, ok := in.(ssa.CallInstruction); ok {
					if sc := ci.Common().StaticCallee(); sc != nil && rec(sc, d+1) {
						return true
					}
				}
			}
		}
		return false
	}
	return rec(callee, 0)
}

// dominatesAllLatches: block c (in the loop) is executed on every iteration.
func dominatesAllLatches(l *loopInfo, c *ssa.BasicBlock) bool {
	for _, latch := range l.Latch {
		if !(c == latch || c.Dominates(latch)) {
			return false
		}
	}
	return true
}

// stepOf: the per-iteration change of header phi p: returns (step value, sign known const k) when every
// latch edge is p + s / p - s with one common loop-invariant s (possibly through inner pass-through phis).
type stepInfo struct {
	ok    bool
	val   ssa.Value // loop-invariant step operand (may be Const)
	neg   bool      // p - s
	konst int64
	isK   bool
}

func stepOf(l *loopInfo, p *ssa.Phi) stepInfo {
	var out stepInfo
	first := true
	var visit func(v ssa.Value, seen map[ssa.Value]bool) bool
	visit = func(v ssa.Value, seen map[ssa.Value]bool) bool {
		if seen[v] {
			return true
		}
		seen[v] = true
		if v == ssa.Value(p) {
			return false // an iteration without progress
		}
		switch x := v.(type) {
		case *ssa.Phi:
			if !l.Blocks[x.Block()] {
				return false
			}
			for _, e := range x.Edges {
				if !visit(e, seen) {
					return false
				}
			}
			return true
		case *ssa.BinOp:
			if x.Op != token.ADD && x.Op != token.SUB {
				return false
			}
			var s ssa.Value
			switch {
			case x.X == ssa.Value(p):
				s = x.Y
			case x.Y == ssa.Value(p) && x.Op == token.ADD:
				s = x.X
			default:
				return false
			}
			if !loopInvariant(l, s) {
				return false
			}
			neg := x.Op == token.SUB
			k, isK := constInt(s)
			if first {
				out.val, out.neg, out.konst, out.isK = s, neg, k, isK
				first = false
				return true
			}
			if out.neg != neg {
				return false
			}
			if out.isK && isK {
				// different constants of the same sign are fine: keep the smaller magnitude
				if (k > 0) != (out.konst > 0) {
					return false
				}
				return true
			}
			return out.val == s
		}
		return false
	}
	for i, e := range p.Edges {
		if !l.Blocks[l.Header.Preds[i]] {
			continue
		}
		if !visit(e, map[ssa.Value]bool{}) {
			return stepInfo{}
		}
	}
	out.ok = !first
	return out
}

// positiveInLoop: value s is > 0 whenever the loop body runs: a constant > 0, or a test `s > 0`
// (s >= 1, 0 < s) executed on every iteration whose failing edge leaves the loop, or a dominating
// test before the loop.
func positiveInLoop(l *loopInfo, s ssa.Value) bool {
	if k, ok := constInt(s); ok {
		return k > 0
	}
	isPosTest := func(cond ssa.Value) (bool, bool) { // (is a test of s>0, polarity: true edge means positive)
		bin, ok := cond.(*ssa.BinOp)
		if !ok {
			return false, false
		}
		kx, okx := constInt(bin.X)
		ky, oky := constInt(bin.Y)
		isS := func(v ssa.Value) bool { return v == s || sameLocalField(v, s) }
		switch {
		case isS(bin.X) && oky && ((bin.Op == token.GTR && ky >= 0) || (bin.Op == token.GEQ && ky >= 1) || (bin.Op == token.NEQ && ky == 0 && isUnsigned(s))):
			return true, true
		case isS(bin.Y) && okx && ((bin.Op == token.LSS && kx >= 0) || (bin.Op == token.LEQ && kx >= 1)):
			return true, true
		case isS(bin.X) && oky && ((bin.Op == token.LEQ && ky >= 0) || (bin.Op == token.LSS && ky >= 1)):
			return true, false
		}
		return false, false
	}
	fn := l.Header.Parent()
	for _, b := range fn.Blocks {
		ifi, ok := b.Instrs[len(b.Instrs)-1].(*ssa.If)
		if !ok {
			continue
		}
		is, pol := isPosTest(ifi.Cond)
		if !is {
			continue
		}
		good, badS := b.Succs[0], b.Succs[1]
		if !pol {
			good, badS = badS, good
		}
		if l.Blocks[b] {
			// executed every iteration, and the non-positive edge leaves the loop
			if dominatesAllLatches(l, b) && !l.Blocks[badS] && l.Blocks[good] {
				return true
			}
		} else if len(good.Preds) == 1 && (good == l.Header || good.Dominates(l.Header)) {
			return true
		} else if good == l.Header {
			// the test's positive edge enters the loop directly: every other way into the header is a back edge
			only := true
			for _, pr := range good.Preds {
				if pr != b && !l.Blocks[pr] {
					only = false
				}
			}
			if only {
				return true
			}
		}
	}
	return false
}

func isUnsigned(v ssa.Value) bool {
	b, ok := v.Type().Underlying().(*types.Basic)
	return ok && b.Info()&types.IsUnsigned != 0
}

func (w *World) classifyLoop(fn *ssa.Function, l *loopInfo) loopClass {
	// channel loops
	for b := range l.Blocks {
		for _, in := range b.Instrs {
			if op := w.Comm().byIn[in]; op != nil {
				switch op.Kind {
				case "recv", "send":
					return loopClass{"CH", true, "blocking channel operation inside (decided by the communication rules)"}
				case "select":
					if op.Blocking {
						return loopClass{"CH", true, "blocking select inside (decided by the communication rules)"}
					}
				}
			}
		}
	}
	// T1: iterator-based range (map / string)
	for b := range l.Blocks {
		for _, in := range b.Instrs {
			if nx, ok := in.(*ssa.Next); ok && dominatesAllLatches(l, b) {
				// the ok result decides the exit
				for _, ref := range *nx.Referrers() {
					if ex, ok := ref.(*ssa.Extract); ok && ex.Index == 0 {
						for _, r2 := range *ex.Referrers() {
							if ifi, ok := r2.(*ssa.If); ok && !l.Blocks[ifi.Block().Succs[1]] {
								return loopClass{"T1", true, "range over map/string (iterator exhausted)"}
							}
						}
					}
				}
			}
		}
	}
	// tests executed on every iteration with an exit edge
	var tests []*ssa.If
	for b := range l.Blocks {
		ifi, ok := b.Instrs[len(b.Instrs)-1].(*ssa.If)
		if !ok || !dominatesAllLatches(l, b) {
			continue
		}
		if l.Blocks[b.Succs[0]] != l.Blocks[b.Succs[1]] {
			tests = append(tests, ifi)
		}
	}
	sort.Slice(tests, func(i, j int) bool { return tests[i].Block().Index < tests[j].Block().Index })
	var reasons []string
	for _, ifi := range tests {
		stayTrue := l.Blocks[ifi.Block().Succs[0]]
		if c, ok := w.rankByTest(l, ifi.Cond, stayTrue); ok {
			return c
		} else if c.Why != "" {
			reasons = append(reasons, c.Why)
		}
	}
	// T3: ReadBytes drain: for { ...ReadBytes...; if err != nil { break } }
	for b := range l.Blocks {
		for _, in := range b.Instrs {
			c, ok := in.(*ssa.Call)
			if !ok || c.Call.StaticCallee() == nil {
				continue
			}
			name := c.Call.StaticCallee().String()
			if name != "(*bytes.Buffer).ReadBytes" && name != "(*bytes.Buffer).ReadString" {
				continue
			}
			if !dominatesAllLatches(l, b) {
				continue
			}
			for _, ref := range *c.Referrers() {
				ex, ok := ref.(*ssa.Extract)
				if !ok || ex.Index != 1 {
					continue
				}
				for _, r2 := range *ex.Referrers() {
					bin, ok := r2.(*ssa.BinOp)
					if !ok || !isNilConst(bin.Y) {
						continue
					}
					for _, r3 := range *bin.Referrers() {
						ifi, ok := r3.(*ssa.If)
						if !ok {
							continue
						}
						errSucc := ifi.Block().Succs[0]
						if bin.Op == token.EQL {
							errSucc = ifi.Block().Succs[1]
						}
						if !l.Blocks[errSucc] && dominatesAllLatches(l, ifi.Block()) {
							return loopClass{"T3", true, "drains a bytes.Buffer line by line; ReadBytes fails with io.EOF once the finite buffer is empty"}
						}
					}
				}
			}
		}
	}
	// T3 (rotated form): line, err := b.ReadBytes(..); for err == nil { ...; line, err = b.ReadBytes(..) }
	isReadErr := func(v ssa.Value) (*ssa.Call, bool) {
		ex, ok := v.(*ssa.Extract)
		if !ok || ex.Index != 1 {
			return nil, false
		}
		c, ok := ex.Tuple.(*ssa.Call)
		if !ok || c.Call.StaticCallee() == nil {
			return nil, false
		}
		name := c.Call.StaticCallee().String()
		return c, name == "(*bytes.Buffer).ReadBytes" || name == "(*bytes.Buffer).ReadString"
	}
	for _, ifi := range tests {
		bin, ok := ifi.Cond.(*ssa.BinOp)
		if !ok || !isNilConst(bin.Y) || (bin.Op != token.EQL && bin.Op != token.NEQ) {
			continue
		}
		phi, ok := bin.X.(*ssa.Phi)
		if !ok || phi.Block() != l.Header {
			continue
		}
		errSucc := ifi.Block().Succs[0]
		if bin.Op == token.EQL {
			errSucc = ifi.Block().Succs[1]
		}
		if l.Blocks[errSucc] {
			continue
		}
		good := true
		for i, e := range phi.Edges {
			c, isRead := isReadErr(e)
			if !isRead {
				good = false
				break
			}
			if l.Blocks[phi.Block().Preds[i]] && !(l.Blocks[c.Block()] && dominatesAllLatches(l, c.Block())) {
				good = false
			}
		}
		if good {
			return loopClass{"T3", true, "drains a bytes.Buffer line by line (read before the loop and at the end of every iteration); ReadBytes fails with io.EOF once the finite buffer is empty"}
		}
	}
	why := "no test executed on every iteration has a recognised ranking argument"
	if len(reasons) > 0 {
		why = reasons[0]
	}
	return loopClass{"?", false, why}
}

// rankByTest: the stay-condition of the test must eventually fail.
func (w *World) rankByTest(l *loopInfo, cond ssa.Value, stayTrue bool) (loopClass, bool) {
	bin, ok := cond.(*ssa.BinOp)
	if !ok {
		return loopClass{}, false
	}
	op := bin.Op
	if !stayTrue {
		op = negOp(op)
	}
	x, y := bin.X, bin.Y
	// T3: Len(h) != 0 with a Pop of the same heap on every iteration
	if op == token.NEQ || op == token.GTR {
		if k, isK := constInt(y); isK && k == 0 {
			if c, ok := x.(*ssa.Call); ok && c.Call.StaticCallee() != nil && c.Call.StaticCallee().Name() == "Len" {
				for b := range l.Blocks {
					for _, in := range b.Instrs {
						if pc, ok := in.(*ssa.Call); ok && isHeapCall(pc, "Pop") && dominatesAllLatches(l, b) {
							return loopClass{"T3", true, "pops one element per iteration until the heap is empty"}, true
						}
					}
				}
				return loopClass{Why: "loop tests Len() != 0 but does not pop an element on every iteration"}, false
			}
		}
	}
	// normalise so that the induction expression is on the left
	type side struct {
		phi  *ssa.Phi
		sign int // +1: expression grows with phi, -1: shrinks
		ok   bool
	}
	affine := func(v ssa.Value) side {
		v = stripConv(v)
		if p, ok := v.(*ssa.Phi); ok && p.Block() == l.Header {
			return side{p, +1, true}
		}
		if b, ok := v.(*ssa.BinOp); ok {
			bx, by := stripConv(b.X), stripConv(b.Y)
			px, okx := bx.(*ssa.Phi)
			py, oky := by.(*ssa.Phi)
			switch {
			case b.Op == token.ADD && okx && px.Block() == l.Header && loopInvariant(l, by):
				return side{px, +1, true}
			case b.Op == token.ADD && oky && py.Block() == l.Header && loopInvariant(l, bx):
				return side{py, +1, true}
			case b.Op == token.SUB && okx && px.Block() == l.Header && loopInvariant(l, by):
				return side{px, +1, true}
			case b.Op == token.SUB && oky && py.Block() == l.Header && loopInvariant(l, bx):
				return side{py, -1, true} // A - p
			}
		}
		return side{}
	}
	lx, ly := affine(x), affine(y)
	// two-pointer
	if lx.ok && ly.ok && (op == token.LSS || op == token.LEQ) {
		sx, sy := stepOf(l, lx.phi), stepOf(l, ly.phi)
		if sx.ok && sy.ok && sx.isK && sy.isK && !sx.neg && sx.konst > 0 && sy.neg && sy.konst > 0 {
			return loopClass{"T2p", true, "two-pointer loop: left grows, right shrinks, stays while left < right"}, true
		}
		// the same with one counter and the mirror index computed: i < A - i, i growing by a positive constant
		if lx.phi == ly.phi && lx.sign > 0 && ly.sign < 0 && sx.ok && sx.isK && !sx.neg && sx.konst > 0 {
			return loopClass{"T2p", true, "stays while i < A - i with i growing by a positive constant: the difference shrinks on every iteration"}, true
		}
	}
	var s side
	var bound ssa.Value
	switch {
	case lx.ok && loopInvariant(l, y):
		s, bound = lx, y
	case ly.ok && loopInvariant(l, x):
		s, bound = ly, x
		op = swapOp(op)
	default:
		return loopClass{Why: "exit test does not compare an affine expression of an induction variable with a loop-invariant bound"}, false
	}
	_ = bound
	st := stepOf(l, s.phi)
	if !st.ok {
		return loopClass{Why: "the induction variable is not advanced by a loop-invariant step on every iteration"}, false
	}
	// direction in which the left expression moves per iteration
	dir := s.sign
	if st.neg {
		dir = -dir
	}
	var positive bool
	if st.isK {
		if st.konst == 0 {
			return loopClass{Why: "zero step"}, false
		}
		if st.konst < 0 {
			dir = -dir
		}
		positive = true
	} else {
		positive = positiveInLoop(l, st.val)
	}
	if !positive {
		return loopClass{Why: fmt.Sprintf("the step %s of the induction variable is not provably > 0 (a zero or negative step loops forever)", st.val.Name())}, false
	}
	// the stay-condition must be bounded in the direction of movement
	switch op {
	case token.LSS, token.LEQ:
		if dir > 0 {
			return loopClass{"T2", true, "induction expression increases by a positive step towards an invariant upper bound"}, true
		}
	case token.GTR, token.GEQ:
		if dir < 0 {
			return loopClass{"T2", true, "induction expression decreases by a positive step towards an invariant lower bound"}, true
		}
	}
	return loopClass{Why: "the induction variable moves away from the bound of the exit test"}, false
}

// renderPathFunctions: module functions reachable from the render closure, render, flush, the
// heap loop and the Write closure.
func (w *World) renderPathFunctions(r *Report) []*ssa.Function {
	var roots []*ssa.Function
	for _, f := range []*ssa.Function{w.renderClosure(), w.renderFn(), w.flushFn(), w.heapLoop()} {
		if f != nil {
			roots = append(roots, f)
		}
	}
	if clo, _ := w.apiClosure(r, "mpb.(*Progress).Write"); clo != nil {
		roots = append(roots, clo)
	}
	reach := w.reachNoGo(roots)
	// goroutines spawned on the render path (distributor, renderer)
	changed := true
	for changed {
		changed = false
		for fn := range reach {
			if !w.modSet[fn] {
				continue
			}
			for _, b := range fn.Blocks {
				for _, in := range b.Instrs {
					if g, ok := in.(*ssa.Go); ok {
						for _, t := range w.goTargets(g) {
							if !reach[t] {
								for f := range w.reachNoGo([]*ssa.Function{t}) {
									if !reach[f] {
										reach[f] = true
										changed = true
									}
								}
							}
						}
					}
				}
			}
		}
	}
	var out []*ssa.Function
	for fn := range reach {
		if w.modSet[fn] {
			out = append(out, fn)
		}
	}
	sort.Slice(out, func(i, j int) bool { return fnShort(out[i]) < fnShort(out[j]) })
	return out
}

// ruleTermination (C07a).
func ruleTermination(w *World, r *Report, pfx string) {
	rule := pfx + ".T-LOOP"
	fns := w.renderPathFunctions(r)
	r.Inv[pfx+".render_path_functions"] = len(fns)
	nLoops := 0
	counts := map[string]int{}
	for _, fn := range fns {
		loops := naturalLoops(fn)
		perFn := map[string]int{}
		for _, l := range loops {
			nLoops++
			c := w.classifyLoop(fn, l)
			counts[c.Class]++
			// construct key: function + what the loop does (ordinal among loops of the same class in this function)
			perFn[c.Class]++
			key := fmt.Sprintf("loop@%s#%s%d", fnShort(fn), c.Class, perFn[c.Class])
			pos := w.instrPos(l.Header.Instrs[len(l.Header.Instrs)-1])
			if c.OK {
				if c.Class == "CH" {
					r.HoldsTrivial(rule, key, pos, c.Why)
				} else {
					r.Holds(rule, key, pos, c.Class+": "+c.Why)
				}
			} else {
				r.Violated(rule, key, pos, "no ranking argument: "+c.Why)
			}
		}
	}
	r.Inv[pfx+".loops"] = counts
	r.Floor(rule, 20, "natural loops on the render/heap path")
	// recursion: only unwrap
	unwrap := w.Func("mpb.unwrap")
	set := map[*ssa.Function]bool{}
	for _, f := range fns {
		set[f] = true
	}
	for _, f := range fns {
		// f reaches itself?
		for _, b := range f.Blocks {
			for _, in := range b.Instrs {
				site, ok := in.(ssa.CallInstruction)
				if !ok {
					continue
				}
				for _, c := range w.Callees(site) {
					if !set[c] {
						continue
					}
					if w.reachNoGo([]*ssa.Function{c})[f] {
						if site.Common().StaticCallee() != nil && !w.staticReach(c)[f] {
							// the cycle closes only through a dynamic call on a wrapped value
							r.Holds(rule+"r", "recursion "+fnShort(f)+" -> "+fnShort(c), w.instrPos(in), "T4: the cycle closes only through a dynamic call on a wrapped value (delegation); nesting is finite by data")
							continue
						}
						if f == unwrap && c == unwrap {
							r.Holds(rule+"r", "recursion "+fnShort(f), w.instrPos(in), "T4: recursion through Wrapper.Unwrap only, finite by data")
						} else if site.Common().StaticCallee() == nil {
							r.Holds(rule+"r", "recursion "+fnShort(f)+" -> "+fnShort(c), w.instrPos(in), "T4: recursion only through a dynamic call on a wrapped value (decorator/filler/moving-average delegation); each wrapper holds a previously built value, so nesting is finite by data")
						} else {
							r.Violated(rule+"r", "recursion "+fnShort(f)+" -> "+fnShort(c), w.instrPos(in), "recursion on the render path without a ranking argument")
						}
					}
				}
			}
		}
	}
}

// ---------------------------------------------------------------------------------------------
// index coverage: does a loop visit every index of a slice exactly once, and in which direction?

// lin is a*LEN + b*P + c where LEN = len(the slice) and P = the loop's header phi.
type lin struct {
	a, b, c int64
	ok      bool
}

func (w *World) linOf(v ssa.Value, phi *ssa.Phi, slice ssa.Value, depth int) lin {
	if depth > 8 {
		return lin{}
	}
	v = stripConv(v)
	if v == ssa.Value(phi) {
		return lin{0, 1, 0, true}
	}
	if k, ok := constInt(v); ok {
		return lin{0, 0, k, true}
	}
	if c, ok := v.(*ssa.Call); ok && isBuiltinCall(&c.Call, "len") && w.sameSource(c.Call.Args[0], slice) {
		return lin{1, 0, 0, true}
	}
	if b, ok := v.(*ssa.BinOp); ok && (b.Op == token.ADD || b.Op == token.SUB) {
		x, y := w.linOf(b.X, phi, slice, depth+1), w.linOf(b.Y, phi, slice, depth+1)
		if !x.ok || !y.ok {
			return lin{}
		}
		if b.Op == token.ADD {
			return lin{x.a + y.a, x.b + y.b, x.c + y.c, true}
		}
		return lin{x.a - y.a, x.b - y.b, x.c - y.c, true}
	}
	return lin{}
}

type indexWalk struct {
	OK        bool
	Ascending bool // the index grows from iteration to iteration
	CoversAll bool // every index 0..len-1 exactly once
	Why       string
}

// loopIndexWalk analyses how loop l indexes `slice` (IndexAddr / Index on a value with the same source).
func (w *World) loopIndexWalk(l *loopInfo, slice ssa.Value) indexWalk {
	// the controlling test: executed every iteration, one successor outside
	var phi *ssa.Phi
	var condLin, boundLin lin
	var op token.Token
	found := false
	for b := range l.Blocks {
		ifi, ok := b.Instrs[len(b.Instrs)-1].(*ssa.If)
		if !ok || !dominatesAllLatches(l, b) || l.Blocks[b.Succs[0]] == l.Blocks[b.Succs[1]] {
			continue
		}
		bin, ok := ifi.Cond.(*ssa.BinOp)
		if !ok {
			continue
		}
		for _, in := range l.Header.Instrs {
			p, ok := in.(*ssa.Phi)
			if !ok {
				continue
			}
			cx, cy := w.linOf(bin.X, p, slice, 0), w.linOf(bin.Y, p, slice, 0)
			if cx.ok && cy.ok && (cx.b != 0) != (cy.b != 0) {
				o := bin.Op
				if !l.Blocks[b.Succs[0]] {
					o = negOp(o)
				}
				if cx.b != 0 {
					phi, condLin, boundLin, op = p, cx, cy, o
				} else {
					phi, condLin, boundLin, op = p, cy, cx, swapOp(o)
				}
				found = true
			}
		}
	}
	if !found {
		return indexWalk{Why: "no counting test over the slice's length"}
	}
	st := stepOf(l, phi)
	if !st.ok || !st.isK || (st.konst != 1 && st.konst != -1) || (condLin.b != 1 && condLin.b != -1) {
		return indexWalk{Why: "the loop variable does not advance by one"}
	}
	step := st.konst
	if st.neg {
		step = -step
	}
	// start value of phi
	var start lin
	for i, e := range phi.Edges {
		if !l.Blocks[l.Header.Preds[i]] {
			start = w.linOf(e, phi, slice, 0)
		}
	}
	if !start.ok || start.b != 0 {
		return indexWalk{Why: "start value is not a function of the slice length"}
	}
	// last phi value for which the stay-condition condLin(phi) op boundLin holds
	// condLin(phi) = a*LEN + b*phi + c ; solve for phi at the boundary
	// target value T of condLin: LSS -> bound-1, LEQ -> bound, GTR -> bound+1, GEQ -> bound
	T := boundLin
	switch op {
	case token.LSS:
		T.c--
	case token.GTR:
		T.c++
	case token.LEQ, token.GEQ:
	default:
		return indexWalk{Why: "unsupported loop test"}
	}
	// direction consistency: condLin moves by b*step per iteration; must move towards the bound
	move := condLin.b * step
	if ((op == token.LSS || op == token.LEQ) && move <= 0) || ((op == token.GTR || op == token.GEQ) && move >= 0) {
		return indexWalk{Why: "loop variable moves away from its bound"}
	}
	// phi_last = (T - a*LEN - c) / b   (b = +-1)
	last := lin{(T.a - condLin.a) * condLin.b, 0, (T.c - condLin.c) * condLin.b, true}
	// the index expression
	var idx lin
	nIdx := 0
	for b := range l.Blocks {
		for _, in := range b.Instrs {
			var x, index ssa.Value
			switch ia := in.(type) {
			case *ssa.IndexAddr:
				x, index = ia.X, ia.Index
			case *ssa.Index:
				x, index = ia.X, ia.Index
			default:
				continue
			}
			if !w.sameSource(x, slice) {
				continue
			}
			e := w.linOf(index, phi, slice, 0)
			if !e.ok {
				return indexWalk{Why: "index expression is not affine in the loop variable"}
			}
			if nIdx > 0 && e != idx {
				return indexWalk{Why: "the slice is indexed by two different expressions"}
			}
			idx = e
			nIdx++
		}
	}
	if nIdx == 0 || (idx.b != 1 && idx.b != -1) {
		return indexWalk{Why: "the loop does not index the slice with its loop variable"}
	}
	eval := func(p lin) lin { // idx at phi = p
		return lin{idx.a + idx.b*p.a, 0, idx.c + idx.b*p.c, true}
	}
	first, lastI := eval(start), eval(last)
	isZero := func(x lin) bool { return x.a == 0 && x.c == 0 }
	isTop := func(x lin) bool { return x.a == 1 && x.c == -1 }
	out := indexWalk{OK: true, Ascending: idx.b*step > 0}
	out.CoversAll = (isZero(first) && isTop(lastI)) || (isTop(first) && isZero(lastI))
	return out
}

// staticReach: functions reachable from fn through static calls only.
func (w *World) staticReach(fn *ssa.Function) map[*ssa.Function]bool {
	seen := map[*ssa.Function]bool{}
	stack := []*ssa.Function{fn}
	for len(stack) > 0 {
		f := stack[len(stack)-1]
		stack = stack[:len(stack)-1]
		if seen[f] || f.Blocks == nil {
			continue
		}
		seen[f] = true
		for _, b := range f.Blocks {
			for _, in := range b.Instrs {
				if ci, ok := in.(ssa.CallInstruction); ok {
					if _, isGo := in.(*ssa.Go); isGo {
						continue
					}
					if sc := ci.Common().StaticCallee(); sc != nil && !seen[sc] {
						stack = append(stack, sc)
					}
				}
			}
		}
	}
	return seen
}

// sameLocalField: a and b are two loads of the same field of the same local struct variable that
// is never written field-wise (e.g. a value receiver read twice: `if c.width <= 0 {...}; for ... += c.width`).
func sameLocalField(a, b ssa.Value) bool {
	la, ok1 := a.(*ssa.UnOp)
	lb, ok2 := b.(*ssa.UnOp)
	if !ok1 || !ok2 || la.Op != token.MUL || lb.Op != token.MUL {
		return false
	}
	fa, ok1 := la.X.(*ssa.FieldAddr)
	fb, ok2 := lb.X.(*ssa.FieldAddr)
	if !ok1 || !ok2 || fa.Field != fb.Field || fa.X != fb.X {
		return false
	}
	al, ok := fa.X.(*ssa.Alloc)
	if !ok || !localStruct(al) {
		return false
	}
	for _, ref := range *al.Referrers() {
		if f, ok := ref.(*ssa.FieldAddr); ok && f.Referrers() != nil {
			for _, r2 := range *f.Referrers() {
				if _, isSt := r2.(*ssa.Store); isSt {
					return false
				}
			}
		}
	}
	return true
}
