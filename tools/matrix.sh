#!/bin/bash
# usage: matrix.sh <seed-dir-root> [props...]   prints, per seeded change, which checks report it
root=${1:-/verif/seeded}; shift
props=${@:-$(/verif/bin/mpbcheck list)}
wt=${WT:-/tmp/mutwt}
[ -d $wt ] || git -C /repo worktree add --detach $wt HEAD -q
for d in $(ls -d $root/*/ | sort); do
  m=$(basename $d)
  [ -f $d/patch.diff ] || continue
  scratch=$(mktemp -d /tmp/mutverif.XXXX); cp /verif/known_findings.json $scratch/
  git -C $wt checkout -q -- . && git -C $wt apply $d/patch.diff || { echo "$m APPLY-FAILED"; continue; }
  hits=""
  for p in $props; do
    /verif/bin/mpbcheck -repo $wt -verif $scratch $p >/dev/null 2>&1; rc=$?
    [ $rc = 1 ] && hits="$hits $p"
    [ $rc = 2 ] && hits="$hits $p(BROKEN)"
  done
  echo "$m:${hits:- MISSED}"
  git -C $wt checkout -q -- .; rm -rf $scratch
done
