#!/usr/bin/env python3
"""usage: ingest_benign.py <agent-dir> <id> <round>   e.g. /tmp/b6/1/3 X1-3 6
Confirms a behaviour-preserving patch (applies, builds, suite passes plain and -race) in a scratch copy, runs
every check on it, and stores it under /verif/benign/<id>/ . Prints SILENT or the alarms."""
import json, os, shutil, subprocess, sys, tempfile
src, bid, rnd = sys.argv[1], sys.argv[2], int(sys.argv[3])
notes = json.load(open(f"{src}/notes.json"))
env = dict(os.environ, GOFLAGS="-mod=mod", GOPROXY="off", GOSUMDB="off", GOTOOLCHAIN="local"); env.pop("GOWORK", None)
tmp = tempfile.mkdtemp(prefix="ingb.")
os.makedirs(f"{tmp}/verif"); shutil.copy("/verif/known_findings.json", f"{tmp}/verif/")
subprocess.check_call(["rsync", "-a", "--exclude", ".git", "/repo/", f"{tmp}/tree/"])
if subprocess.run(["patch", "-p1", "-s", "-i", f"{src}/patch.diff"], cwd=f"{tmp}/tree").returncode != 0:
    print(bid, "APPLY-FAILED"); shutil.rmtree(tmp); sys.exit(1)
res = ""
if "--noconfirm" not in sys.argv:
    b = subprocess.run(["go", "build", "./..."], cwd=f"{tmp}/tree", env=env, capture_output=True, text=True)
    t = subprocess.run(["go", "test", "-vet=off", "-count=1", "./..."], cwd=f"{tmp}/tree", env=env, capture_output=True, text=True)
    tr = subprocess.run(["go", "test", "-race", "-vet=off", "-count=1", "./..."], cwd=f"{tmp}/tree", env=env, capture_output=True, text=True)
    if b.returncode or t.returncode or tr.returncode:
        print(bid, "NOT-CONFIRMED build/test failed"); shutil.rmtree(tmp); sys.exit(1)
    res = "go build ok; suite ok plain and -race"
props = subprocess.run(["/verif/bin/mpbcheck", "list"], capture_output=True, text=True).stdout.split()
procs = {p: subprocess.Popen(["/verif/bin/mpbcheck", "-repo", f"{tmp}/tree", "-verif", f"{tmp}/verif", p], stdout=subprocess.PIPE, stderr=subprocess.STDOUT, text=True, env=env) for p in props}
alarms = []
for p, pr in procs.items():
    out, _ = pr.communicate()
    if pr.returncode != 0:
        for l in out.splitlines():
            if l.startswith(("VIOLATED", "UNDECIDED", "UNRESOLVED", "BROKEN", "panic")):
                alarms.append(f"{p}: {l[:260]}")
shutil.rmtree(tmp)
dst = f"/verif/benign/{bid}"; os.makedirs(dst, exist_ok=True)
shutil.copy(f"{src}/patch.diff", f"{dst}/patch.diff")
json.dump({"id": bid, "round": rnd, "kind": notes.get("kind", ""), "summary": notes.get("summary", ""), "files": notes.get("files", []),
 "origin": "independent sub-agent given only its own scratch worktree of /repo and the instruction to produce strictly behaviour-preserving refactorings (no access to /verif)",
 "confirmed": {"how": "applied to a scratch copy of /repo; go build; existing suite plain and -race", "result": res},
 "expected": "silent: every check exits 0 with this patch applied"}, open(f"{dst}/meta.json", "w"), indent=1)
if alarms:
    print(bid, "ALARM", notes.get("summary", "")[:120]); [print("   ", a) for a in sorted(set(alarms))[:8]]
else:
    print(bid, "SILENT", notes.get("summary", "")[:120])
