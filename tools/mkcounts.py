#!/usr/bin/env python3
# updates the "(obligations, rules)" figures in the §4 headings of DESIGN.md from evidence/*.json (quick tier figures)
import json,re
p='/verif/DESIGN.md'
s=open(p).read()
for i in range(1,21):
    pid=f'C{i:02d}'
    ev=json.load(open(f'/verif/evidence/{pid}.json'))
    cov=ev.get('coverage',{})
    n,m=cov.get('obligations'),len(cov.get('obligations_per_rule',{}))
    if ev.get('tier')!='quick':
        continue
    s,k=re.subn(r'(### '+pid+r' — [^\n(]*)\((\d+), (\d+)\)', lambda mo: f"{mo.group(1)}({n}, {m})", s, count=1)
    assert k==1,pid
open(p,'w').write(s)
print('ok')
