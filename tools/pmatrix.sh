#!/bin/bash
# usage: pmatrix.sh <seed-dir-root> [props...]   parallel version of matrix.sh: every patch is applied to
# its own scratch copy of /repo's working tree (removed afterwards); prints which checks report it.
root=${1:-/verif/seeded}; shift
props=${@:-$(/verif/bin/mpbcheck list)}
export PROPS="$props"
one() {
  d=$1; m=$(basename $d)
  [ -f $d/patch.diff ] || exit 0
  tmp=$(mktemp -d /tmp/pmx.XXXXXX); mkdir $tmp/verif; cp /verif/known_findings.json $tmp/verif/
  rsync -a --exclude .git /repo/ $tmp/tree/
  if ! (cd $tmp/tree && patch -p1 -s -i $d/patch.diff >/dev/null 2>&1); then echo "$m APPLY-FAILED"; rm -rf $tmp; exit 0; fi
  hits=""
  for p in $PROPS; do
    out=$(/verif/bin/mpbcheck -repo $tmp/tree -verif $tmp/verif $p 2>&1); rc=$?
    [ $rc = 1 ] && hits="$hits $p"
    [ $rc -ge 2 ] && hits="$hits $p(BROKEN)"
  done
  echo "$m:${hits:- MISSED}"
  rm -rf $tmp
}
export -f one
ls -d $root/*/ | sort | xargs -P ${JOBS:-10} -I{} bash -c 'one {}' | sort
