// mutsweep: development aid. Enumerates small syntactic mutants of the library (condition negation,
// relational/arithmetic operator replacement, statement deletion, select-arm deletion, constant
// nudges), keeps those that still build and pass the library's own tests, and asks the checker
// (mpbcheck sweep) which properties report each survivor. Output: one line per mutant.
//
//	mutsweep -repo /repo -out /tmp/sweep -jobs 12 [-files 'bar.go,progress.go'] [-kinds neg,rel,...]
package main

import (
	"bytes"
	"context"
	"flag"
	"fmt"
	"go/ast"
	"go/parser"
	"go/token"
	"os"
	"os/exec"
	"path/filepath"
	"sort"
	"strings"
	"sync"
	"time"
)

type mutant struct {
	ID          int
	File        string
	Start, End  int
	Repl        string
	Kind        string
	Line        int
	Func        string
	Orig        string
}

func main() {
	repo := flag.String("repo", "/repo", "")
	out := flag.String("out", "/tmp/sweep", "")
	jobs := flag.Int("jobs", 12, "")
	files := flag.String("files", "", "comma list of relative files (default all non-test)")
	kinds := flag.String("kinds", "", "comma list of kinds")
	checker := flag.String("checker", "/verif/bin/mpbcheck", "")
	known := flag.String("known", "/verif/known_findings.json", "")
	listOnly := flag.Bool("list", false, "")
	flag.Parse()
	wantKind := map[string]bool{}
	for _, k := range strings.Split(*kinds, ",") {
		if k != "" {
			wantKind[k] = true
		}
	}
	var rels []string
	if *files != "" {
		rels = strings.Split(*files, ",")
	} else {
		filepath.Walk(*repo, func(p string, info os.FileInfo, err error) error {
			if err != nil {
				return nil
			}
			rel, _ := filepath.Rel(*repo, p)
			if info.IsDir() {
				if strings.HasPrefix(info.Name(), ".") && rel != "." || strings.HasPrefix(rel, "_") || info.Name() == "seed_out" || info.Name() == "vendor" {
					return filepath.SkipDir
				}
				return nil
			}
			if strings.HasSuffix(p, ".go") && !strings.HasSuffix(p, "_test.go") {
				rels = append(rels, rel)
			}
			return nil
		})
	}
	sort.Strings(rels)
	collectFields(*repo, rels)
	var muts []mutant
	for _, rel := range rels {
		src, err := os.ReadFile(filepath.Join(*repo, rel))
		if err != nil {
			continue
		}
		for _, m := range enumerate(rel, src) {
			if len(wantKind) > 0 && !wantKind[m.Kind] {
				continue
			}
			m.ID = len(muts)
			muts = append(muts, m)
		}
	}
	fmt.Fprintf(os.Stderr, "%d mutants over %d files\n", len(muts), len(rels))
	if *listOnly {
		for _, m := range muts {
			fmt.Printf("%d %s:%d %s %s %q -> %q\n", m.ID, m.File, m.Line, m.Func, m.Kind, m.Orig, m.Repl)
		}
		return
	}
	os.MkdirAll(*out, 0o755)
	ch := make(chan mutant)
	var mu sync.Mutex
	res := map[int]string{}
	var wg sync.WaitGroup
	for j := 0; j < *jobs; j++ {
		wg.Add(1)
		go func(j int) {
			defer wg.Done()
			dir := filepath.Join(*out, fmt.Sprintf("w%d", j))
			os.RemoveAll(dir)
			os.MkdirAll(filepath.Join(dir, "verif"), 0o755)
			run(nil, "", "rsync", "-a", "--exclude", ".git", *repo+"/", dir+"/tree/")
			run(nil, "", "cp", *known, filepath.Join(dir, "verif", "known_findings.json"))
			for m := range ch {
				r := evaluate(m, *repo, dir, *checker, *out)
				mu.Lock()
				res[m.ID] = r
				mu.Unlock()
				fmt.Printf("%d\t%s:%d\t%s\t%s\t%q->%q\t%s\n", m.ID, m.File, m.Line, m.Func, m.Kind, short(m.Orig), short(m.Repl), r)
			}
			os.RemoveAll(dir)
		}(j)
	}
	for _, m := range muts {
		ch <- m
	}
	close(ch)
	wg.Wait()
}

func short(s string) string {
	s = strings.Join(strings.Fields(s), " ")
	if len(s) > 60 {
		s = s[:57] + "..."
	}
	return s
}

func run(env []string, dir string, name string, args ...string) (string, error) {
	return runT(5*time.Minute, env, dir, name, args...)
}

func runT(d time.Duration, env []string, dir string, name string, args ...string) (string, error) {
	ctx, cancel := context.WithTimeout(context.Background(), d)
	defer cancel()
	c := exec.CommandContext(ctx, name, args...)
	c.Dir = dir
	c.Env = append(os.Environ(), env...)
	var b bytes.Buffer
	c.Stdout = &b
	c.Stderr = &b
	err := c.Run()
	return b.String(), err
}

var goenv = []string{"GOFLAGS=-mod=mod", "GOPROXY=off", "GOSUMDB=off", "GOTOOLCHAIN=local", "GOWORK=off"}

func evaluate(m mutant, repo, dir, checker, out string) string {
	tree := filepath.Join(dir, "tree")
	path := filepath.Join(tree, m.File)
	orig, _ := os.ReadFile(filepath.Join(repo, m.File))
	mutated := append(append(append([]byte{}, orig[:m.Start]...), m.Repl...), orig[m.End:]...)
	os.WriteFile(path, mutated, 0o644)
	defer os.WriteFile(path, orig, 0o644)
	if o, err := run(goenv, tree, "go", "build", "./..."); err != nil {
		_ = o
		return "NOBUILD"
	}
	if _, err := runT(3*time.Minute, goenv, tree, "go", "test", "-vet=off", "-count=1", "-timeout", "60s", "./..."); err != nil {
		return "TESTFAIL"
	}
	o, err := run(goenv, tree, checker, "-repo", tree, "-verif", filepath.Join(dir, "verif"), "sweep")
	// keep the patch of every survivor
	pd := filepath.Join(out, "mut", fmt.Sprintf("%05d", m.ID))
	os.MkdirAll(pd, 0o755)
	diff, _ := run(nil, "", "diff", "-u", "--label", "a/"+m.File, "--label", "b/"+m.File, filepath.Join(repo, m.File), path)
	os.WriteFile(filepath.Join(pd, "patch.diff"), []byte(diff), 0o644)
	if err == nil {
		return "SURVIVED-ALL"
	}
	var ids []string
	for _, l := range strings.Split(o, "\n") {
		if i := strings.Index(l, ": "); i > 0 && strings.HasPrefix(l, "C") {
			ids = append(ids, l[:i])
		}
	}
	if len(ids) == 0 {
		return "CHECKER-ERROR " + short(o)
	}
	return "CAUGHT " + strings.Join(ids, ",")
}

// structFields: package dir -> field name -> list of (struct, type text); filled by collectFields.
type fieldInfo struct{ Struct, Type string }

var structFields = map[string]map[string][]fieldInfo{}
var structMembers = map[string]map[string][]string{} // dir -> struct|type -> field names

func collectFields(repo string, rels []string) {
	for _, rel := range rels {
		dir := filepath.Dir(rel)
		src, err := os.ReadFile(filepath.Join(repo, rel))
		if err != nil {
			continue
		}
		fset := token.NewFileSet()
		f, err := parser.ParseFile(fset, rel, src, 0)
		if err != nil {
			continue
		}
		if structFields[dir] == nil {
			structFields[dir] = map[string][]fieldInfo{}
			structMembers[dir] = map[string][]string{}
		}
		ast.Inspect(f, func(n ast.Node) bool {
			ts, ok := n.(*ast.TypeSpec)
			if !ok {
				return true
			}
			st, ok := ts.Type.(*ast.StructType)
			if !ok {
				return true
			}
			for _, fl := range st.Fields.List {
				tt := string(src[fset.Position(fl.Type.Pos()).Offset:fset.Position(fl.Type.End()).Offset])
				for _, nm := range fl.Names {
					structFields[dir][nm.Name] = append(structFields[dir][nm.Name], fieldInfo{ts.Name.Name, tt})
					k := ts.Name.Name + "|" + tt
					structMembers[dir][k] = append(structMembers[dir][k], nm.Name)
				}
			}
			return true
		})
	}
}

func enumerate(rel string, src []byte) []mutant {
	fset := token.NewFileSet()
	f, err := parser.ParseFile(fset, rel, src, parser.ParseComments)
	if err != nil {
		return nil
	}
	pkgdir := filepath.Dir(rel)
	off := func(p token.Pos) int { return fset.Position(p).Offset }
	var out []mutant
	add := func(n ast.Node, start, end token.Pos, repl, kind, fn string) {
		out = append(out, mutant{File: rel, Start: off(start), End: off(end), Repl: repl, Kind: kind, Line: fset.Position(n.Pos()).Line, Func: fn, Orig: string(src[off(start):off(end)])})
	}
	relOps := map[token.Token][]string{
		token.LSS: {"<=", ">="}, token.LEQ: {"<", ">"}, token.GTR: {">=", "<="}, token.GEQ: {">", "<"},
		token.EQL: {"!="}, token.NEQ: {"=="},
		token.LAND: {"||"}, token.LOR: {"&&"},
	}
	arOps := map[token.Token][]string{
		token.ADD: {"-"}, token.SUB: {"+"}, token.MUL: {"/"}, token.QUO: {"*"}, token.REM: {"/"},
		token.AND: {"|"}, token.OR: {"&"}, token.SHL: {">>"}, token.SHR: {"<<"},
	}
	asgOps := map[token.Token]string{token.ADD_ASSIGN: "-=", token.SUB_ASSIGN: "+=", token.OR_ASSIGN: "&=", token.AND_ASSIGN: "|="}
	for _, d := range f.Decls {
		fd, ok := d.(*ast.FuncDecl)
		if !ok || fd.Body == nil {
			continue
		}
		fn := fd.Name.Name
		if fd.Recv != nil && len(fd.Recv.List) > 0 {
			t := fd.Recv.List[0].Type
			if s, ok := t.(*ast.StarExpr); ok {
				t = s.X
			}
			if ix, ok := t.(*ast.IndexExpr); ok {
				t = ix.X
			}
			if id, ok := t.(*ast.Ident); ok {
				fn = id.Name + "." + fn
			}
		}
		sib := map[string][]string{}
		groups := func(ft *ast.FuncType) {
			if ft == nil || ft.Params == nil {
				return
			}
			byType := map[string][]string{}
			for _, fl := range ft.Params.List {
				tt := string(src[off(fl.Type.Pos()):off(fl.Type.End())])
				for _, nm := range fl.Names {
					if nm.Name != "_" {
						byType[tt] = append(byType[tt], nm.Name)
					}
				}
			}
			for _, names := range byType {
				for _, a := range names {
					for _, b := range names {
						if a != b {
							sib[a] = append(sib[a], b)
						}
					}
				}
			}
		}
		groups(fd.Type)
		ast.Inspect(fd.Body, func(n ast.Node) bool {
			if fl, ok := n.(*ast.FuncLit); ok {
				groups(fl.Type)
			}
			return true
		})
		var stack []ast.Node
		ast.Inspect(fd.Body, func(n ast.Node) bool {
			if n == nil {
				stack = stack[:len(stack)-1]
				return true
			}
			var parent ast.Node
			if len(stack) > 0 {
				parent = stack[len(stack)-1]
			}
			stack = append(stack, n)
			switch x := n.(type) {
			case *ast.IfStmt:
				add(x, x.Cond.Pos(), x.Cond.End(), "!("+string(src[off(x.Cond.Pos()):off(x.Cond.End())])+")", "neg", fn)
				add(x, x.Cond.Pos(), x.Cond.End(), "true", "condtrue", fn)
				add(x, x.Cond.Pos(), x.Cond.End(), "false", "condfalse", fn)
			case *ast.ForStmt:
				if x.Cond != nil {
					add(x, x.Cond.Pos(), x.Cond.End(), "!("+string(src[off(x.Cond.Pos()):off(x.Cond.End())])+")", "neg", fn)
				}
			case *ast.BinaryExpr:
				for _, r := range relOps[x.Op] {
					add(x, x.OpPos, x.OpPos+token.Pos(len(x.Op.String())), r, "rel", fn)
				}
				for _, r := range arOps[x.Op] {
					add(x, x.OpPos, x.OpPos+token.Pos(len(x.Op.String())), r, "arith", fn)
				}
			case *ast.UnaryExpr:
				if x.Op == token.NOT {
					add(x, x.OpPos, x.OpPos+1, "", "unnot", fn)
				}
				if x.Op == token.SUB {
					add(x, x.OpPos, x.OpPos+1, "", "unneg", fn)
				}
			case *ast.BasicLit:
				if x.Kind == token.INT {
					switch x.Value {
					case "0":
						add(x, x.Pos(), x.End(), "1", "const", fn)
					case "1":
						add(x, x.Pos(), x.End(), "0", "const", fn)
						add(x, x.Pos(), x.End(), "2", "const", fn)
					case "2":
						add(x, x.Pos(), x.End(), "1", "const", fn)
						add(x, x.Pos(), x.End(), "3", "const", fn)
					}
				}
			case *ast.Ident:
				if sel, ok := parent.(*ast.SelectorExpr); !(ok && sel.Sel == x) {
					if kv, ok := parent.(*ast.KeyValueExpr); !(ok && kv.Key == n) {
						for _, b := range sib[x.Name] {
							add(x, x.Pos(), x.End(), b, "paramswap", fn)
						}
					}
				}
				if x.Name == "true" {
					add(x, x.Pos(), x.End(), "false", "bool", fn)
				} else if x.Name == "false" {
					add(x, x.Pos(), x.End(), "true", "bool", fn)
				}
			case *ast.ExprStmt, *ast.IncDecStmt, *ast.SendStmt, *ast.GoStmt, *ast.DeferStmt:
				if _, ok := parent.(*ast.BlockStmt); ok || isClause(parent) {
					add(x, x.Pos(), x.End(), "{}", "del", fn)
				}
				if id, ok := n.(*ast.IncDecStmt); ok {
					r := "--"
					if id.Tok == token.DEC {
						r = "++"
					}
					add(x, id.TokPos, id.TokPos+2, r, "incdec", fn)
				}
				if gs, ok := n.(*ast.GoStmt); ok {
					add(x, gs.Go, gs.Go+token.Pos(len("go")), "", "ungo", fn)
				}
				if ds, ok := n.(*ast.DeferStmt); ok {
					// run immediately instead of deferred
					add(x, ds.Defer, ds.Defer+token.Pos(len("defer")), "", "undefer", fn)
				}
			case *ast.AssignStmt:
				if _, ok := parent.(*ast.BlockStmt); ok || isClause(parent) {
					if x.Tok != token.DEFINE {
						add(x, x.Pos(), x.End(), "{}", "del", fn)
					}
				}
				if r, ok := asgOps[x.Tok]; ok {
					add(x, x.TokPos, x.TokPos+token.Pos(len(x.Tok.String())), r, "asgop", fn)
				}
			case *ast.ReturnStmt:
				if len(x.Results) == 0 {
					add(x, x.Pos(), x.End(), "{}", "delreturn", fn)
				}
				for _, r := range x.Results {
					if id, ok := r.(*ast.Ident); ok && (id.Name == "err" || strings.HasSuffix(id.Name, "Err")) && len(x.Results) > 0 {
						add(x, id.Pos(), id.End(), "nil", "errnil", fn)
					}
				}
			case *ast.SelectorExpr:
				// x.f -> x.g for every other field g of the same struct with the same declared type
				if _, isCallFun := parent.(*ast.CallExpr); !(isCallFun && parent.(*ast.CallExpr).Fun == n) {
					seen := map[string]bool{}
					for _, fi := range structFields[pkgdir][x.Sel.Name] {
						for _, g := range structMembers[pkgdir][fi.Struct+"|"+fi.Type] {
							if g != x.Sel.Name && !seen[g] {
								seen[g] = true
								add(x, x.Sel.Pos(), x.Sel.End(), g, "fieldswap", fn)
							}
						}
					}
				}
			case *ast.CallExpr:
				for i := 0; i+1 < len(x.Args); i++ {
					a, b := x.Args[i], x.Args[i+1]
					ta := string(src[off(a.Pos()):off(a.End())])
					mid := string(src[off(a.End()):off(b.Pos())])
					tb := string(src[off(b.Pos()):off(b.End())])
					if ta != tb {
						add(x, a.Pos(), b.End(), tb+mid+ta, "argswap", fn)
					}
				}
			case *ast.BranchStmt:
				if x.Label == nil {
					switch x.Tok {
					case token.BREAK:
						add(x, x.Pos(), x.End(), "continue", "branch", fn)
						add(x, x.Pos(), x.End(), "{}", "branch", fn)
					case token.CONTINUE:
						add(x, x.Pos(), x.End(), "break", "branch", fn)
						add(x, x.Pos(), x.End(), "{}", "branch", fn)
					}
				}
			case *ast.CommClause:
				if x.Comm != nil {
					// delete the whole arm
					add(x, x.Pos(), x.End(), "", "delarm", fn)
				} else {
					add(x, x.Pos(), x.End(), "", "deldefault", fn)
				}
				if len(x.Body) > 0 {
					add(x, x.Body[0].Pos(), x.Body[len(x.Body)-1].End(), "", "emptyarm", fn)
				}
			case *ast.CaseClause:
				if len(x.Body) > 0 {
					add(x, x.Body[0].Pos(), x.Body[len(x.Body)-1].End(), "", "emptycase", fn)
				}
			case *ast.BlockStmt:
				if is, ok := parent.(*ast.IfStmt); ok && is.Else == n && len(x.List) > 0 {
					add(x, x.Pos(), x.End(), "{}", "emptyelse", fn)
				}
			}
			// adjacent statements exchanged (ordering mutants)
			var list []ast.Stmt
			switch x := n.(type) {
			case *ast.BlockStmt:
				list = x.List
			case *ast.CaseClause:
				list = x.Body
			case *ast.CommClause:
				list = x.Body
			}
			movable := func(st ast.Stmt) bool {
				switch y := st.(type) {
				case *ast.ExprStmt, *ast.IncDecStmt, *ast.SendStmt, *ast.GoStmt, *ast.DeferStmt, *ast.IfStmt, *ast.ForStmt, *ast.RangeStmt, *ast.SelectStmt, *ast.SwitchStmt:
					return true
				case *ast.AssignStmt:
					return y.Tok != token.DEFINE
				}
				return false
			}
			for i := 0; i+1 < len(list); i++ {
				a, b := list[i], list[i+1]
				if !movable(a) || !movable(b) {
					continue
				}
				ta := string(src[off(a.Pos()):off(a.End())])
				mid := string(src[off(a.End()):off(b.Pos())])
				tb := string(src[off(b.Pos()):off(b.End())])
				add(a, a.Pos(), b.End(), tb+mid+ta, "swap", fn)
			}
			return true
		})
	}
	return out
}

func isClause(n ast.Node) bool {
	switch n.(type) {
	case *ast.CaseClause, *ast.CommClause:
		return true
	}
	return false
}
