module mutsweep

go 1.23
