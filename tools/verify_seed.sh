#!/bin/bash
# usage: verify_seed.sh <seed-dir>   (patch.diff, demo_test.go, meta.json)
# Confirms in the scratch worktree /tmp/mutwt: patch applies, library builds, the existing suite passes with it,
# the demonstration fails with it and passes without it. Prints one summary line.
d=$1; m=$(basename $d); wt=/tmp/mutwt
export GOFLAGS=-mod=mod GOPROXY=off GOSUMDB=off GOTOOLCHAIN=local; unset GOWORK
[ -d $wt ] || git -C /repo worktree add --detach $wt HEAD -q
cd $wt && git checkout -q -- . && git clean -fdq
demo=$(ls $d/demo*_test.go $d/demo_test.go.txt 2>/dev/null | head -1)
[ -n "$demo" ] || { echo "$m NO-DEMO"; exit 1; }
pkgclause=$(grep -m1 '^package ' $demo | awk '{print $2}')
case $pkgclause in decor|decor_test) sub=decor;; cwriter|cwriter_test) sub=cwriter;; internal|internal_test) sub=internal;; *) sub=.;; esac
tests=$(grep -oE '^func (Test[A-Za-z0-9_]+)' $demo | awk '{print $2}' | paste -sd'|')
git apply $d/patch.diff || { echo "$m APPLY-FAILED"; exit 1; }
go build ./... >/dev/null 2>&1 || { echo "$m BUILD-FAILED"; git checkout -q -- .; exit 1; }
suite=$(go test -vet=off -count=1 ./... 2>&1 | grep -c '^ok\|no test files')
suitefail=$(go test -vet=off -count=1 ./... 2>&1 | grep -c '^FAIL\|^---')
cp $demo $sub/zz_seed_demo_test.go
race=${SEED_RACE:+-race}
with=$(timeout 300 go test $race -vet=off -count=1 -run "^($tests)\$" ./$sub 2>&1 | tail -1)
git checkout -q -- .
without=$(timeout 300 go test $race -vet=off -count=1 -run "^($tests)\$" ./$sub 2>&1 | tail -1)
rm -f $sub/zz_seed_demo_test.go
echo "$m suite_ok_pkgs=$suite suite_fail_lines=$suitefail | with: $with | without: $without"
