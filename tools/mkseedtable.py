#!/usr/bin/env python3
# regenerates the seed table of DESIGN.md §8 from /verif/seeded/*/meta.json
import json,os,re
root='/verif/seeded'
rows=[]
def key(n):
    m=re.match(r'C(\d\d)(?:r(\d))?-(.*)',n)
    if m: return (0,int(m.group(1)),int(m.group(2) or 1),m.group(3))
    return (1,0,0,n)
for d in sorted(os.listdir(root),key=key):
    mp=os.path.join(root,d,'meta.json')
    if not os.path.exists(mp): continue
    m=json.load(open(mp))
    summ=(m.get('summary') or '').replace('|','/').replace('\n',' ')
    rows.append(f"| {d} | {summ[:140]} | {' '.join(m.get('caught_by',[]))} |")
p='/verif/DESIGN.md'
s=open(p).read()
a=s.index('| seed | change (one line) | reported by |')
b=s.index('## 9. Interface')
s=s[:a]+'| seed | change (one line) | reported by |\n|---|---|---|\n'+'\n'.join(rows)+'\n\n\n'+s[b:]
open(p,'w').write(s)
print(len(rows),'rows')
