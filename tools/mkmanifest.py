#!/usr/bin/env python3
"""Regenerates /verif/MANIFEST.json from the table below (claimed checks) and properties.jsonl."""
import json, os
V = os.path.dirname(os.path.dirname(os.path.abspath(__file__)))
props = [json.loads(l) for l in open(os.path.join(V, 'properties.jsonl'))]

NOTE = ("Trusted base: go/types, go/ssa (x/tools v0.29.0), VTA call graph with CHA fallback for client round-trip types, Go channel/WaitGroup semantics. "
        "Decides necessary structural conditions on every path of the code; not the behavioural statement as a whole. ")

# id -> (technique, level text, level note, design ref)
CLAIMED = {
 "C09": ("path-sensitive guarded-effect analysis over SSA (custom checker, go/ssa)",
         "Every public bar operation's transition rule is decided on all paths of the closure it sends to the bar goroutine (clamp-and-trigger after every write of current, SetTotal/EnableTriggerComplete/Abort/SetRefill guards and effects, completion predicate, constructor flag, getters, shorthands). Sound for the per-operation rules on all inputs; sequences follow by induction, not by replay.",
         NOTE + "Assumes one operation at a time per bar (C10). Equality with a reference model over sequences is argued per operation, not executed.", "DESIGN.md §4 C09"),
}
PENDING_REASON = "check not built yet (DESIGN.md §7: a property is claimed only once its rules are built and silent on the repaired tree)"
NA = {}

m = {
 "version": 1,
 "setup_cmd": "cd /verif/checker && GOFLAGS=-mod=vendor GOPROXY=off GOSUMDB=off GOTOOLCHAIN=local go build -o /verif/bin/mpbcheck .",
 "hooks": {"guard": "verif", "enable": "none needed: the checks analyse /repo's sources statically; no hooks or instrumentation exist in /repo",
           "baseline_off_cmd": "cd /repo && GOFLAGS=-mod=mod GOPROXY=off GOSUMDB=off go test -vet=off -count=1 -timeout 25m ./...",
           "source_commits": [], "add_only": True},
 "engines": [{"name": "mpbcheck", "path": "checker/", "serves_properties": sorted(CLAIMED),
              "kind_free_text": "repository-specific static analyser: go/packages + go/ssa + VTA/CHA call graph; engines: communication shape (channel classes), roles/confinement, guarded effects per path, loop termination, arithmetic safety, wrapper transparency, table agreement"}],
 "checks": [],
 "notes": "Static analysis only: every check loads /repo's current working tree (type-checked, SSA) on every run and reports constructs; nothing of mpb is executed. exit 0 = all obligations hold (KNOWN-FINDING lines for recorded open findings), exit 1 = VIOLATION lines, exit 2 = checker broken. See DESIGN.md.",
 "not_applicable": [],
}
for p in props:
    i = p["id"]
    if i in CLAIMED:
        tech, text, note, ref = CLAIMED[i]
        m["checks"].append({"property_id": i, "quick_cmd": f"./check.sh {i} quick", "thorough_cmd": f"./check.sh {i} thorough",
            "evidence_file": f"/verif/evidence/{i}.json", "replay_cmd_template": "./bin/mpbcheck explain {path}", "engine": "mpbcheck",
            "level_claimed": {"category": "other", "text": text, "design_ref": ref}, "level_note": note, "technique": tech})
    else:
        m["not_applicable"].append({"property_id": i, "reason": NA.get(i, PENDING_REASON)})
json.dump(m, open(os.path.join(V, 'MANIFEST.json'), 'w'), indent=1)
print("claimed:", sorted(CLAIMED))
