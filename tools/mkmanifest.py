#!/usr/bin/env python3
"""Regenerates /verif/MANIFEST.json from the table below (claimed checks) and properties.jsonl."""
import json, os
V = os.path.dirname(os.path.dirname(os.path.abspath(__file__)))
props = [json.loads(l) for l in open(os.path.join(V, 'properties.jsonl'))]

NOTE = ("Trusted base: go/types, go/ssa (x/tools v0.29.0), VTA call graph with CHA fallback for client round-trip types, Go channel/WaitGroup semantics. "
        "Decides necessary structural conditions on every path of the code; not the behavioural statement as a whole. ")

# id -> (technique, level text, level note, design ref)
CLAIMED = {
 "C09": ("path-sensitive guarded-effect analysis over SSA (custom checker, go/ssa)",
         "Every public bar operation's transition rule is decided on all paths of the closure it sends to the bar goroutine (clamp-and-trigger after every write of current, SetTotal/EnableTriggerComplete/Abort/SetRefill guards and effects, completion predicate, constructor flag, getters, shorthands). Sound for the per-operation rules on all inputs; sequences follow by induction, not by replay.",
         NOTE + "Assumes one operation at a time per bar (C10). Equality with a reference model over sequences is argued per operation, not executed.", "DESIGN.md §4 C09"),
 "C11": ("inductive-invariant argument by path-sensitive guarded-effect analysis over SSA",
         "The invariant 'not (aborted and completed)' is shown inductive over every operation closure and the bar loop's exit, and the terminal flags are shown to be written only where they cannot be reset (predicate implies !aborted, Abort guarded, exit derives aborted from !completed before publishing, trigger flag never reset, clamp discipline after completion, post-exit getters read the published state). Sound for all operation histories with non-decreasing updates.",
         NOTE + "Assumes C10 (one operation at a time) and non-decreasing updates after the terminal state, as in the statement.", "DESIGN.md §4 C11"),
 "C02": ("communication-shape analysis (channel-class table from SSA) + path enumeration + abstract reachability (nil-ness of disabled inboxes)",
         "Every blocking operation of the module is classified under a schema that cannot block forever (liveness skeleton), every inbox offer has the actor's liveness alternative, published state is read only after the ready channel, late calls return the documented values without effect, every send on the heap-manager channel is made by the container loop and none is reachable after the end request, every close executes at most once per channel instance, payload assertions agree with constructors, modulo-indexed lists are non-empty by construction and only the documented panics exist. Decides these necessary conditions on all paths and all positions of the done event.",
         NOTE + "Does not decide panics inside user callbacks, resource exhaustion, or global deadlock freedom beyond the pairwise schemas.", "DESIGN.md §4 C02"),
 "C16": ("communication-shape analysis: classification of every blocking operation and go site",
         "Each of the module's go targets is inventoried and every blocking channel/WaitGroup operation is shown to fall under a terminating schema (escape on a close-only signal whose arm leaves the loop, reply leg, range over a producer-closed channel, buffered frame channel, who-closes-done justification of the listeners' forward sends, single detached notifier send), plus close-once and request-FIFO rules. A goroutine that outlives its container needs one of these to be broken.",
         NOTE + "Assumes the user reads the shutdown notifier channel and user callbacks return.", "DESIGN.md §4 C16"),
 "C05": ("path-sensitive per-bar outcome analysis of the flush loop and the heap loop's iteration (guarded effects, counting)",
         "For every path of flush's collection loop the iterated bar is retained at most once and exactly once unless a drop reason holds, with a complete decision table; the heap loop delivers or re-pushes every popped bar and offers each element once; one renderer and one frame per bar; pushes and the next cycle's requests share one FIFO from one goroutine; the notifier gets the heap's own list after the last request.",
         NOTE + "Counts outcomes per bar and cycle; frame contents are not examined.", "DESIGN.md §4 C05"),
 "C17": ("guarded-effect analysis of the Add closure and flush's successor swap",
         "A created bar is pushed or parked, exactly one; at the predecessor's cancelling frame the successor is swapped in (entry deleted, current priority inherited, pushed once with sync=true, predecessor dropped). Two necessary conditions are violated by the pinned tree and recorded as open known findings (overwrite of an existing successor; parking after the predecessor was flushed).",
         NOTE + "Orders of create/finish/flush events are not replayed; the rules are the structural conditions without which some order loses a bar.", "DESIGN.md §4 C17"),
 "C18": ("guarded-effect analysis of flush's pop arms and row accounting",
         "Pop priority assigned then advanced, bar retained once at the cancelling frame, rows accounted and bar dropped at the next terminal frame, no-pop bars keep the default arm, Flush receives rows minus popped rows, initial pop priority below all defaults.",
         NOTE + "The persisted screen region is not interpreted.", "DESIGN.md §4 C18"),
}
PENDING_REASON = "check not built yet (DESIGN.md §7: a property is claimed only once its rules are built and silent on the repaired tree)"
NA = {}

m = {
 "version": 1,
 "setup_cmd": "cd /verif/checker && GOFLAGS=-mod=vendor GOPROXY=off GOSUMDB=off GOTOOLCHAIN=local go build -o /verif/bin/mpbcheck .",
 "hooks": {"guard": "verif", "enable": "none needed: the checks analyse /repo's sources statically; no hooks or instrumentation exist in /repo",
           "baseline_off_cmd": "cd /repo && GOFLAGS=-mod=mod GOPROXY=off GOSUMDB=off go test -vet=off -count=1 -timeout 25m ./...",
           "source_commits": [], "add_only": True},
 "engines": [{"name": "mpbcheck", "path": "checker/", "serves_properties": sorted(CLAIMED),
              "kind_free_text": "repository-specific static analyser: go/packages + go/ssa + VTA/CHA call graph; engines: communication shape (channel classes), roles/confinement, guarded effects per path, loop termination, arithmetic safety, wrapper transparency, table agreement"}],
 "checks": [],
 "notes": "Static analysis only: every check loads /repo's current working tree (type-checked, SSA) on every run and reports constructs; nothing of mpb is executed. exit 0 = all obligations hold (KNOWN-FINDING lines for recorded open findings), exit 1 = VIOLATION lines, exit 2 = checker broken. See DESIGN.md.",
 "not_applicable": [],
}
for p in props:
    i = p["id"]
    if i in CLAIMED:
        tech, text, note, ref = CLAIMED[i]
        m["checks"].append({"property_id": i, "quick_cmd": f"./check.sh {i} quick", "thorough_cmd": f"./check.sh {i} thorough",
            "evidence_file": f"/verif/evidence/{i}.json", "replay_cmd_template": "./bin/mpbcheck explain {path}", "engine": "mpbcheck",
            "level_claimed": {"category": "other", "text": text, "design_ref": ref}, "level_note": note, "technique": tech})
    else:
        m["not_applicable"].append({"property_id": i, "reason": NA.get(i, PENDING_REASON)})
json.dump(m, open(os.path.join(V, 'MANIFEST.json'), 'w'), indent=1)
print("claimed:", sorted(CLAIMED))
