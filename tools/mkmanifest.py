#!/usr/bin/env python3
"""Regenerates /verif/MANIFEST.json from the table below (claimed checks) and properties.jsonl."""
import json, os
V = os.path.dirname(os.path.dirname(os.path.abspath(__file__)))
props = [json.loads(l) for l in open(os.path.join(V, 'properties.jsonl'))]

NOTE = ("Trusted base: go/types, go/ssa (x/tools v0.29.0), VTA call graph with CHA fallback for client round-trip types, Go channel/WaitGroup semantics. "
        "Decides necessary structural conditions on every path of the code; not the behavioural statement as a whole. ")

# id -> (technique, level text, level note, design ref)
CLAIMED = {
 "C09": ("path-sensitive guarded-effect analysis over SSA (custom checker, go/ssa)",
         "Every public bar operation's transition rule is decided on all paths of the closure it sends to the bar goroutine (clamp-and-trigger after every write of current, SetTotal/EnableTriggerComplete/Abort/SetRefill guards and effects, completion predicate, constructor flag, getters, shorthands). Sound for the per-operation rules on all inputs; sequences follow by induction, not by replay.",
         NOTE + "Assumes one operation at a time per bar (C10). Equality with a reference model over sequences is argued per operation, not executed.", "DESIGN.md §4 C09"),
 "C11": ("inductive-invariant argument by path-sensitive guarded-effect analysis over SSA",
         "The invariant 'not (aborted and completed)' is shown inductive over every operation closure and the bar loop's exit, and the terminal flags are shown to be written only where they cannot be reset (predicate implies !aborted, Abort guarded, exit derives aborted from !completed before publishing, trigger flag never reset, clamp discipline after completion, post-exit getters read the published state). Sound for all operation histories with non-decreasing updates.",
         NOTE + "Assumes C10 (one operation at a time) and non-decreasing updates after the terminal state, as in the statement.", "DESIGN.md §4 C11"),
 "C02": ("communication-shape analysis (channel-class table from SSA) + path enumeration + abstract reachability (nil-ness of disabled inboxes)",
         "Every blocking operation of the module is classified under a schema that cannot block forever (liveness skeleton), every inbox offer has the actor's liveness alternative, published state is read only after the ready channel, late calls return the documented values without effect, every send on the heap-manager channel is made by the container loop and none is reachable after the end request, every close executes at most once per channel instance, payload assertions agree with constructors, modulo-indexed lists are non-empty by construction and only the documented panics exist. Decides these necessary conditions on all paths and all positions of the done event.",
         NOTE + "Does not decide panics inside user callbacks, resource exhaustion, or global deadlock freedom beyond the pairwise schemas.", "DESIGN.md §4 C02"),
 "C16": ("communication-shape analysis: classification of every blocking operation and go site",
         "Each of the module's go targets is inventoried and every blocking channel/WaitGroup operation is shown to fall under a terminating schema (escape on a close-only signal whose arm leaves the loop, reply leg, range over a producer-closed channel, buffered frame channel, who-closes-done justification of the listeners' forward sends, single detached notifier send), plus close-once and request-FIFO rules. A goroutine that outlives its container needs one of these to be broken.",
         NOTE + "Assumes the user reads the shutdown notifier channel and user callbacks return.", "DESIGN.md §4 C16"),
 "C05": ("path-sensitive per-bar outcome analysis of the flush loop and the heap loop's iteration (guarded effects, counting)",
         "For every path of flush's collection loop the iterated bar is retained at most once and exactly once unless a drop reason holds, with a complete decision table; the heap loop delivers or re-pushes every popped bar and offers each element once; one renderer and one frame per bar; pushes and the next cycle's requests share one FIFO from one goroutine; the notifier gets the heap's own list after the last request.",
         NOTE + "Counts outcomes per bar and cycle; frame contents are not examined.", "DESIGN.md §4 C05"),
 "C17": ("guarded-effect analysis of the Add closure and flush's successor swap",
         "A created bar is pushed or parked, exactly one; at the predecessor's cancelling frame the successor is swapped in (entry deleted, current priority inherited, pushed once with sync=true, predecessor dropped). Two necessary conditions are violated by the pinned tree and recorded as open known findings (overwrite of an existing successor; parking after the predecessor was flushed).",
         NOTE + "Orders of create/finish/flush events are not replayed; the rules are the structural conditions without which some order loses a bar.", "DESIGN.md §4 C17"),
 "C18": ("guarded-effect analysis of flush's pop arms and row accounting",
         "Pop priority assigned then advanced, bar retained once at the cancelling frame, rows accounted and bar dropped at the next terminal frame, no-pop bars keep the default arm, Flush receives rows minus popped rows, initial pop priority below all defaults.",
         NOTE + "The persisted screen region is not interpreted.", "DESIGN.md §4 C18"),
 "C01": ("communication-shape analysis (liveness skeleton) + guarded-effect path analysis + width-exchange discipline",
         "All pairings and escapes without which some schedule provably blocks Wait forever are decided on every path: schema classification of every blocking operation, wait-group pairing, terminal-state-implies-cancel chain (trigger, render closure counter, flush cancel), one frame per render, producer-closed iterators, FIFO heap requests never issued while iterating, new bars announced with sync=true, balanced width exchanges, heap protocol table, reply pairing, created bars pushed or parked. Two open known findings (lost queued successor) are reported as KNOWN-FINDING.",
         NOTE + "Absence of deadlock as a global property of all schedules is not decided (that needs a schedule explorer); user callbacks are assumed to return; fairness assumed.", "DESIGN.md §4 C01"),
 "C03": ("who-may-call/role analysis + ordering rules on SSA paths",
         "No byte after Wait (writer confined to the container role; Wait/Shutdown ordering; deferred pwg.Done), terminal bars drawn before cancel (counter copied before increment; cancel at the cancelling value), final render before the end request under auto refresh and repeated while the heap reports change, every non-error path of flush ends in the writer's Flush, final values survive exit, completed implies current == total; the on-complete / on-abort wrappers and filler options show their decoration exactly on paths that carry Statistics.Completed / Aborted; the terminal probes (IsTerminal, GetSize) answer from the success of their system call and the Windows console is cleared by moving the cursor up by the remembered line count.",
         NOTE + "Frame contents are not interpreted; manual-refresh containers excluded; convergence of the final loop in a bounded number of cycles is not decided.", "DESIGN.md §4 C03"),
 "C10": ("actor-confinement analysis: provenance of base pointers over SSA + VTA/CHA call graph, per-field access classification",
         "For bState, pState, Bar and the cwriter buffer every field access is classified (pre-publication, owner, post-exit, hand-over, other) and the per-field confinement rule is decided; whole-struct loads count as reads of every field; at most one inbox offer per exported operation on any path; owner loops call received closures synchronously; decorator state mutated only by the bar actor roles; nothing touches the state after publication.",
         NOTE + "Linearizability as a history property is not decided; the heap/flush hand-over of Bar.index/priority is an assumption; races inside user decorators shared between bars are documented misuse.", "DESIGN.md §4 C10"),
 "C12": ("width-exchange discipline (E8) by path enumeration and structural loop analysis",
         "Format negotiates exactly max(W, text)(+extra) with one send then one receive iff the sync bit; every Decor performs exactly one exchange and returns its width; distributor collects all, keeps the maximum under received > max, distributes to all; wSyncTable covers both groups in order; push arm accumulates the re-sync flag; sync arm rebuilds exactly under sync || len changed from every heap element and launches a distributor per column of both matrices; new bars pushed with sync=true.",
         NOTE + "Numeric equality of rendered widths is not computed; runewidth is trusted.", "DESIGN.md §4 C12"),
 "C13": ("wrapper-transparency and who-may-call rules on SSA",
         "The Write closure forwards the caller's slice once to the current writer and replies (n, err) unchanged; closures run synchronously in the container loop; the buffer is confined to the container role and rows are written only inside flush; a final render and Flush precede the end request; the discarding writer is used while the render delay is pending; a late Write returns (0, ErrDone).",
         NOTE + "The byte stream is not interpreted; manual-refresh containers have no final frame by construction; fault histories are outside the property's quantifier.", "DESIGN.md §4 C13"),
 "C14": ("context data-flow + exit-arm path analysis + communication-shape rules",
         "Bar contexts derive from the container's; listeners close done once on ctx.Done and return; the non-refreshing container's done is ctx.Done; the bar exit arm notifies every (unwrapped) shutdown listener of both groups in a goroutine accounted before the loop's own Done, derives aborted, publishes, releases, returns - once; one end request on every exit of the container loop; the heap's end arm notifies once iff configured and closes the channel; Wait/Shutdown ordering; unwrap is recursive.",
         NOTE + "Timing is not decided; context propagation is the standard library's.", "DESIGN.md §4 C14"),
 "C15": ("error-discipline rules + abstract reachability (nil-ness through phis) + liveness schemas",
         "Every render/flush error reaches the container loop's err; the error edge spawns the drain loop, cancels the container and disables all three inboxes; from every error edge no further render is reachable and the error is written to the debug output exactly once on every path to return; the size-query error abandons the cycle; a cycle is abandoned only when no render is in flight (flush never leaves its collection loop early).",
         NOTE + "Fault injection is not executed; the rules hold for every fault site and every k because they hold on every path.", "DESIGN.md §4 C15"),
 "C04": ("ordering/guard rules on SSA paths of the writer's Flush, flush's clipping and accounting, and the constructor's listener decision",
         "Frame written before the queued cursor-up+erase, which goes into the writer's own buffer with the given count and only for lines > 0, with the right escape constants; rows appended only while len(rows) < height-1 and clipped readers drained; used/popped row accounting and the Flush argument; discarding writer while the render delay is pending; listener only for manual / terminal / forced auto refresh with consistent flags. One genuine defect (height rows scroll the top bar into the scrollback) was found by this rule, reproduced and repaired (fix: f14b509).",
         NOTE + "The screen state after each frame is not computed by interpreting the byte stream; column widths are C07; one line per row reader is the user's contract.", "DESIGN.md §4 C04"),
 "C06": ("orientation-parity and heap-bookkeeping rules (E10) on SSA",
         "Less is a direct strict comparison of the two priorities (no overflowing arithmetic) and its orientation agrees with the reversed output loop and the reversed per-bar row collection; the fix arm is guarded by index >= 0, stores then fixes unless lazy; Swap/Push/Pop keep Bar.index consistent; default priority is the creation counter; successor inherits at the swap; pop priority assigned then advanced; API forwards (bar, priority, lazy).",
         NOTE + "Per-frame order under racing updates is not decided; container/heap is trusted.", "DESIGN.md §4 C06"),
 "C07": ("loop-termination classification (ranking arguments per natural loop, E5) + guarded-effect width accounting",
         "Every natural loop on the render/heap path has a stated ranking argument (range, counting with provably positive loop-invariant step, two-pointer, drain), recursion only through data-bounded delegation; decorator text is written in full only under AvailableWidth - width >= 0, truncated only under AvailableWidth > 0, with the width accounted; spacers kept only with room; fillers return before writing when their width does not fit (the brackets written around the body are exactly what is taken off the allotted width); every advance of the cell counter is guarded by the space left; style components are built as (StringWidth(x), []byte(x)) of one text; the statistics snapshot hands on the renderer's width; sizes come from the terminal query (columns, rows) or the requested width; every built-in Decor returns its Format width; a tip frame is written only when it was counted; the spinner body is position(frame, width - width(frame)) with paddings that add up to the pad; Add keeps the caller's filler unless it is nil. A complete termination decision for library code assuming library callees terminate.",
         NOTE + "Display width of actual strings (runewidth semantics) is not computed.", "DESIGN.md §4 C07"),
 "C08": ("overflow taint + monotone-composition lattice + structural relation of fill/refill widths (E6)",
         "No integer product/shift of total/current/refill anywhere in the percentage path; negativity guard before int64->uint; every piece of the helper non-decreasing in current, full width at/after total, zero for total 0; wrapper rounds; filler relates filled and refill widths without further adjustment and accounts exactly the cells it appends; SetRefill caps at current.",
         NOTE + "Rounding to the nearest cell and the +-1 rune tolerance are arithmetic facts assumed, not decided.", "DESIGN.md §4 C08"),
 "C19": ("wrapper-transparency rules (E7) on SSA paths + method-set facts from go/types",
         "Each forwarding method makes exactly one wrapped call with its argument passed through, returns (n, err) unchanged and accounts n exactly once on every path (timed Ewma flavour for the ewma proxies); constructors (helpers inlined) offer WriteTo/ReadFrom exactly on paths with the successful assertion on the caller's value and return a type whose accounting methods (own and promoted) are all of the Ewma kind exactly under the flag, which is len(ewmaDecorators) != 0; Close is promoted from the embedded interface; closers wrap or return the argument itself; the no-op closer preserves ReaderFrom. With C09 this is close to the whole property.",
         NOTE + "io.NopCloser is trusted; the bar-side counting rules are C09.", "DESIGN.md §4 C19"),
 "C20": ("table agreement (E9) + divisor guards and overflow taint (E6) + estimator conservation by path enumeration + algebraic normal forms of the printed quantities",
         "Unit chosen on every path of both size formats is the greatest threshold reached, suffix is that unit's name, tables are siblings; no integer product in the percentage path; every float division has a non-zero divisor on every path; each EwmaUpdate conserves time (carry or add-and-reset, siblings agree); samples reach every estimator through the recursive unwrap; wrappers implement Unwrap; elapsed/average speed freeze after completion; h/m/s components are (d/unit)%60; the quantity each rate/ETA decorator prints has the documented normal form (coefficient x powers of current, total-current, elapsed, moving average - conversions, rounding and Seconds() transparent); counters and speed producers print the documented quantities in the selected unit; the default format is installed iff the caller's is empty; hh:mm:ss components are printed in order and mm:ss only under hours <= 0; a sample is carried only when unusable and never added when infinite/NaN; the optional normaliser is called iff non-nil; no estimator is built around a nil average; the median is the middle element of a sorted copy.",
         NOTE + "Read-back accuracy of printed numbers and printf verb handling are value-level and not decided.", "DESIGN.md §4 C20"),
}
PENDING_REASON = "check not built yet (DESIGN.md §7: a property is claimed only once its rules are built and silent on the repaired tree)"
NA = {}

m = {
 "version": 1,
 "setup_cmd": "cd /verif/checker && GOFLAGS=-mod=vendor GOPROXY=off GOSUMDB=off GOTOOLCHAIN=local go build -o /verif/bin/mpbcheck .",
 "hooks": {"guard": "verif", "enable": "none needed: the checks analyse /repo's sources statically; no hooks or instrumentation exist in /repo",
           "baseline_off_cmd": "cd /repo && GOFLAGS=-mod=mod GOPROXY=off GOSUMDB=off go test -vet=off -count=1 -timeout 25m ./...",
           "source_commits": [], "add_only": True},
 "engines": [{"name": "mpbcheck", "path": "checker/", "serves_properties": sorted(CLAIMED),
              "kind_free_text": "repository-specific static analyser: go/packages + go/ssa + VTA/CHA call graph; engines: communication shape (channel classes), roles/confinement, guarded effects per path, loop termination, arithmetic safety, wrapper transparency, table agreement"}],
 "checks": [],
 "notes": "Static analysis only: every check loads /repo's current working tree (type-checked, SSA) on every run and reports constructs; nothing of mpb is executed. exit 0 = all obligations hold (KNOWN-FINDING lines for recorded open findings), exit 1 = VIOLATION lines, exit 2 = checker broken. See DESIGN.md.",
 "not_applicable": [],
}
for p in props:
    i = p["id"]
    if i in CLAIMED:
        tech, text, note, ref = CLAIMED[i]
        m["checks"].append({"property_id": i, "quick_cmd": f"./check.sh {i} quick", "thorough_cmd": f"./check.sh {i} thorough",
            "evidence_file": f"/verif/evidence/{i}.json", "replay_cmd_template": "./bin/mpbcheck explain {path}", "engine": "mpbcheck",
            "level_claimed": {"category": "other", "text": text, "design_ref": ref}, "level_note": note, "technique": tech})
    else:
        m["not_applicable"].append({"property_id": i, "reason": NA.get(i, PENDING_REASON)})
json.dump(m, open(os.path.join(V, 'MANIFEST.json'), 'w'), indent=1)
print("claimed:", sorted(CLAIMED))
