#!/usr/bin/env python3
"""usage: ingest_seed.py <agent-dir> <property> <round> <n>   e.g. /tmp/r5/C01/A C01 5 1
Copies a sub-agent's seeded change into /verif/seeded/<prop>r<round>-<n>/, confirms it with tools/verify_seed.sh
(applies, builds, unedited suite passes with it, demonstration fails with it and passes without it), runs every
check against it (tools/trymut-style, scratch copy) and writes meta.json. Prints one line. A change that is not
confirmed is not kept."""
import json, os, shutil, subprocess, sys, tempfile

src, prop, rnd, n = sys.argv[1], sys.argv[2], int(sys.argv[3]), int(sys.argv[4])
sid = f"{prop}r{rnd}-{n}"
dst = f"/verif/seeded/{sid}"
notes = json.load(open(f"{src}/notes.json"))
os.makedirs(dst, exist_ok=True)
shutil.copy(f"{src}/patch.diff", f"{dst}/patch.diff")
shutil.copy(f"{src}/demo_test.go.txt", f"{dst}/demo_test.go.txt")
race = bool(notes.get("needs_race"))
env = dict(os.environ, GOFLAGS="-mod=mod", GOPROXY="off", GOSUMDB="off", GOTOOLCHAIN="local")
env.pop("GOWORK", None)
if race:
    env["SEED_RACE"] = "1"
wt = os.environ.get("WT", "/tmp/mutwt")
r = subprocess.run(["bash", "/verif/tools/verify_seed.sh", dst], capture_output=True, text=True, env=env)
line = (r.stdout.strip().splitlines() or ["NO-OUTPUT"])[-1]
ok_suite = "suite_fail_lines=0" in line and "suite_ok_pkgs=4" in line
withp = line.split("| with:")[1].split("| without:")[0].strip() if "| with:" in line else ""
withoutp = line.split("| without:")[1].strip() if "| without:" in line else ""
fails_with = not withp.startswith("ok")
passes_without = withoutp.startswith("ok")
confirmed = ok_suite and fails_with and passes_without
if not confirmed:
    print(f"{sid} NOT-CONFIRMED {line}")
    shutil.rmtree(dst)
    sys.exit(1)
# which checks report it
tmp = tempfile.mkdtemp(prefix="ing.")
os.makedirs(f"{tmp}/verif")
shutil.copy("/verif/known_findings.json", f"{tmp}/verif/")
subprocess.check_call(["rsync", "-a", "--exclude", ".git", "/repo/", f"{tmp}/tree/"])
subprocess.check_call(["patch", "-p1", "-s", "-i", f"{dst}/patch.diff"], cwd=f"{tmp}/tree")
hits = []
props = subprocess.run(["/verif/bin/mpbcheck", "list"], capture_output=True, text=True).stdout.split()
procs = {p: subprocess.Popen(["/verif/bin/mpbcheck", "-repo", f"{tmp}/tree", "-verif", f"{tmp}/verif", p],
                             stdout=subprocess.PIPE, stderr=subprocess.STDOUT, text=True, env=env) for p in props}
first = {}
for p, pr in procs.items():
    out, _ = pr.communicate()
    if pr.returncode == 1:
        hits.append(p)
        for l in out.splitlines():
            if l.startswith(("VIOLATED", "UNDECIDED", "UNRESOLVED")):
                first[p] = l[:300]
                break
    elif pr.returncode >= 2:
        hits.append(p + "(BROKEN)")
shutil.rmtree(tmp)
demo_dir = notes.get("demo_dir", ".") or "."
meta = {
    "id": sid, "property": prop, "round": rnd,
    "summary": notes.get("summary", ""), "mechanism": notes.get("mechanism", ""), "needs": notes.get("needs", ""),
    "needs_race": race,
    "origin": "independent sub-agent given only the property text and its own scratch worktree of /repo (no access to /verif)",
    "demo": {"file": "demo_test.go.txt", "copy_to": f"<tree>/{demo_dir}/zz_seed_demo_test.go"},
    "confirmed": {
        "how": "tools/verify_seed.sh in a scratch worktree of /repo (removed afterwards): git apply; go build ./...; full existing suite; demo with the change; git checkout; demo without the change",
        "result": line, "suite_passes_with_change": ok_suite, "demo_fails_with_change": fails_with, "demo_passes_without_change": passes_without,
    },
    "caught_by": [h for h in hits if not h.endswith("(BROKEN)")],
    "first_report": first.get(prop, ""),
    "base_commit": subprocess.run(["git", "-C", "/repo", "log", "-1", "--format=%h %s"], capture_output=True, text=True).stdout.strip(),
}
json.dump(meta, open(f"{dst}/meta.json", "w"), indent=1)
status = "OWN" if prop in hits else ("NEIGHBOUR" if hits else "MISSED")
print(f"{sid} {status} caught_by={' '.join(hits) or '-'} | {notes.get('summary','')[:160]}")
