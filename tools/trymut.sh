#!/bin/bash
# usage: trymut.sh <patch.diff> <prop> [<prop>...]
# applies the patch in the scratch worktree, runs the named checks against it (evidence to a scratch dir), reverts.
wt=${WT:-/tmp/mutwt}; patch=$1; shift 1
scratch=$(mktemp -d /tmp/mutverif.XXXX)
cp /verif/known_findings.json $scratch/
git -C $wt checkout -q -- . && git -C $wt apply $patch || { echo "APPLY FAILED"; exit 3; }
for p in "$@"; do
  out=$(/verif/bin/mpbcheck -repo $wt -verif $scratch $p 2>&1); rc=$?
  echo "== $p rc=$rc"
  echo "$out" | grep -E "^(VIOLATED|UNDECIDED|UNRESOLVED|BROKEN)" | cut -c1-400
done
git -C $wt checkout -q -- .
rm -rf $scratch
