#!/bin/bash
# usage: check.sh <property-id> [quick|thorough]
# Static analysis of /repo's current working tree; nothing of mpb is executed.
set -u
cd "$(dirname "$0")"
id=$1; tier=${2:-${VERIF_TIER:-quick}}
export GOPROXY=off GOSUMDB=off GOTOOLCHAIN=local GOWORK=off
unset GOWORK
need_build=0
[ -x bin/mpbcheck ] || need_build=1
if [ $need_build = 0 ] && [ -n "$(find checker -name '*.go' -not -path 'checker/vendor/*' -newer bin/mpbcheck | head -1)" ]; then need_build=1; fi
if [ $need_build = 1 ]; then
  (cd checker && GOFLAGS=-mod=vendor go build -o ../bin/mpbcheck .) || { echo "BROKEN: checker build failed" >&2; exit 2; }
fi
export GOFLAGS=-mod=mod
exec ./bin/mpbcheck -repo "${VERIF_REPO:-/repo}" -verif "$(pwd)" -tier "$tier" "$id"
